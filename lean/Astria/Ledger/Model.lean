/-
  Model of the sequencer ledger: what a transaction / IBC packet handler / block end does to
  balances, IBC escrow, block fees, bridge accounts, withdrawal events, authorities, the fee
  schedule and the validator set.  Written from

    checked_transaction/mod.rs (execute), checked_actions/*.rs (new / run_mutable_checks /
    execute of every action kind), checked_actions/checked_action.rs (pay_fee),
    checked_actions/utils.rs (fee), accounts/state_ext.rs, fees/state_ext.rs,
    bridge/state_ext.rs, ibc/state_ext.rs, ibc/ics20_transfer.rs, authority/*,
    app/mod.rs (execute_transaction, end_block).

  Shape: every action is "checks on the current state, then a list of primitive `Effect`s";
  `applyEffects` runs them in order and any failure discards the whole transaction (the
  transaction's own `StateDelta` is dropped).  Addresses and assets are names (strings); an
  asset's name is its trace-prefixed denomination.
-/
namespace Astria.Ledger

def U128_MAX : Nat := 2 ^ 128 - 1
def U64_MAX : Nat := 2 ^ 64 - 1
def U32_MAX : Nat := 2 ^ 32 - 1

/-! ## finite maps as association lists -/

/-- Value of a `Nat`-valued map at `k`: the sum of all entries for `k` (keys are unique in
    every reachable map, `setN` keeps them so; the sum form needs no uniqueness invariant). -/
def getN {κ : Type} [DecidableEq κ] : List (κ × Nat) → κ → Nat
  | [], _ => 0
  | e :: m, k => (if e.1 = k then e.2 else 0) + getN m k

def erase {κ α : Type} [DecidableEq κ] : List (κ × α) → κ → List (κ × α)
  | [], _ => []
  | e :: m, k => if e.1 = k then erase m k else e :: erase m k

def setN {κ : Type} [DecidableEq κ] (m : List (κ × Nat)) (k : κ) (v : Nat) : List (κ × Nat) :=
  (k, v) :: erase m k

def lookup {κ α : Type} [DecidableEq κ] : List (κ × α) → κ → Option α
  | [], _ => none
  | e :: m, k => if e.1 = k then some e.2 else lookup m k

def insert {κ α : Type} [DecidableEq κ] (m : List (κ × α)) (k : κ) (v : α) : List (κ × α) :=
  (k, v) :: erase m k

/-! ## state -/

inductive Kind where
  | transfer | rollup | ics20 | initBridge | lock | unlock | bridgeTransfer | bridgeSudo
  deriving DecidableEq, Repr

structure FeeCfg where
  base : Nat
  mult : Nat
  deriving DecidableEq, Repr

structure BridgeAcct where
  rollup : Nat
  asset : String
  sudo : String
  withdrawer : String
  disabled : Bool
  deriving DecidableEq, Repr

structure Deposit where
  bridge : String
  rollup : Nat
  asset : String
  amount : Nat
  destLen : Nat
  index : Nat
  deriving DecidableEq, Repr

/-- ABCI events a transaction records that the checks look at: `tx.fees` and `tx.deposit`. -/
inductive Ev where
  | fee (asset : String) (amount pos : Nat)
  | dep (amount : Nat)
  deriving DecidableEq, Repr

structure State where
  postAspen : Bool
  postBlackburn : Bool
  bal : List ((String × String) × Nat) := []        -- (address, asset) ↦ balance
  nonce : List (String × Nat) := []
  esc : List ((Nat × String) × Nat) := []            -- (channel, asset) ↦ escrow
  bridges : List (String × BridgeAcct) := []
  wd : List ((String × String) × Nat) := []          -- (bridge, event id) ↦ rollup block number
  sudo : String
  ibcSudo : String
  relayers : List String := []
  fees : List (Kind × FeeCfg) := []
  feeAssets : List String := []
  knownAssets : List String := []
  vals : List (String × Nat) := []                   -- validator key ↦ power (both formats)
  valCount : Nat := 0
  -- oracle (privileged state of the sudo address)
  pairs : List (String × Nat) := []                  -- currency pair ↦ id
  numPairs : Nat := 0
  nextPairId : Nat := 0
  markets : Option (List (String × Nat)) := none     -- market (ticker) ↦ decimals; none = no market map
  -- ephemeral (cleared when the block is committed)
  blockFees : List (String × Nat) := []
  deposits : List Deposit := []
  valUpdates : List (String × Nat) := []
  events : List Ev := []
  deriving Repr

inductive Err where
  | nonce | nonceOverflow | construct | exec
  deriving DecidableEq, Repr

/-! ## primitive effects -/

inductive Effect where
  | debit (x a : String) (n : Nat)
  | credit (x a : String) (n : Nat)
  | escAdd (c : Nat) (a : String) (n : Nat)
  | escSub (c : Nat) (a : String) (n : Nat)
  | blockFee (a : String) (n : Nat) (pos : Nat)
  | deposit (d : Deposit)
  | recordWd (b id : String) (blk : Nat)
  | initBridge (x : String) (rollup : Nat) (asset sudo wd : String)
  | setBridgeSudo (b x : String)
  | setBridgeWithdrawer (b x : String)
  | setBridgeDisabled (b : String) (v : Bool)
  | setSudo (x : String)
  | setIbcSudo (x : String)
  | addRelayer (x : String)
  | delRelayer (x : String)
  | setFee (k : Kind) (cfg : FeeCfg)
  | addFeeAsset (a : String)
  | delFeeAsset (a : String)
  | valUpdate (key : String) (power : Nat)
  | registerAsset (a : String)
  | addPair (name : String)
  | delPair (name : String)
  | setMarkets (ms : List (String × Nat))
  | fail                                 -- an execution step that returns an error
  deriving DecidableEq, Repr

def updBridge (s : State) (b : String) (f : BridgeAcct → BridgeAcct) : State :=
  match lookup s.bridges b with
  | some acct => { s with bridges := insert s.bridges b (f acct) }
  | none => s

/-- One primitive state change; `none` = the Rust returns an error at this point. -/
def applyEffect (s : State) : Effect → Option State
  | .debit x a n =>
    let b := getN s.bal (x, a)
    if n ≤ b then some { s with bal := setN s.bal (x, a) (b - n) } else none
  | .credit x a n =>
    let b := getN s.bal (x, a)
    if b + n ≤ U128_MAX then some { s with bal := setN s.bal (x, a) (b + n) } else none
  | .escAdd c a n =>
    let b := getN s.esc (c, a)
    if b + n ≤ U128_MAX then some { s with esc := setN s.esc (c, a) (b + n) } else none
  | .escSub c a n =>
    let b := getN s.esc (c, a)
    if n ≤ b then some { s with esc := setN s.esc (c, a) (b - n) } else none
  | .blockFee a n pos =>
    -- the `tx.fees` event is recorded before the checked addition
    let b := getN s.blockFees a
    if b + n ≤ U128_MAX then
      some { s with blockFees := setN s.blockFees a (b + n), events := s.events ++ [.fee a n pos] }
    else none
  | .deposit d => some { s with deposits := s.deposits ++ [d], events := s.events ++ [.dep d.amount] }
  | .recordWd b id blk => some { s with wd := setN s.wd (b, id) blk }
  | .initBridge x rollup asset sudo wd =>
    some { s with bridges := insert s.bridges x ⟨rollup, asset, sudo, wd, false⟩ }
  | .setBridgeSudo b x => some (updBridge s b fun acct => { acct with sudo := x })
  | .setBridgeWithdrawer b x => some (updBridge s b fun acct => { acct with withdrawer := x })
  | .setBridgeDisabled b v => some (updBridge s b fun acct => { acct with disabled := v })
  | .setSudo x => some { s with sudo := x }
  | .setIbcSudo x => some { s with ibcSudo := x }
  | .addRelayer x => some { s with relayers := x :: s.relayers.filter (· ≠ x) }
  | .delRelayer x => some { s with relayers := s.relayers.filter (· ≠ x) }
  | .setFee k cfg => some { s with fees := insert s.fees k cfg }
  | .addFeeAsset a => some { s with feeAssets := a :: s.feeAssets.filter (· ≠ a) }
  | .delFeeAsset a => some { s with feeAssets := s.feeAssets.filter (· ≠ a) }
  | .valUpdate key power =>
    let s := { s with valUpdates := insert s.valUpdates key power }
    if !s.postAspen then some s
    else if power = 0 then
      some { s with vals := erase s.vals key, valCount := s.valCount - 1 }
    else match lookup s.vals key with
      | some _ => some { s with vals := insert s.vals key power }
      | none => some { s with vals := insert s.vals key power,
                              valCount := min (s.valCount + 1) U64_MAX }
  | .registerAsset a =>
    some (if a ∈ s.knownAssets then s else { s with knownAssets := a :: s.knownAssets })
  | .addPair name =>
    some { s with pairs := insert s.pairs name s.nextPairId, nextPairId := s.nextPairId + 1,
                  numPairs := s.numPairs + 1 }
  | .delPair name => some { s with pairs := erase s.pairs name, numPairs := s.numPairs - 1 }
  | .setMarkets ms => some { s with markets := some ms }
  | .fail => none

def applyEffects (s : State) : List Effect → Option State
  | [] => some s
  | e :: rest => match applyEffect s e with
    | none => none
    | some s' => applyEffects s' rest

/-! ## actions -/

inductive Action where
  | transfer (to asset : String) (amount : Nat) (feeAsset : String)
  | rollup (len : Nat) (feeAsset : String)
  | lock (to asset : String) (amount : Nat) (feeAsset : String) (destLen : Nat)
  | unlock (to bridge : String) (amount : Nat) (feeAsset id : String) (blk : Nat)
  | bridgeTransfer (to bridge : String) (amount : Nat) (feeAsset id : String) (blk destLen : Nat)
  | initBridge (rollup : Nat) (asset feeAsset : String) (sudo wd : Option String)
  | bridgeSudo (bridge : String) (newSudo newWd : Option String) (feeAsset : String) (disable : Bool)
  | sudoChange (new : String)
  | ibcSudoChange (new : String)
  | relayerAdd (x : String)
  | relayerDel (x : String)
  | feeChange (k : Kind) (base mult : Nat)
  | feeAssetAdd (a : String)
  | feeAssetDel (a : String)
  | valUpdate (key : String) (power : Nat)
  | ics20 (amount : Nat) (denom : String) (chan : Nat) (feeAsset : String)
      (bridge : Option String) (id : String) (blk : Nat) (ret : String)
  | pairsAdd (names : List String)
  | pairsDel (names : List String)
  | marketsChange (kind : Nat) (ms : List (String × Nat))   -- 0 create, 1 remove, otherwise update
  | ibcRelayBad          -- an IbcRelay whose handler fails (non-fatally after Blackburn)
  deriving DecidableEq, Repr

def isBridge (s : State) (x : String) : Bool := (lookup s.bridges x).isSome

def chanPrefix (c : Nat) : String := s!"transfer/channel-{c}/"

/-- `trace.has_leading_port("transfer") && trace.has_leading_channel("channel-c")`. -/
def hasLeading (asset : String) (c : Nat) : Bool := asset.startsWith (chanPrefix c)

/-- `utils::fee` as in the pinned source: `base.saturating_add(size.saturating_mul(mult))`
    (DESIGN §7 F5). -/
def satMul128 (a b : Nat) : Nat := min (a * b) U128_MAX
def satAdd128 (a b : Nat) : Nat := min (a + b) U128_MAX
def feeAmountOriginal (cfg : FeeCfg) (size : Nat) : Nat := satAdd128 cfg.base (satMul128 size cfg.mult)

/-- `utils::fee` (as repaired): `size.checked_mul(mult).and_then(|v| base.checked_add(v))`;
    `none` = the fee does not fit into a `u128`, the action fails. -/
def feeAmount (cfg : FeeCfg) (size : Nat) : Option Nat :=
  if cfg.base + size * cfg.mult ≤ U128_MAX then some (cfg.base + size * cfg.mult) else none

/-- `pay_fee` for an action kind that carries a fee asset. -/
def feePlan (s : State) (k : Kind) (size : Nat) (feeAsset signer : String) (pos : Nat) :
    Option (List Effect) :=
  match lookup s.fees k with
  | none => none                                         -- action disabled
  | some cfg =>
    if feeAsset ∉ s.feeAssets then none
    else match feeAmount cfg size with
      | none => none
      | some fee => some [.blockFee feeAsset fee pos, .debit signer feeAsset fee]

def assetDisplayLen (a : String) : Nat := a.length

/-- The checks that are only made when the transaction is constructed (`…::new`). -/
def immutableOk (s : State) : Action → Bool
  | .rollup len _ => len > 0
  | .lock to asset _ _ _ =>
    match lookup s.bridges to with
    | some b => b.asset = asset
    | none => false
  | .unlock _ bridge amount _ id blk => amount > 0 && id ≠ "" && blk > 0 && isBridge s bridge
  | .bridgeTransfer to bridge amount _ id blk destLen =>
    amount > 0 && id ≠ "" && blk > 0 && destLen > 0 &&
    match lookup s.bridges bridge, lookup s.bridges to with
    | some b, some t => t.asset = b.asset
    | _, _ => false
  | .ics20 amount _ _ _ _ _ _ _ => amount > 0
  | _ => true

/-- `run_mutable_checks`: evaluated at construction and again in `execute`. -/
def mutableOk (s : State) (signer : String) : Action → Bool
  | .transfer _ _ _ _ => !isBridge s signer
  | .rollup _ _ => true
  | .lock to _ _ _ _ =>
    !isBridge s signer && match lookup s.bridges to with
      | some b => !b.disabled
      | none => true
  | .unlock to bridge _ _ id _ =>
    !isBridge s to && match lookup s.bridges bridge with
      | some b => b.withdrawer = signer && (lookup s.wd (bridge, id)).isNone
      | none => false
  | .bridgeTransfer to bridge _ _ id _ _ =>
    (match lookup s.bridges bridge with
      | some b => b.withdrawer = signer && (lookup s.wd (bridge, id)).isNone
      | none => false) &&
    (match lookup s.bridges to with
      | some t => !t.disabled
      | none => true)
  | .initBridge _ _ _ _ _ => !isBridge s signer
  | .bridgeSudo bridge _ _ _ disable =>
    match lookup s.bridges bridge with
    | some b => (s.postBlackburn || !disable) && b.sudo = signer
    | none => false
  | .sudoChange _ => s.sudo = signer
  | .ibcSudoChange _ => s.sudo = signer
  | .relayerAdd x => s.ibcSudo = signer && x ∉ s.relayers
  | .relayerDel x => s.ibcSudo = signer && x ∈ s.relayers
  | .feeChange _ _ _ => s.sudo = signer
  | .feeAssetAdd a => s.sudo = signer && a ∉ s.feeAssets
  | .feeAssetDel a => s.sudo = signer && a ∈ s.feeAssets && s.feeAssets.length > 1
  | .valUpdate key power =>
    s.sudo = signer &&
    (power ≠ 0 ||
      (if s.postAspen then s.valCount > 1 && (lookup s.vals key).isSome
       else (lookup s.vals key).isSome && s.vals.length ≠ 1))
  | .ics20 _ _ _ _ bridge id _ _ =>
    match bridge with
    | some b => (match lookup s.bridges b with
        | some acct => acct.withdrawer = signer && (lookup s.wd (b, id)).isNone
        | none => false)
    | none => !isBridge s signer
  | .ibcRelayBad => signer ∈ s.relayers
  | .pairsAdd names => s.sudo = signer && names.all fun n => (lookup s.pairs n).isNone
  | .pairsDel names => s.sudo = signer && names.all fun n => (lookup s.pairs n).isSome
  | .marketsChange kind ms =>
    s.sudo = signer && match s.markets with
      | none => false
      | some cur => ms.all fun m => if kind = 0 then (lookup cur m.1).isNone else (lookup cur m.1).isSome

def bridgeAsset (s : State) (b : String) : String :=
  match lookup s.bridges b with | some acct => acct.asset | none => ""

def bridgeRollup (s : State) (b : String) : Nat :=
  match lookup s.bridges b with | some acct => acct.rollup | none => 0

/-- Recording the rollup's withdrawal event (only for withdrawals made on behalf of a bridge). -/
def wdEffects (bridge : Option String) (id : String) (blk : Nat) : List Effect :=
  match bridge with | some b => [.recordWd b id blk] | none => []

/-- What `execute` does after its mutable checks passed. -/
def actionEffects (s : State) (signer : String) (pos : Nat) : Action → List Effect
  | .transfer to asset amount _ => [.debit signer asset amount, .credit to asset amount]
  | .rollup _ _ => []
  | .lock to asset amount _ destLen =>
    [.debit signer asset amount, .credit to asset amount,
     .deposit ⟨to, bridgeRollup s to, asset, amount, destLen, pos⟩]
  | .unlock to bridge amount _ id blk =>
    [.debit bridge (bridgeAsset s bridge) amount, .credit to (bridgeAsset s bridge) amount,
     .recordWd bridge id blk]
  | .bridgeTransfer to bridge amount _ id blk destLen =>
    [.debit bridge (bridgeAsset s bridge) amount, .credit to (bridgeAsset s bridge) amount,
     .deposit ⟨to, bridgeRollup s to, bridgeAsset s bridge, amount, destLen, pos⟩,
     .recordWd bridge id blk]
  | .initBridge rollup asset _ sudo wd =>
    [.initBridge signer rollup asset (sudo.getD signer) (wd.getD signer)]
  | .bridgeSudo bridge newSudo newWd _ disable =>
    (match newSudo with | some x => [.setBridgeSudo bridge x] | none => []) ++
    (match newWd with | some x => [.setBridgeWithdrawer bridge x] | none => []) ++
    (if s.postBlackburn then [.setBridgeDisabled bridge disable] else [])
  | .sudoChange new => [.setSudo new]
  | .ibcSudoChange new => [.setIbcSudo new]
  | .relayerAdd x => [.addRelayer x]
  | .relayerDel x => [.delRelayer x]
  | .feeChange k base mult => [.setFee k ⟨base, mult⟩]
  | .feeAssetAdd a => [.addFeeAsset a]
  | .feeAssetDel a => [.delFeeAsset a]
  | .valUpdate key power => [.valUpdate key power]
  | .ics20 amount denom chan _ bridge id blk _ =>
    let from_ := bridge.getD signer
    wdEffects bridge id blk ++
    [.debit from_ denom amount] ++
    (if !hasLeading denom chan then [.escAdd chan denom amount] else [])
  | .ibcRelayBad => [.fail]
  | .pairsAdd names => names.map .addPair
  | .pairsDel names => names.map .delPair
  | .marketsChange kind ms =>
    let cur := s.markets.getD []
    [.setMarkets (if kind = 0 then ms.foldl (fun acc m => insert acc m.1 m.2) cur
                  else if kind = 1 then ms.foldl (fun acc m => erase acc m.1) cur
                  else ms.foldl (fun acc m => insert acc m.1 m.2) cur)]

/-- Fee kind, variable fee component and fee asset of the actions that pay a fee. -/
def feeInfo : Action → Option (Kind × Nat × String)
  | .transfer _ _ _ fa => some (.transfer, 0, fa)
  | .rollup len fa => some (.rollup, len, fa)
  | .lock _ asset _ fa destLen => some (.lock, assetDisplayLen asset + destLen + 16, fa)
  | .unlock _ _ _ fa _ _ => some (.unlock, 0, fa)
  | .bridgeTransfer _ _ _ fa _ _ _ => some (.bridgeTransfer, 0, fa)
  | .initBridge _ _ fa _ _ => some (.initBridge, 0, fa)
  | .bridgeSudo _ _ _ fa _ => some (.bridgeSudo, 0, fa)
  | .ics20 _ _ _ fa _ _ _ _ => some (.ics20, 0, fa)
  | _ => none

/-- `CheckedAction::pay_fees_and_execute`: pay the fee, re-run the mutable checks, execute. -/
def feeEffects (s : State) (signer : String) (pos : Nat) (a : Action) : Option (List Effect) :=
  match feeInfo a with
  | some (k, size, fa) => feePlan s k size fa signer pos
  | none => some []

def execAction (s : State) (signer : String) (pos : Nat) (a : Action) : Option State :=
  match feeEffects s signer pos a with
  | none => none
  | some fx =>
    match applyEffects s fx with
    | none => none
    | some s1 =>
      if !mutableOk s1 signer a then none
      else applyEffects s1 (actionEffects s1 signer pos a)

def execActions (s : State) (signer : String) : Nat → List Action → Option State
  | _, [] => some s
  | pos, a :: rest => match execAction s signer pos a with
    | none => none
    | some s' => execActions s' signer (pos + 1) rest

structure Tx where
  signer : String
  nonce : Nat
  actions : List Action
  deriving DecidableEq, Repr

/-- `Action::group` (1 = unbundleable sudo … 4 = bundleable general). -/
def group : Action → Nat
  | .sudoChange _ | .ibcSudoChange _ => 1
  | .relayerAdd _ | .relayerDel _ | .feeChange _ _ _ | .feeAssetAdd _ | .feeAssetDel _
  | .pairsAdd _ | .pairsDel _ | .marketsChange _ _ => 2
  | .initBridge _ _ _ _ _ | .bridgeSudo _ _ _ _ _ => 3
  | _ => 4

/-- `Actions::try_from_list_of_actions`: non-empty, one group, only bundleable groups may hold
    more than one action. -/
def groupsOk : List Action → Bool
  | [] => false
  | a :: rest =>
    (rest.isEmpty || group a = 2 || group a = 4) && rest.all fun b => group b = group a

/-- `CheckedTransaction::new`: well-formed body, nonce not already used, every action's
    construction checks. -/
def construct (s : State) (tx : Tx) : Bool :=
  groupsOk tx.actions && tx.nonce ≥ getN s.nonce tx.signer &&
  tx.actions.all fun a => immutableOk s a && mutableOk s tx.signer a

/-- `App::execute_transaction` = `CheckedTransaction::execute` inside its own delta: on any
    error the state is the one before the transaction. -/
def execTx (s : State) (tx : Tx) : Except Err State :=
  let cur := getN s.nonce tx.signer
  if cur ≠ tx.nonce then .error .nonce
  else if cur + 1 > U32_MAX then .error .nonceOverflow
  else
    let s1 := { s with nonce := setN s.nonce tx.signer (cur + 1) }
    match execActions s1 tx.signer 0 tx.actions with
    | none => .error .exec
    | some s' => .ok s'

/-! ## ICS20 packet handlers -/

inductive Memo where
  | empty | deposit | depositEmpty | fromRollup | bad
  deriving DecidableEq, Repr

structure RecvPacket where
  dstChan : Nat
  srcChan : Nat
  denom : String
  amount : Nat
  receiver : Option String      -- none = unparsable address
  memo : Memo
  deriving DecidableEq, Repr

def depositDestLen : Nat := 11   -- "rollup-dest"
def refundDestLen : Nat := 13    -- "rollup-return"

/-- The asset as it is known on the sequencer: an asset coming home loses the counterparty's
    (port, channel) prefix, a foreign asset gains the receiving channel's. -/
def recvAsset (p : RecvPacket) : String :=
  if hasLeading p.denom p.srcChan then (p.denom.drop (chanPrefix p.srcChan).length).toString
  else chanPrefix p.dstChan ++ p.denom

/-- `emit_bridge_lock_deposit` for a bridge-account recipient (`some []` for a plain account). -/
def recvDeposit (s : State) (rcpt asset : String) (p : RecvPacket) : Option (List Effect) :=
  match lookup s.bridges rcpt with
  | none => some []
  | some b =>
    if b.disabled then none
    else if p.memo ≠ .deposit then none
    else if b.asset ≠ asset then none
    else some [.deposit ⟨rcpt, b.rollup, asset, p.amount, depositDestLen, 0⟩]

/-- Release from escrow (asset coming home) or register the new denomination, then credit. -/
def recvMoves (p : RecvPacket) (rcpt asset : String) : List Effect :=
  (if hasLeading p.denom p.srcChan then [.escSub p.dstChan asset p.amount] else [.registerAsset asset]) ++
  [.credit rcpt asset p.amount]

/-- The effect list of `receive_tokens`, in the order of the Rust code; `none` = an error
    before anything was written. -/
def recvPlan (s : State) (p : RecvPacket) : Option (List Effect) :=
  match p.receiver with
  | none => none
  | some rcpt =>
    if s.postBlackburn && recvAsset p ∉ s.feeAssets then none
    else match recvDeposit s rcpt (recvAsset p) p with
      | none => none
      | some depFx => some (depFx ++ recvMoves p rcpt (recvAsset p))

/-- `recv_packet_execute` (as repaired): `receive_tokens` runs in a nested delta which is
    applied only on success; the error is turned into an error acknowledgement. Returns
    (acknowledged successfully?, state). -/
def recvPacket (s : State) (p : RecvPacket) : Bool × State :=
  match recvPlan s p with
  | none => (false, s)
  | some fx => match applyEffects s fx with
    | none => (false, s)
    | some s' => (true, s')

/-- As in the pinned source: no nested delta — the effects before the failing one survive
    (DESIGN §7 F6). -/
def applyEffectsPartial (s : State) : List Effect → Bool × State
  | [] => (true, s)
  | e :: rest => match applyEffect s e with
    | none => (false, s)
    | some s' => applyEffectsPartial s' rest

def recvPacketOriginal (s : State) (p : RecvPacket) : Bool × State :=
  match recvPlan s p with
  | none => (false, s)
  | some fx => applyEffectsPartial s fx

structure RefundPacket where
  srcChan : Nat
  denom : String
  amount : Nat
  sender : Option String
  memo : Memo
  deriving DecidableEq, Repr

/-- `emit_deposit` for a refund of a withdrawal that came from a rollup. -/
def refundDeposit (s : State) (rcpt : String) (p : RefundPacket) : Option (List Effect) :=
  if p.memo = .fromRollup then
    match lookup s.bridges rcpt with
    | none => none
    | some b => if b.asset ≠ p.denom then none
                else some [.deposit ⟨rcpt, b.rollup, p.denom, p.amount, refundDestLen, 0⟩]
  else some []

def refundMoves (p : RefundPacket) (rcpt : String) : List Effect :=
  (if !hasLeading p.denom p.srcChan then [.escSub p.srcChan p.denom p.amount] else []) ++
  [.credit rcpt p.denom p.amount]

/-- `refund_tokens` (timeout, or acknowledgement carrying an error). -/
def refundPlan (s : State) (p : RefundPacket) : Option (List Effect) :=
  match p.sender with
  | none => none
  | some rcpt =>
    match refundDeposit s rcpt p with
    | none => none
    | some depFx => some (depFx ++ refundMoves p rcpt)

/-- `timeout_packet_execute` / `acknowledge_packet_execute` with a failed acknowledgement: an
    error fails the surrounding action, whose delta is dropped. -/
def refundPacket (s : State) (p : RefundPacket) : Except Err State :=
  match refundPlan s p with
  | none => .error .exec
  | some fx => match applyEffects s fx with
    | none => .error .exec
    | some s' => .ok s'

/-! ## upgrades -/

/-- The Aspen upgrade as far as the modelled state is concerned
    (`AuthorityComponent::handle_aspen_upgrade` + the price-feed genesis): the validator set moves
    from one stored collection to per-validator entries plus a count, and the oracle's genesis
    currency pairs and markets appear. The set itself is unchanged. -/
def aspenUpgrade (s : State) (pairs : List (String × Nat)) (markets : List (String × Nat)) : State :=
  { s with postAspen := true, valCount := s.vals.length,
           -- the oracle genesis writes each genesis pair's entry and then the two counters; pairs
           -- that a pre-Aspen CurrencyPairsChange already stored are left in place
           pairs := pairs.foldl (fun acc p => insert acc p.1 p.2) s.pairs,
           numPairs := pairs.length, nextPairId := pairs.length, markets := some markets }

/-- The Blackburn upgrade: ICS20 receives are restricted to fee assets and bridge deposits can be
    disabled. -/
def blackburnUpgrade (s : State) : State := { s with postBlackburn := true }

/-! ## end of block -/

def payFees (s : State) : List (String × Nat) → Option State
  | [] => some s
  | (a, n) :: rest => match applyEffect s (.credit s.sudo a n) with
    | none => none
    | some s' => payFees s' rest

def applyValUpdates (vals : List (String × Nat)) : List (String × Nat) → List (String × Nat)
  | [] => vals
  | (k, p) :: rest => applyValUpdates (if p = 0 then erase vals k else insert vals k p) rest

/-- pre-Aspen: `AuthorityComponent::end_block` applies the block's updates to the stored set. -/
def authorityEndBlock (s : State) : State :=
  if s.postAspen then s else { s with vals := applyValUpdates s.vals s.valUpdates }

/-- `App::end_block` followed by commit. Returns the validator updates handed to CometBFT and
    whether `end_block` succeeded; the ephemeral per-block data is cleared by the commit. -/
def endBlock (s : State) : Bool × List (String × Nat) × State :=
  let updates := s.valUpdates
  let s2 := { authorityEndBlock s with valUpdates := [] }
  match payFees s2 s2.blockFees with
  | some s3 => (true, updates, { s3 with blockFees := [], deposits := [] })
  | none => (false, [], { s with blockFees := [], deposits := [] })

end Astria.Ledger
