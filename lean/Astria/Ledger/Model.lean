/- Model for area `ledger` (stub). -/
namespace Astria.Ledger

end Astria.Ledger
