import Astria.Ledger.Model
/-
  C14: the validator set CometBFT holds (genesis set folded with every update batch the
  application returned) and the set the application stores.
-/
namespace Astria.Ledger

/-! ## lookup / insert / erase -/

theorem lookup_erase_same {κ α : Type} [DecidableEq κ] (m : List (κ × α)) (k : κ) :
    lookup (erase m k) k = none := by
  induction m with
  | nil => rfl
  | cons e rest ih =>
    simp only [erase]
    by_cases h : e.1 = k
    · simp [h, ih]
    · simp [h, lookup, ih]

theorem lookup_erase_other {κ α : Type} [DecidableEq κ] (m : List (κ × α)) (k k' : κ) (h : k' ≠ k) :
    lookup (erase m k) k' = lookup m k' := by
  induction m with
  | nil => rfl
  | cons e rest ih =>
    simp only [erase]
    by_cases he : e.1 = k
    · have : ¬ (e.1 = k') := by rw [he]; exact fun h' => h h'.symm
      simp [he, lookup, ih]
      intro h'; exact absurd h'.symm h
    · simp only [he, if_false, lookup, ih]

theorem lookup_insert_same {κ α : Type} [DecidableEq κ] (m : List (κ × α)) (k : κ) (v : α) :
    lookup (insert m k v) k = some v := by
  simp [insert, lookup]

theorem lookup_insert_other {κ α : Type} [DecidableEq κ] (m : List (κ × α)) (k k' : κ) (v : α)
    (h : k' ≠ k) : lookup (insert m k v) k' = lookup m k' := by
  have hk : ¬ (k = k') := fun h' => h h'.symm
  simp [insert, lookup, hk, lookup_erase_other m k k' h]

/-! ## what one update does to a set, as a map -/

/-- One update applied the way CometBFT (and the pre-Aspen `ValidatorSet::apply_updates`) does:
    power 0 removes, any other power inserts/overwrites. -/
def applyOne (vals : List (String × Nat)) (k : String) (p : Nat) : List (String × Nat) :=
  if p = 0 then erase vals k else insert vals k p

theorem lookup_applyOne (vals : List (String × Nat)) (k : String) (p : Nat) (k' : String) :
    lookup (applyOne vals k p) k' =
      if k' = k then (if p = 0 then none else some p) else lookup vals k' := by
  unfold applyOne
  by_cases hk : k' = k
  · subst hk
    by_cases hp : p = 0
    · simp [hp, lookup_erase_same]
    · simp [hp, lookup_insert_same]
  · by_cases hp : p = 0
    · simp [hp, hk, lookup_erase_other _ _ _ hk]
    · simp [hp, hk, lookup_insert_other _ _ _ _ hk]

theorem applyValUpdates_cons (vals : List (String × Nat)) (k : String) (p : Nat) (rest : List (String × Nat)) :
    applyValUpdates vals ((k, p) :: rest) = applyValUpdates (applyOne vals k p) rest := by
  simp [applyValUpdates, applyOne]

theorem lookup_none_of_not_mem {κ α : Type} [DecidableEq κ] (m : List (κ × α)) (k : κ)
    (h : k ∉ m.map (·.1)) : lookup m k = none := by
  induction m with
  | nil => rfl
  | cons e rest ih =>
    simp only [List.map_cons, List.mem_cons, not_or] at h
    have : ¬ (e.1 = k) := fun h' => h.1 h'.symm
    simp only [lookup, this, if_false]
    exact ih h.2

/-- Result of applying a batch whose keys are pairwise distinct: a key of the batch gets the
    batch's verdict, every other key keeps its entry. -/
theorem lookup_applyValUpdates (ups : List (String × Nat)) (vals : List (String × Nat)) (k' : String)
    (hnd : (ups.map (·.1)).Nodup) :
    lookup (applyValUpdates vals ups) k' =
      match lookup ups k' with
      | some p => if p = 0 then none else some p
      | none => lookup vals k' := by
  induction ups generalizing vals with
  | nil => simp [applyValUpdates, lookup]
  | cons e rest ih =>
    obtain ⟨k, p⟩ := e
    simp only [List.map_cons, List.nodup_cons] at hnd
    rw [applyValUpdates_cons, ih _ hnd.2]
    simp only [lookup]
    by_cases hk : k = k'
    · subst hk
      have : lookup rest k = none := lookup_none_of_not_mem rest k hnd.1
      simp [this, lookup_applyOne]
    · have hk' : ¬ (k' = k) := fun h => hk h.symm
      simp only [hk, if_false]
      cases lookup rest k' with
      | some p' => rfl
      | none => simp [lookup_applyOne, hk']

/-! ## the block's update set vs. the stored set (post-Aspen) -/

/-- The relation maintained inside a block, post-Aspen: the stored set `vals` equals, as a map,
    CometBFT's set `comet` (the set at the start of the block) overridden by the block's update
    map `ups`. -/
def Mirror (comet ups vals : List (String × Nat)) : Prop :=
  ∀ k, lookup vals k = match lookup ups k with
    | some p => if p = 0 then none else some p
    | none => lookup comet k

theorem mirror_start (comet : List (String × Nat)) : Mirror comet [] comet := by
  intro k; simp [lookup]

/-- One executed `ValidatorUpdate` (post-Aspen) preserves the mirror relation — for every key,
    every power, whether or not the key existed, was touched before in this block, etc. -/
theorem mirror_step (comet : List (String × Nat)) (s s' : State) (key : String) (power : Nat)
    (hpost : s.postAspen = true) (hm : Mirror comet s.valUpdates s.vals)
    (h : applyEffect s (.valUpdate key power) = some s') :
    Mirror comet s'.valUpdates s'.vals := by
  simp only [applyEffect, hpost, Bool.not_true, Bool.false_eq_true, if_false] at h
  intro k
  have hk := hm k
  by_cases hp : power = 0
  · simp only [hp, if_true] at h
    injection h with h; subst h
    simp only
    by_cases hkk : k = key
    · subst hkk; simp [lookup_erase_same, lookup_insert_same]
    · rw [lookup_erase_other _ _ _ hkk, lookup_insert_other _ _ _ _ hkk]; exact hk
  · simp only [hp, if_false] at h
    have key_case : ∀ (vals ups : List (String × Nat)),
        lookup vals k = (match lookup ups k with
          | some p => if p = 0 then none else some p
          | none => lookup comet k) →
        lookup (insert vals key power) k = (match lookup (insert ups key power) k with
          | some p => if p = 0 then none else some p
          | none => lookup comet k) := by
      intro vals ups hv
      by_cases hkk : k = key
      · subst hkk; simp [lookup_insert_same, hp]
      · rw [lookup_insert_other _ _ _ _ hkk, lookup_insert_other _ _ _ _ hkk]; exact hv
    split at h
    · injection h with h; subst h; exact key_case _ _ hk
    · injection h with h; subst h; exact key_case _ _ hk

/-- Keys of the block's update map stay pairwise distinct. -/
theorem keys_nodup_insert (m : List (String × Nat)) (k : String) (v : Nat)
    (h : (m.map (·.1)).Nodup) : ((insert m k v).map (·.1)).Nodup := by
  have herase : ∀ (m : List (String × Nat)), (m.map (·.1)).Nodup →
      ((erase m k).map (·.1)).Nodup ∧ k ∉ (erase m k).map (·.1) ∧
      ∀ x, x ∈ (erase m k).map (·.1) → x ∈ m.map (·.1) := by
    intro m
    induction m with
    | nil => intro _; simp [erase]
    | cons e rest ih =>
      intro hnd
      simp only [List.map_cons, List.nodup_cons] at hnd
      obtain ⟨i1, i2, i3⟩ := ih hnd.2
      simp only [erase]
      by_cases he : e.1 = k
      · simp only [he, if_true]
        exact ⟨i1, i2, fun x hx => List.mem_cons_of_mem _ (i3 x hx)⟩
      · simp only [he, if_false, List.map_cons, List.nodup_cons, List.mem_cons, not_or]
        refine ⟨⟨fun hin => hnd.1 (i3 _ hin), i1⟩, ⟨fun h' => he h'.symm, i2⟩, ?_⟩
        intro x hx
        rcases hx with hx | hx
        · exact Or.inl hx
        · exact Or.inr (i3 x hx)
  obtain ⟨i1, i2, _⟩ := herase m h
  simp only [insert, List.map_cons, List.nodup_cons]
  exact ⟨i2, i1⟩

/-- C14 (mirror): applying the update batch returned at the end of a block to CometBFT's set
    yields, as a map, exactly the set the application stores — for every sequence of validator
    updates executed in the block (post-Aspen storage). -/
theorem mirror_end (comet ups vals : List (String × Nat)) (hnd : (ups.map (·.1)).Nodup)
    (hm : Mirror comet ups vals) : ∀ k, lookup (applyValUpdates comet ups) k = lookup vals k := by
  intro k
  rw [lookup_applyValUpdates ups comet k hnd, hm k]

theorem valUpdate_fields (s s' : State) (key : String) (power : Nat)
    (h : applyEffect s (.valUpdate key power) = some s') :
    s'.postAspen = s.postAspen ∧ s'.valUpdates = insert s.valUpdates key power := by
  simp only [applyEffect] at h
  split at h
  · injection h with h; subst h; exact ⟨rfl, rfl⟩
  · split at h
    · injection h with h; subst h; exact ⟨rfl, rfl⟩
    · split at h <;> (injection h with h; subst h; exact ⟨rfl, rfl⟩)

/-- C14 (mirror, whole block): from the start of a block (empty update map, CometBFT's set equal
    to the stored one) through ANY sequence of executed validator updates — several per block,
    repeated keys, add-then-remove, remove-then-add, power changes — the batch returned at the end
    of the block, applied as a map to CometBFT's set, gives exactly the stored set. -/
theorem mirror_block (comet : List (String × Nat)) (ups : List (String × Nat)) (s s' : State)
    (hpost : s.postAspen = true) (hm : Mirror comet s.valUpdates s.vals)
    (hnd : (s.valUpdates.map (·.1)).Nodup)
    (h : applyEffects s (ups.map fun e => Effect.valUpdate e.1 e.2) = some s') :
    (∀ k, lookup (applyValUpdates comet s'.valUpdates) k = lookup s'.vals k) ∧
    (s'.valUpdates.map (·.1)).Nodup := by
  induction ups generalizing s with
  | nil =>
    simp [applyEffects] at h; subst h
    exact ⟨mirror_end comet _ _ hnd hm, hnd⟩
  | cons e rest ih =>
    simp only [List.map_cons, applyEffects] at h
    cases he : applyEffect s (.valUpdate e.1 e.2) with
    | none => simp [he] at h
    | some s1 =>
      simp only [he] at h
      obtain ⟨f1, f2⟩ := valUpdate_fields s s1 e.1 e.2 he
      exact ih s1 (by rw [f1, hpost]) (mirror_step comet s s1 e.1 e.2 hpost hm he)
        (by rw [f2]; exact keys_nodup_insert _ _ _ hnd) h

/-- The same for the pre-Aspen storage, where the application itself builds the new set by
    `apply_updates` at the end of the block: it is literally the CometBFT computation. -/
theorem mirror_pre_aspen (s : State) (h : s.postAspen = false) :
    (authorityEndBlock s).vals = applyValUpdates s.vals s.valUpdates := by
  simp [authorityEndBlock, h]

/-! ## applicability of the returned batch -/

/-- CometBFT's `UpdateWithChangeSet`, as far as the property needs it: a removal of a validator
    it does not have is an error, and so is a batch that leaves the set empty. -/
def cometApply (set : List (String × Nat)) : List (String × Nat) → Option (List (String × Nat))
  | [] => if set.isEmpty then none else some set
  | (k, p) :: rest =>
    if p = 0 then
      if (lookup set k).isNone then none else cometApply (erase set k) rest
    else cometApply (insert set k p) rest

/-- The full property is false of the unchanged code (DESIGN §7 F7a, open finding): adding a
    fresh key and removing it again within one block returns the batch `{K: 0}`, which CometBFT
    cannot apply. -/
theorem add_then_remove_counterexample :
    let s0 : State := { postAspen := true, postBlackburn := true, sudo := "s", ibcSudo := "i",
                        vals := [("va", 10), ("vb", 10)], valCount := 2 }
    ∃ s1 s2, applyEffect s0 (.valUpdate "v0" 10) = some s1 ∧ applyEffect s1 (.valUpdate "v0" 0) = some s2 ∧
      s2.valUpdates = [("v0", 0)] ∧ cometApply s0.vals s2.valUpdates = none := by
  refine ⟨_, _, rfl, rfl, ?_, ?_⟩ <;> decide

/-- Pre-Aspen (DESIGN §7 F7b, open finding): two removals in one block are both checked against
    the start-of-block set, so a two-validator set can be emptied. -/
theorem double_removal_counterexample :
    let s0 : State := { postAspen := false, postBlackburn := false, sudo := "s", ibcSudo := "i",
                        vals := [("va", 10), ("vb", 10)] }
    mutableOk s0 "s" (.valUpdate "va" 0) = true ∧
    (∃ s1, applyEffect s0 (.valUpdate "va" 0) = some s1 ∧ mutableOk s1 "s" (.valUpdate "vb" 0) = true ∧
      ∃ s2, applyEffect s1 (.valUpdate "vb" 0) = some s2 ∧ (authorityEndBlock s2).vals = []) := by
  refine ⟨by decide, _, rfl, by decide, _, rfl, by decide⟩

/-- Whenever CometBFT accepts a batch, its new set is the batch applied as a map. -/
theorem cometApply_result (ups : List (String × Nat)) (set r : List (String × Nat))
    (h : cometApply set ups = some r) : r = applyValUpdates set ups := by
  induction ups generalizing set with
  | nil =>
    simp only [cometApply] at h
    split at h
    · cases h
    · injection h with h; simp [applyValUpdates, h]
  | cons e rest ih =>
    obtain ⟨k, p⟩ := e
    simp only [cometApply] at h
    rw [applyValUpdates_cons]
    by_cases hp : p = 0
    · simp only [hp, if_true] at h
      split at h
      · cases h
      · simpa [applyOne, hp] using ih (erase set k) h
    · simp only [hp, if_false] at h
      simpa [applyOne, hp] using ih (insert set k p) h

end Astria.Ledger
