import Astria.Ledger.Theorems
/-
  C18: the escrow identity.  For every channel and asset, along every history of transactions,
  received packets, refunds and block ends:
      escrow now + returned so far = escrow at the start + sent so far.
-/
namespace Astria.Ledger

/-- Signed change of the escrow entry `k = (channel, asset)` caused by one primitive effect. -/
def escDelta (k : Nat × String) : Effect → Int
  | .escAdd c a n => if (c, a) = k then (n : Int) else 0
  | .escSub c a n => if (c, a) = k then -(n : Int) else 0
  | _ => 0

def escDeltas (k : Nat × String) (fx : List Effect) : Int := (fx.map (escDelta k)).sum

theorem escDeltas_nil (k : Nat × String) : escDeltas k [] = 0 := rfl
theorem escDeltas_cons (k : Nat × String) (e : Effect) (fx : List Effect) :
    escDeltas k (e :: fx) = escDelta k e + escDeltas k fx := by simp [escDeltas]
theorem escDeltas_append (k : Nat × String) (fx gx : List Effect) :
    escDeltas k (fx ++ gx) = escDeltas k fx + escDeltas k gx := by simp [escDeltas, List.sum_append]

theorem updBridge_esc (s : State) (b : String) (f : BridgeAcct → BridgeAcct) :
    (updBridge s b f).esc = s.esc := by
  unfold updBridge; split <;> rfl

theorem applyEffect_esc (s s' : State) (e : Effect) (k : Nat × String) (h : applyEffect s e = some s') :
    (getN s'.esc k : Int) = getN s.esc k + escDelta k e := by
  cases e <;> simp only [applyEffect] at h
  case escAdd c a n =>
    split at h
    · injection h with h; subst h
      simp only [escDelta]
      by_cases hk : (c, a) = k
      · subst hk; rw [getN_setN_same]; simp
      · have : k ≠ (c, a) := fun h' => hk h'.symm
        rw [getN_setN_other _ _ _ _ this]; simp [hk]
    · cases h
  case escSub c a n =>
    split at h
    · rename_i hle
      injection h with h; subst h
      simp only [escDelta]
      by_cases hk : (c, a) = k
      · subst hk; rw [getN_setN_same]; simp; omega
      · have : k ≠ (c, a) := fun h' => hk h'.symm
        rw [getN_setN_other _ _ _ _ this]; simp [hk]
    · cases h
  all_goals first
    | (cases h; done)
    | (injection h with h; subst h; simp [escDelta, updBridge_esc]; done)
    | (injection h with h; subst h; split <;> simp [escDelta])
    | (split at h
       · injection h with h; subst h; simp [escDelta]
       · cases h)
    | (split at h
       · injection h with h; subst h; simp [escDelta]
       · split at h
         · injection h with h; subst h; simp [escDelta]
         · split at h <;> (injection h with h; subst h; simp [escDelta]))

theorem applyEffects_esc (fx : List Effect) (s s' : State) (k : Nat × String)
    (h : applyEffects s fx = some s') : (getN s'.esc k : Int) = getN s.esc k + escDeltas k fx := by
  induction fx generalizing s with
  | nil => simp [applyEffects] at h; subst h; simp [escDeltas]
  | cons e rest ih =>
    simp only [applyEffects] at h
    cases he : applyEffect s e with
    | none => simp [he] at h
    | some s1 =>
      simp only [he] at h
      have h1 := applyEffect_esc s s1 e k he
      have h2 := ih s1 h
      rw [escDeltas_cons]; omega

/-- What one action sends into escrow `k`: an ICS20 withdrawal of a sequencer-origin asset over
    that channel escrows its amount; nothing else touches escrow. -/
def sentByAction (k : Nat × String) : Action → Nat
  | .ics20 amount denom chan _ _ _ _ _ => if hasLeading denom chan = false ∧ (chan, denom) = k then amount else 0
  | _ => 0

theorem escDeltas_map_addPair (k : Nat × String) (names : List String) :
    escDeltas k (names.map Effect.addPair) = 0 := by
  induction names with
  | nil => rfl
  | cons n rest ih => simp [escDeltas_cons, escDelta, ih]

theorem escDeltas_map_delPair (k : Nat × String) (names : List String) :
    escDeltas k (names.map Effect.delPair) = 0 := by
  induction names with
  | nil => rfl
  | cons n rest ih => simp [escDeltas_cons, escDelta, ih]

theorem actionEffects_escDeltas (s : State) (signer : String) (pos : Nat) (act : Action) (k : Nat × String) :
    escDeltas k (actionEffects s signer pos act) = sentByAction k act := by
  cases act <;> simp only [actionEffects, sentByAction]
  case bridgeSudo bridge ns nw fa dis =>
    simp only [escDeltas_append]
    cases ns <;> cases nw <;> by_cases hb : s.postBlackburn = true <;>
      simp [hb, escDeltas_cons, escDeltas_nil, escDelta]
  case ics20 amount denom chan fa bridge id blk ret =>
    simp only [escDeltas_append]
    have h1 : escDeltas k (wdEffects bridge id blk) = 0 := by
      cases bridge <;> simp [wdEffects, escDeltas_cons, escDeltas_nil, escDelta]
    rw [h1]
    cases hh : hasLeading denom chan <;> by_cases hk : (chan, denom) = k <;>
      simp [hh, hk, escDeltas_cons, escDeltas_nil, escDelta]
  case pairsAdd names => simp [escDeltas_map_addPair]
  case pairsDel names => simp [escDeltas_map_delPair]
  all_goals simp [escDeltas_cons, escDeltas_nil, escDelta]

theorem feeEffects_escDeltas (s : State) (signer : String) (pos : Nat) (act : Action) (fx : List Effect)
    (k : Nat × String) (hf : feeEffects s signer pos act = some fx) : escDeltas k fx = 0 := by
  unfold feeEffects at hf
  cases hi : feeInfo act with
  | none => simp [hi] at hf; subst hf; rfl
  | some t =>
    obtain ⟨kk, size, fa⟩ := t
    simp only [hi] at hf
    obtain ⟨cfg, _, _, _, hfx⟩ := feePlan_exact s kk size fa signer pos fx hf
    subst hfx; simp [escDeltas_cons, escDeltas_nil, escDelta]

theorem execAction_esc (s s' : State) (signer : String) (pos : Nat) (act : Action) (k : Nat × String)
    (h : execAction s signer pos act = some s') :
    getN s'.esc k = getN s.esc k + sentByAction k act := by
  unfold execAction at h
  cases hf : feeEffects s signer pos act with
  | none => simp [hf] at h
  | some fx =>
    simp only [hf] at h
    cases h1 : applyEffects s fx with
    | none => simp [h1] at h
    | some s1 =>
      simp only [h1] at h
      split at h
      · cases h
      · have t1 := applyEffects_esc fx s s1 k h1
        have t2 := applyEffects_esc _ s1 s' k h
        rw [feeEffects_escDeltas s signer pos act fx k hf] at t1
        rw [actionEffects_escDeltas] at t2
        omega

theorem execActions_esc (acts : List Action) (s s' : State) (signer : String) (pos : Nat)
    (k : Nat × String) (h : execActions s signer pos acts = some s') :
    getN s'.esc k = getN s.esc k + (acts.map (sentByAction k)).sum := by
  induction acts generalizing s pos with
  | nil => simp [execActions] at h; subst h; simp
  | cons act rest ih =>
    simp only [execActions] at h
    cases h1 : execAction s signer pos act with
    | none => simp [h1] at h
    | some s1 =>
      simp only [h1] at h
      have t1 := execAction_esc s s1 signer pos act k h1
      have t2 := ih s1 (pos + 1) h
      simp only [List.map_cons, List.sum_cons]; omega

theorem execTx_esc (s s' : State) (tx : Tx) (k : Nat × String) (h : execTx s tx = .ok s') :
    getN s'.esc k = getN s.esc k + (tx.actions.map (sentByAction k)).sum := by
  unfold execTx at h
  simp only at h
  split at h
  · cases h
  · split at h
    · cases h
    · split at h
      · cases h
      · rename_i s1 h1
        injection h with h; subst h
        simpa using execActions_esc tx.actions _ s1 tx.signer 0 k h1

/-- What a received packet releases from escrow `k` when it is acknowledged successfully. -/
def returnedByRecv (k : Nat × String) (p : RecvPacket) : Nat :=
  if hasLeading p.denom p.srcChan = true ∧ (p.dstChan, recvAsset p) = k then p.amount else 0

theorem recvPacket_esc (s s' : State) (p : RecvPacket) (ok : Bool) (k : Nat × String)
    (h : recvPacket s p = (ok, s')) :
    getN s'.esc k + (if ok then returnedByRecv k p else 0) = getN s.esc k := by
  unfold recvPacket at h
  cases hp : recvPlan s p with
  | none => simp [hp] at h; obtain ⟨h1, h2⟩ := h; subst h1 h2; simp
  | some fx =>
    simp only [hp] at h
    cases ha : applyEffects s fx with
    | none => simp [ha] at h; obtain ⟨h1, h2⟩ := h; subst h1 h2; simp
    | some s1 =>
      simp only [ha] at h
      injection h with h1 h2
      subst h1 h2
      have ht := applyEffects_esc fx s s1 k ha
      unfold recvPlan at hp
      cases hr : p.receiver with
      | none => simp [hr] at hp
      | some rcpt =>
        simp only [hr] at hp
        split at hp
        · cases hp
        · cases hd : recvDeposit s rcpt (recvAsset p) p with
          | none => simp [hd] at hp
          | some depFx =>
            simp only [hd] at hp
            injection hp with hp; subst hp
            have hdep : escDeltas k depFx = 0 := by
              unfold recvDeposit at hd
              split at hd
              · injection hd with hd; subst hd; rfl
              · split at hd
                · cases hd
                · split at hd
                  · cases hd
                  · split at hd
                    · cases hd
                    · injection hd with hd; subst hd; simp [escDeltas_cons, escDeltas_nil, escDelta]
            rw [escDeltas_append, hdep] at ht
            unfold recvMoves at ht
            simp only [returnedByRecv, if_true]
            cases hl : hasLeading p.denom p.srcChan <;> by_cases hk : (p.dstChan, recvAsset p) = k <;>
              simp [hl, hk, escDeltas_append, escDeltas_cons, escDeltas_nil, escDelta] at ht ⊢ <;> omega

/-- What a refund releases from escrow `k`. -/
def returnedByRefund (k : Nat × String) (p : RefundPacket) : Nat :=
  if hasLeading p.denom p.srcChan = false ∧ (p.srcChan, p.denom) = k then p.amount else 0

theorem refundPacket_esc (s s' : State) (p : RefundPacket) (k : Nat × String)
    (h : refundPacket s p = .ok s') : getN s'.esc k + returnedByRefund k p = getN s.esc k := by
  unfold refundPacket at h
  cases hp : refundPlan s p with
  | none => simp [hp] at h
  | some fx =>
    simp only [hp] at h
    cases ha : applyEffects s fx with
    | none => simp [ha] at h
    | some s1 =>
      simp only [ha] at h
      injection h with h; subst h
      have ht := applyEffects_esc fx s s1 k ha
      unfold refundPlan at hp
      cases hr : p.sender with
      | none => simp [hr] at hp
      | some rcpt =>
        simp only [hr] at hp
        cases hd : refundDeposit s rcpt p with
        | none => simp [hd] at hp
        | some depFx =>
          simp only [hd] at hp
          injection hp with hp; subst hp
          have hdep : escDeltas k depFx = 0 := by
            unfold refundDeposit at hd
            split at hd
            · split at hd
              · cases hd
              · split at hd
                · cases hd
                · injection hd with hd; subst hd; simp [escDeltas_cons, escDeltas_nil, escDelta]
            · injection hd with hd; subst hd; rfl
          rw [escDeltas_append, hdep] at ht
          unfold refundMoves at ht
          simp only [returnedByRefund]
          cases hl : hasLeading p.denom p.srcChan <;> by_cases hk : (p.srcChan, p.denom) = k <;>
            simp [hl, hk, escDeltas_append, escDeltas_cons, escDeltas_nil, escDelta] at ht ⊢ <;> omega

theorem endBlock_esc (s : State) (k : Nat × String) : getN (endBlock s).2.2.esc k = getN s.esc k := by
  unfold endBlock
  simp only
  obtain ⟨_, f2, _, _, _⟩ := authorityEndBlock_fields s
  split
  · rename_i s3 hp
    obtain ⟨_, i2, _⟩ := payFees_spec _ _ s3 hp
    simp only [i2, f2]
  · rfl

/-! ## histories -/

inductive Op where
  | tx (t : Tx)
  | recv (p : RecvPacket)
  | refund (p : RefundPacket)
  | endBlock

/-- One operation of the chain's history; failed transactions / refunds leave the state. -/
def stepOp (s : State) : Op → State
  | .tx t => stepTx s t
  | .recv p => (recvPacket s p).2
  | .refund p => match refundPacket s p with | .ok s' => s' | .error _ => s
  | .endBlock => (endBlock s).2.2

/-- Amount sent into escrow `k` by one operation (0 unless it succeeded). -/
def sentBy (k : Nat × String) (s : State) : Op → Nat
  | .tx t => if (execTx s t).toBool then (t.actions.map (sentByAction k)).sum else 0
  | _ => 0

/-- Amount released from escrow `k` by one operation (0 unless it succeeded). -/
def returnedBy (k : Nat × String) (s : State) : Op → Nat
  | .recv p => if (recvPacket s p).1 then returnedByRecv k p else 0
  | .refund p => if (refundPacket s p).toBool then returnedByRefund k p else 0
  | _ => 0

def run (s : State) : List Op → State
  | [] => s
  | op :: rest => run (stepOp s op) rest

def totalSent (k : Nat × String) : State → List Op → Nat
  | _, [] => 0
  | s, op :: rest => sentBy k s op + totalSent k (stepOp s op) rest

def totalReturned (k : Nat × String) : State → List Op → Nat
  | _, [] => 0
  | s, op :: rest => returnedBy k s op + totalReturned k (stepOp s op) rest

theorem stepOp_esc (s : State) (op : Op) (k : Nat × String) :
    getN (stepOp s op).esc k + returnedBy k s op = getN s.esc k + sentBy k s op := by
  cases op with
  | tx t =>
    simp only [stepOp, stepTx, returnedBy, sentBy]
    cases h : execTx s t with
    | error e => simp [Except.toBool]
    | ok s' => simp [Except.toBool, execTx_esc s s' t k h]
  | recv p =>
    simp only [stepOp, returnedBy, sentBy]
    have := recvPacket_esc s (recvPacket s p).2 p (recvPacket s p).1 k rfl
    omega
  | refund p =>
    simp only [stepOp, returnedBy, sentBy]
    cases h : refundPacket s p with
    | error e => simp [Except.toBool]
    | ok s' =>
      have := refundPacket_esc s s' p k h
      simp [Except.toBool]; omega
  | endBlock => simp [stepOp, returnedBy, sentBy, endBlock_esc]

/-- C18 (escrow identity): for every channel and asset, along EVERY history of transactions
    (valid or failing), received packets (acknowledged or rejected), refunds and block ends, from
    any state: the escrow balance plus everything returned or refunded over that channel equals the
    initial escrow plus everything sent out over it.  In particular what is released never exceeds
    what was escrowed. -/
theorem escrow_identity (k : Nat × String) (ops : List Op) (s : State) :
    getN (run s ops).esc k + totalReturned k s ops = getN s.esc k + totalSent k s ops := by
  induction ops generalizing s with
  | nil => simp [run, totalReturned, totalSent]
  | cons op rest ih =>
    simp only [run, totalReturned, totalSent]
    have h1 := stepOp_esc s op k
    have h2 := ih (stepOp s op)
    omega

end Astria.Ledger
