import Astria.Ledger.Theorems
import Astria.Ledger.Validators
/-
  C04: deposits are backed by an equal credit of the bridge account in the bridge's asset;
  a rollup withdrawal event id is honoured at most once per bridge account.
-/
namespace Astria.Ledger

/-! ## deposits -/

/-- Every `Deposit` an action emits sits in the same effect list (hence the same transaction
    delta) as an equal credit of the named bridge account, and names the bridge's rollup. -/
theorem action_deposit_backed (s : State) (signer : String) (pos : Nat) (act : Action) (d : Deposit)
    (h : Effect.deposit d ∈ actionEffects s signer pos act) :
    Effect.credit d.bridge d.asset d.amount ∈ actionEffects s signer pos act ∧
    d.rollup = bridgeRollup s d.bridge := by
  cases act <;> simp only [actionEffects, List.mem_cons, List.mem_append, List.not_mem_nil] at h ⊢
  case lock to asset amount fa dl =>
    have hd : d = ⟨to, bridgeRollup s to, asset, amount, dl, pos⟩ := by simpa using h
    subst hd; exact ⟨by simp, rfl⟩
  case bridgeTransfer to bridge amount fa id blk dl =>
    have hd : d = ⟨to, bridgeRollup s to, bridgeAsset s bridge, amount, dl, pos⟩ := by simpa using h
    subst hd; exact ⟨by simp, rfl⟩
  case bridgeSudo bridge ns nw fa dis =>
    exfalso
    rcases h with (h | h) | h
    · cases ns <;> simp at h
    · cases nw <;> simp at h
    · split at h <;> simp at h
  case ics20 amount denom chan fa bridge id blk ret =>
    exfalso
    rcases h with (h | h) | h
    · cases bridge <;> simp [wdEffects] at h
    · simp at h
    · split at h <;> simp at h
  all_goals (exfalso; simp at h)

/-- With the construction-time checks of the action, the deposit's asset is the bridge account's
    configured asset. -/
theorem action_deposit_asset (s : State) (signer : String) (pos : Nat) (act : Action) (d : Deposit)
    (hi : immutableOk s act = true) (h : Effect.deposit d ∈ actionEffects s signer pos act) :
    d.asset = bridgeAsset s d.bridge := by
  cases act <;> simp only [actionEffects, List.mem_cons, List.mem_append, List.not_mem_nil] at h
  case lock to asset amount fa dl =>
    have hd : d = ⟨to, bridgeRollup s to, asset, amount, dl, pos⟩ := by simpa using h
    subst hd
    simp only [immutableOk] at hi
    show asset = bridgeAsset s to
    split at hi
    · rename_i b hb; have hb2 : bridgeAsset s to = b.asset := by simp [bridgeAsset, hb]
      rw [hb2]; exact (by simpa using hi : b.asset = asset).symm
    · cases hi
  case bridgeTransfer to bridge amount fa id blk dl =>
    have hd : d = ⟨to, bridgeRollup s to, bridgeAsset s bridge, amount, dl, pos⟩ := by simpa using h
    subst hd
    simp only [immutableOk, Bool.and_eq_true] at hi
    show bridgeAsset s bridge = bridgeAsset s to
    obtain ⟨_, hi⟩ := hi
    split at hi
    · rename_i b t hb ht
      have h1 : bridgeAsset s bridge = b.asset := by simp [bridgeAsset, hb]
      have h2 : bridgeAsset s to = t.asset := by simp [bridgeAsset, ht]
      rw [h1, h2]; exact (by simpa using hi : t.asset = b.asset).symm
    · cases hi
  case bridgeSudo bridge ns nw fa dis =>
    exfalso
    rcases h with (h | h) | h
    · cases ns <;> simp at h
    · cases nw <;> simp at h
    · split at h <;> simp at h
  case ics20 amount denom chan fa bridge id blk ret =>
    exfalso
    rcases h with (h | h) | h
    · cases bridge <;> simp [wdEffects] at h
    · simp at h
    · split at h <;> simp at h
  all_goals (exfalso; simp at h)

/-- A refund (timeout / error acknowledgement) emits a deposit only for a withdrawal that came
    from a rollup, only to a bridge account, in that bridge's asset and rollup, for exactly the
    refunded amount and together with the equal credit. -/
theorem refund_deposit_backed (s : State) (p : RefundPacket) (fx : List Effect) (d : Deposit)
    (hp : refundPlan s p = some fx) (h : Effect.deposit d ∈ fx) :
    Effect.credit d.bridge d.asset d.amount ∈ fx ∧ p.memo = .fromRollup ∧
    ∃ b, lookup s.bridges d.bridge = some b ∧ b.asset = d.asset ∧ b.rollup = d.rollup ∧
      d.amount = p.amount := by
  unfold refundPlan at hp
  cases hs : p.sender with
  | none => simp [hs] at hp
  | some rcpt =>
    simp only [hs] at hp
    cases hd : refundDeposit s rcpt p with
    | none => simp [hd] at hp
    | some depFx =>
      simp only [hd] at hp
      injection hp with hp; subst hp
      simp only [List.mem_append] at h
      rcases h with h | h
      · unfold refundDeposit at hd
        split at hd
        · rename_i hm
          split at hd
          · cases hd
          · rename_i b hb
            split at hd
            · cases hd
            · rename_i hasset
              injection hd with hd; subst hd
              simp only [List.mem_singleton] at h
              injection h with h; subst h
              refine ⟨?_, hm, b, hb, by simpa using hasset, rfl, rfl⟩
              simp [refundMoves]
        · injection hd with hd; subst hd; simp at h
      · exfalso
        unfold refundMoves at h
        simp only [List.mem_append, List.mem_singleton] at h
        rcases h with h | h
        · split at h <;> simp at h
        · cases h

/-- A received packet emits a deposit only for a bridge-account recipient, in that bridge's
    asset and rollup, for exactly the packet's amount, together with the equal credit. -/
theorem recv_deposit_backed (s : State) (p : RecvPacket) (fx : List Effect) (d : Deposit)
    (hp : recvPlan s p = some fx) (h : Effect.deposit d ∈ fx) :
    Effect.credit d.bridge d.asset d.amount ∈ fx ∧
    ∃ b, lookup s.bridges d.bridge = some b ∧ b.asset = d.asset ∧ b.rollup = d.rollup ∧
      b.disabled = false ∧ d.amount = p.amount := by
  unfold recvPlan at hp
  cases hr : p.receiver with
  | none => simp [hr] at hp
  | some rcpt =>
    simp only [hr] at hp
    split at hp
    · cases hp
    · cases hd : recvDeposit s rcpt (recvAsset p) p with
      | none => simp [hd] at hp
      | some depFx =>
        simp only [hd] at hp
        injection hp with hp; subst hp
        simp only [List.mem_append] at h
        rcases h with h | h
        · unfold recvDeposit at hd
          split at hd
          · injection hd with hd; subst hd; simp at h
          · rename_i b hb
            split at hd
            · cases hd
            · rename_i hdis
              split at hd
              · cases hd
              · split at hd
                · cases hd
                · rename_i hasset
                  injection hd with hd; subst hd
                  simp only [List.mem_singleton] at h
                  injection h with h; subst h
                  refine ⟨?_, b, hb, by simpa using hasset, rfl, by simpa using hdis, rfl⟩
                  simp [recvMoves]
        · exfalso
          unfold recvMoves at h
          simp only [List.mem_append, List.mem_singleton] at h
          rcases h with h | h
          · split at h <;> simp at h
          · cases h

/-- An error-acknowledged packet publishes no deposit (C04 "no Deposit on behalf of a packet that
    did not take effect"): the state, hence the deposit cache and the event log, is unchanged. -/
theorem recv_failed_no_deposit (s : State) (p : RecvPacket) (h : (recvPacket s p).1 = false) :
    (recvPacket s p).2.deposits = s.deposits ∧ (recvPacket s p).2.events = s.events := by
  rw [recvPacket_all_or_nothing s p h]; exact ⟨rfl, rfl⟩

/-! ## withdrawal events -/

/-- The (bridge, event id) an action honours, if any. -/
def carrier : Action → Option (String × String)
  | .unlock _ bridge _ _ id _ => some (bridge, id)
  | .bridgeTransfer _ bridge _ _ id _ _ => some (bridge, id)
  | .ics20 _ _ _ _ (some bridge) id _ _ => some (bridge, id)
  | _ => none

theorem lookup_setN_same {κ : Type} [DecidableEq κ] (m : List (κ × Nat)) (k : κ) (v : Nat) :
    lookup (setN m k v) k = some v := by simp [setN, lookup]

theorem lookup_setN_other {κ : Type} [DecidableEq κ] (m : List (κ × Nat)) (k k' : κ) (v : Nat)
    (h : k' ≠ k) : lookup (setN m k v) k' = lookup m k' := by
  have hk : ¬ (k = k') := fun h' => h h'.symm
  simp [setN, lookup, hk, lookup_erase_other m k k' h]

/-- Recorded withdrawal events are never forgotten by any effect. -/
theorem applyEffect_wd_mono (s s' : State) (e : Effect) (k : String × String)
    (h : applyEffect s e = some s') (hk : (lookup s.wd k).isSome) : (lookup s'.wd k).isSome := by
  cases e <;> simp only [applyEffect] at h
  case recordWd b id blk =>
    injection h with h; subst h
    simp only
    by_cases hkk : k = (b, id)
    · subst hkk; simp [lookup_setN_same]
    · rw [lookup_setN_other _ _ _ _ hkk]; exact hk
  all_goals first
    | (cases h; done)
    | (injection h with h; subst h; first | exact hk | (unfold updBridge; split <;> exact hk) | (split <;> exact hk))
    | (split at h
       · injection h with h; subst h; exact hk
       · cases h)
    | (split at h
       · injection h with h; subst h; exact hk
       · split at h
         · injection h with h; subst h; exact hk
         · split at h <;> (injection h with h; subst h; exact hk))

theorem applyEffects_wd_mono (fx : List Effect) (s s' : State) (k : String × String)
    (h : applyEffects s fx = some s') (hk : (lookup s.wd k).isSome) : (lookup s'.wd k).isSome := by
  induction fx generalizing s with
  | nil => simp [applyEffects] at h; subst h; exact hk
  | cons e rest ih =>
    simp only [applyEffects] at h
    cases he : applyEffect s e with
    | none => simp [he] at h
    | some s1 =>
      simp only [he] at h
      exact ih s1 h (applyEffect_wd_mono s s1 e k he hk)

/-- An action that carries a withdrawal event id passes its mutable checks only if that id has
    not been recorded for that bridge account — whichever of the three action kinds carries it. -/
theorem carrier_requires_fresh (s : State) (signer : String) (act : Action) (k : String × String)
    (hc : carrier act = some k) (hm : mutableOk s signer act = true) : lookup s.wd k = none := by
  cases act <;> simp only [carrier] at hc
  case unlock to bridge amount fa id blk =>
    injection hc with hc; subst hc
    simp only [mutableOk, Bool.and_eq_true] at hm
    obtain ⟨_, hm⟩ := hm
    split at hm
    · exact (by simpa using hm : _ ∧ lookup s.wd (bridge, id) = none).2
    · cases hm
  case bridgeTransfer to bridge amount fa id blk dl =>
    injection hc with hc; subst hc
    simp only [mutableOk, Bool.and_eq_true] at hm
    obtain ⟨hm, _⟩ := hm
    split at hm
    · exact (by simpa using hm : _ ∧ lookup s.wd (bridge, id) = none).2
    · cases hm
  case ics20 amount denom chan fa bridge id blk ret =>
    cases bridge with
    | none => simp at hc
    | some bb =>
      simp only at hc
      injection hc with hc; subst hc
      simp only [mutableOk] at hm
      split at hm
      · have := (Bool.and_eq_true _ _ ▸ hm : _ ∧ _).2
        simpa using this
      · cases hm
  all_goals cases hc

/-- …and its execution records that id. -/
theorem carrier_records (s : State) (signer : String) (pos : Nat) (act : Action) (b id : String)
    (hc : carrier act = some (b, id)) :
    ∃ blk, Effect.recordWd b id blk ∈ actionEffects s signer pos act := by
  cases act <;> simp only [carrier] at hc
  case unlock to bridge amount fa id' blk =>
    injection hc with hc; injection hc with h1 h2; subst h1 h2
    exact ⟨blk, by simp [actionEffects]⟩
  case bridgeTransfer to bridge amount fa id' blk dl =>
    injection hc with hc; injection hc with h1 h2; subst h1 h2
    exact ⟨blk, by simp [actionEffects]⟩
  case ics20 amount denom chan fa bridge id' blk ret =>
    cases bridge with
    | none => simp at hc
    | some bb =>
      simp only at hc
      injection hc with hc; injection hc with h1 h2; subst h1 h2
      exact ⟨blk, by simp [actionEffects, wdEffects]⟩
  all_goals cases hc

/-- Once an effect list containing `recordWd b id _` has been applied, the id is recorded. -/
theorem applyEffects_records (fx : List Effect) (s s' : State) (b id : String) (blk : Nat)
    (hin : Effect.recordWd b id blk ∈ fx) (h : applyEffects s fx = some s') :
    (lookup s'.wd (b, id)).isSome := by
  induction fx generalizing s with
  | nil => simp at hin
  | cons e rest ih =>
    simp only [applyEffects] at h
    cases he : applyEffect s e with
    | none => simp [he] at h
    | some s1 =>
      simp only [he] at h
      rcases List.mem_cons.mp hin with heq | hrest
      · subst heq
        simp only [applyEffect] at he
        injection he with he; subst he
        exact applyEffects_wd_mono rest _ s' (b, id) h (by simp [lookup_setN_same])
      · exact ih s1 hrest h

/-- C04 (withdrawals once), per action: a carrier executes only on a state where its
    (bridge, id) is unrecorded, and leaves it recorded; by `applyEffect_wd_mono` nothing ever
    un-records it, so no later action — of any of the three kinds, in any block — can carry the
    same id for that bridge account again. -/
theorem execAction_carrier (s s' : State) (signer : String) (pos : Nat) (act : Action)
    (b id : String) (hc : carrier act = some (b, id)) (h : execAction s signer pos act = some s') :
    (lookup s'.wd (b, id)).isSome ∧
    ∃ s1, mutableOk s1 signer act = true ∧ lookup s1.wd (b, id) = none := by
  unfold execAction at h
  cases hf : feeEffects s signer pos act with
  | none => simp [hf] at h
  | some fx =>
    simp only [hf] at h
    cases h1 : applyEffects s fx with
    | none => simp [h1] at h
    | some s1 =>
      simp only [h1] at h
      split at h
      · cases h
      · rename_i hm
        have hm' : mutableOk s1 signer act = true := by simpa using hm
        obtain ⟨blk, hin⟩ := carrier_records s1 signer pos act b id hc
        exact ⟨applyEffects_records _ s1 s' b id blk hin h, s1, hm',
          carrier_requires_fresh s1 signer act (b, id) hc hm'⟩

end Astria.Ledger
