import Astria.Composer.Model
import Driver.Common
/- Area `composer`: replays the bundle-factory trace through `Astria.Composer` and evaluates
   the C16 spec on the states the implementation reported. -/
namespace Driver.ComposerArea
open Astria.Composer

def fmtBundle (b : Bundle) : String :=
  let ids := ",".intercalate (b.actions.map (fun a => toString a.id))
  let real := (b.actions.map (·.len)).sum
  s!"[{ids}]:{b.size}:{real}"

def dump (f : Factory) : String :=
  let fin := if f.finished.isEmpty then "-" else "/".intercalate (f.finished.map fmtBundle)
  s!"curr={fmtBundle f.curr} fin={fin} full={decide (f.finished.length ≥ f.cap)}"

/-- A bundle as the implementation reported it: ids, accounted size, real encoded size. -/
structure IBundle where
  ids : List Nat
  size : Nat
  real : Nat
  deriving Repr, DecidableEq

def parseBundle (s : String) : Option IBundle :=
  -- "[1,2]:116:116"
  match s.splitOn "]:" with
  | [a, b] =>
    let idsStr := (a.drop 1).toString
    let ids := if idsStr = "" then [] else (idsStr.splitOn ",").map String.toNat!
    match b.splitOn ":" with
    | [x, y] => some ⟨ids, x.toNat!, y.toNat!⟩
    | _ => none
  | _ => none

structure IDump where
  curr : IBundle
  fin : List IBundle
  deriving Repr

def parseDump (s : String) : Option IDump :=
  match Driver.words s with
  | [c, f, _] =>
    match parseBundle (c.drop 5).toString with
    | none => none
    | some curr =>
      let fs := (f.drop 4).toString
      if fs = "-" then some ⟨curr, []⟩
      else match (fs.splitOn "/").mapM parseBundle with
        | some fin => some ⟨curr, fin⟩
        | none => none
  | _ => none

structure St where
  run : Option Run := none
  -- implementation-side ghost state for the monitors
  max : Nat := 0
  cap : Nat := 0
  lens : List (Nat × Nat) := []
  accepted : List Nat := []
  emitted : List Nat := []
  prev : Option IDump := none
  prevStr : String := ""

def lenOf (lens : List (Nat × Nat)) (id : Nat) : Nat :=
  match lens.find? (·.1 = id) with
  | some (_, l) => l
  | none => 0

def splitRes (impl : String) : String × String :=
  match impl.splitOn " | " with
  | [a, b] => (a, b)
  | _ => (impl, "")

def run (lines : Array String) : Driver.Report := Id.run do
  let mut r : Driver.Report := {}
  let mut st : St := {}
  let mut n := 0
  for line in lines do
    n := n + 1
    let (op, impl) := Driver.splitLine line
    let (ires, idump) := splitRes impl
    match Driver.words op with
    | ["composer", "reset", max, cap] =>
      let run0 := Run.init max.toNat! cap.toNat!
      st := { run := some run0, max := max.toNat!, cap := cap.toNat!, prev := parseDump idump, prevStr := idump }
      r := r.check n line impl s!"ok | {dump run0.f}"
      r := r.bump "sessions"
    | "composer" :: rest =>
      match st.run with
      | none => r := r.addDisagree n line "no-session"
      | some run =>
        -- model
        let (run', mres, implLen, pushedId) : Run × String × Nat × Option Nat :=
          match rest with
          | ["push", id, _, _] =>
            let l := match Driver.words ires with
              | [_, ls] => (ls.drop 4).toString.toNat!
              | _ => 0
            let a : Action := ⟨id.toNat!, l⟩
            let (_, res) := run.f.tryPush a
            let rs := match res with | .ok => "ok" | .tooLarge => "too-large" | .queueFull => "queue-full"
            (run.step (.push a), s!"{rs} len={l}", l, some id.toNat!)
          | ["popfin"] =>
            let (_, ob) := run.f.popFinished
            (run.step .popFinished, (match ob with | some b => fmtBundle b | none => "none"), 0, none)
          | ["popnow"] =>
            let (_, b) := run.f.popNow
            (run.step .popNow, fmtBundle b, 0, none)
          | _ => (run, "bad-op", 0, none)
        r := r.check n line impl s!"{mres} | {dump run'.f}"
        r := r.bump s!"op_{rest.headD ""}"
        -- monitors on the implementation's own outputs
        let resWord := (Driver.words ires).headD ""
        match parseDump idump with
        | none => r := r.addMonitor "dump_parse" n line "cannot parse state dump"
        | some d =>
          let mut lens := st.lens
          let mut accepted := st.accepted
          let mut emitted := st.emitted
          match rest.headD "", pushedId with
          | "push", some id =>
            lens := (id, implLen) :: lens
            r := r.bump s!"push_{resWord}"
            if resWord = "ok" then accepted := accepted ++ [id]
            -- refusal iff
            match st.prev with
            | some p =>
              let should := decide (implLen > st.max) || (decide (p.curr.size + implLen > st.max) && decide (p.fin.length ≥ st.cap))
              let refused := resWord != "ok"
              if should != refused then
                r := r.addMonitor "refusal_iff" n line s!"refused={refused} but spec says {should}"
              if refused && idump != st.prevStr then
                r := r.addMonitor "refusal_is_noop" n line "a refused push changed the factory"
            | none => pure ()
          | "popfin", _ | "popnow", _ =>
            if resWord != "none" then
              match parseBundle resWord with
              | some b =>
                emitted := emitted ++ b.ids
                if rest.headD "" = "popfin" ∨ !b.ids.isEmpty then r := r.bump "bundles_emitted"
                if b.real > st.max ∨ b.size ≠ b.real ∨ b.real ≠ (b.ids.map (lenOf lens)).sum then
                  r := r.addMonitor "size_bound" n line s!"emitted bundle size {b.size}/{b.real} vs max {st.max}"
              | none => r := r.addMonitor "dump_parse" n line "cannot parse popped bundle"
          | _, _ => pure ()
          -- every bundle held: size accounted = real = sum of lens ≤ max
          for b in d.curr :: d.fin do
            if b.real > st.max ∨ b.size ≠ b.real ∨ b.real ≠ (b.ids.map (lenOf lens)).sum then
              r := r.addMonitor "size_bound" n line s!"held bundle size {b.size}/{b.real} vs max {st.max}"
          -- exactly once, in order
          let held := (d.fin.flatMap (·.ids)) ++ d.curr.ids
          if emitted ++ held ≠ accepted then
            r := r.addMonitor "exactly_once_in_order" n line s!"emitted++held={emitted ++ held} accepted={accepted}"
          st := { st with run := some run', lens := lens, accepted := accepted, emitted := emitted, prev := some d, prevStr := idump }
    | _ => r := r.addDisagree n line "bad-area"
  return r

end Driver.ComposerArea
