import Driver.Common
import Driver.CrashArea
/- `driver-crash <trace-file>`: replays an implementation trace of area `crash` through the Lean model. -/
def main (args : List String) : IO UInt32 := do
  match args with
  | [path] =>
    let text ← IO.FS.readFile path
    let lines := (text.splitOn "\n").filter (· ≠ "") |>.toArray
    let rep := Driver.CrashArea.run lines
    rep.print
    return 0
  | _ =>
    IO.println "usage: driver-crash <trace>"
    return 2
