import Astria.Conductor.Model
import Driver.Common
/- Area `executor` (stub): replays the trace through the model. -/
namespace Driver.ExecutorArea

def run (lines : Array String) : Driver.Report := Id.run do
  let mut r : Driver.Report := {}
  let mut n := 0
  for line in lines do
    n := n + 1
    r := r.addDisagree n line "bad-area"
  return r

end Driver.ExecutorArea
