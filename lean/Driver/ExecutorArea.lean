import Astria.Conductor.Model
import Astria.Conductor.Spec
import Driver.Common
/- Area `executor` (C10): replays the trace of the real conductor executor / BlockCache through
   `Astria.Conductor` (correspondence, string equality of result + state dump), and evaluates
   the C10 acceptor `Mon` (Astria/Conductor/Spec.lean — the object the theorems are about) on
   the deliveries, verdicts and RPCs the implementation itself reported (monitors). -/
namespace Driver.ExecutorArea
open Astria.Conductor

/-! ### printing (must match /verif/harness/conductor/executor.rs) -/

def fmtBlk (b : Blk) : String := s!"{b.number}:{b.id}:{b.parent}:{b.seq}"

def rerrName : RErr → String
  | .notHead => "not-head" | .unknownBlock => "unknown-block" | .firmExceedsSoft => "firm-exceeds-soft"
  | .decrease => "decrease" | .noSuchBlock => "no-such-block"

def fmtResBlk : Res Blk → String
  | .ok b => fmtBlk b
  | .rej e => "rej:" ++ rerrName e

def fmtResUnit : Res Unit → String
  | .ok _ => "ok"
  | .rej e => "rej:" ++ rerrName e

def fmtRpc : Rpc → String
  | .exec seq p r => s!"X,{seq},{p},{fmtResBlk r}"
  | .update f s c r => s!"U,{fmtBlk f},{fmtBlk s},{c},{fmtResUnit r}"
  | .get n r => s!"G,{n},{fmtResBlk r}"

def fmtRpcs (l : List Rpc) : String := if l.isEmpty then "-" else ";".intercalate (l.map fmtRpc)

def errName : ErrKind → String
  | .outOfOrder => "out-of-order" | .heightMismatch => "height-mismatch" | .map => "map"
  | .execute => "execute" | .contract => "contract" | .getBlock => "get-block"
  | .updateBuild => "update-build" | .updateRpc => "update-rpc" | .updateState => "update-state"

def fmtOutcome : Outcome → String
  | .ok => "ok" | .dropped => "drop" | .err k => "err:" ++ errName k

def fmtState (s : Sys) : String :=
  let nf := if mapOk s.cfg s.ex.c.firm.number then toString s.nextFirm else "-"
  let ns := if mapOk s.cfg s.ex.c.soft.number then toString s.nextSoft else "-"
  let pend := if s.ex.pending.isEmpty then "-"
    else ",".intercalate (s.ex.pending.map fun (k, b) => s!"{k}/{fmtBlk b}")
  s!"firm={fmtBlk s.ex.c.firm} soft={fmtBlk s.ex.c.soft} cel={s.ex.c.cel} nf={nf} ns={ns} pend={pend}"

/-! ### parsing of what the implementation reported -/

def parseBlk (s : String) : Option Blk :=
  match s.splitOn ":" with
  | [a, b, c, d] => do some ⟨← a.toNat?, ← b.toNat?, ← c.toNat?, ← d.toNat?⟩
  | _ => none

def parseRErr : String → Option RErr
  | "not-head" => some .notHead | "unknown-block" => some .unknownBlock
  | "firm-exceeds-soft" => some .firmExceedsSoft | "decrease" => some .decrease
  | "no-such-block" => some .noSuchBlock
  | _ => none

def parseResBlk (s : String) : Option (Res Blk) :=
  if s.startsWith "rej:" then
    -- rejections the model does not know (e.g. bad-session) are reported as `notHead`; they
    -- are rejections all the same for the acceptor
    some (.rej ((parseRErr (s.drop 4).toString).getD .notHead))
  else (parseBlk s).map .ok

def parseResUnit (s : String) : Option (Res Unit) :=
  if s = "ok" then some (.ok ())
  else if s.startsWith "rej:" then some (.rej ((parseRErr (s.drop 4).toString).getD .notHead))
  else none

def parseRpc (s : String) : Option Rpc :=
  match s.splitOn "," with
  | ["X", seq, p, r] => do some (.exec (← seq.toNat?) (← p.toNat?) (← parseResBlk r))
  | ["U", f, so, c, r] => do some (.update (← parseBlk f) (← parseBlk so) (← c.toNat?) (← parseResUnit r))
  | ["G", n, r] => do some (.get (← n.toNat?) (← parseResBlk r))
  | _ => none

def parseRpcs (s : String) : Option (List Rpc) :=
  if s = "-" then some [] else (s.splitOn ";").mapM parseRpc

def parseOutcome : String → Option Outcome
  | "ok" => some .ok | "drop" => some .dropped
  | "err:out-of-order" => some (.err .outOfOrder) | "err:height-mismatch" => some (.err .heightMismatch)
  | "err:map" => some (.err .map) | "err:execute" => some (.err .execute)
  | "err:contract" => some (.err .contract) | "err:get-block" => some (.err .getBlock)
  | "err:update-build" => some (.err .updateBuild) | "err:update-rpc" => some (.err .updateRpc)
  | "err:update-state" => some (.err .updateState)
  | s => if s.startsWith "err:" then some (.err .execute) else none

def parseMode : String → Option Mode
  | "soft" => some .softOnly | "firm" => some .firmOnly | "both" => some .softAndFirm
  | _ => none

def modeName : Mode → String
  | .softOnly => "soft" | .firmOnly => "firm" | .softAndFirm => "both"

def parseFirmList (s : String) : Option (List (Nat × Nat)) :=
  if s = "-" then some [] else
  (s.splitOn ",").mapM fun e =>
    match e.splitOn "/" with
    | [h, c] => do some (← h.toNat?, ← c.toNat?)
    | _ => none

def parseSoftList (s : String) : Option (List Nat) :=
  if s = "-" then some [] else (s.splitOn ",").mapM (·.toNat?)

/-- `State::try_from_execution_session` + `ExecutionSession::try_from_raw` +
    `create_block_channels`: can the session start at all? -/
def initResult (cfg : Cfg) : Option String :=
  if cfg.firm0 > cfg.soft0 then some "err:init"
  else if cfg.mode.withFirm && !mapOk cfg cfg.firm0 then some "err:init"
  else if cfg.mode.withSoft && !mapOk cfg cfg.soft0 then some "err:init"
  else if cfg.mode = .softAndFirm ∧ cfg.lookahead = 0 then some "err:channels"
  else none

/-- The hypotheses of the C10 theorems on the session (`Cfg.WF` in Theorems.lean). -/
def cfgWF (cfg : Cfg) : Bool :=
  decide (cfg.firm0 ≤ cfg.soft0) && decide (cfg.rollupStart ≤ cfg.firm0 + 1) && decide (1 ≤ cfg.seqStart)
    && (cfg.mode != .firmOnly || decide (cfg.firm0 = cfg.soft0)) && decide (cfg.lie = 0)

/-! ### the BlockCache part -/

def fmtCErr : CErr → String
  | .zero => "zero" | .old => "old" | .occupied => "occupied"

def fmtCache (c : Cache) : String := s!"next={c.next}"

/-- `cscan hi` of the harness: probe-insert (tag 0) every height from `next` to `hi`, report the
    occupied ones, then pop until empty. -/
def cacheScan (c : Cache) (hi : Nat) : Cache × List Nat × List (Nat × Nat) := Id.run do
  let mut c := c
  let mut occ : List Nat := []
  let lo := c.next
  let hi := min hi (lo + 63)
  for k in [0:hi + 1 - lo] do
    let h := lo + k
    match c.insert h 0 with
    | .ok c' => c := c'
    | .error .occupied => occ := occ ++ [h]
    | .error _ => pure ()
  let mut popped : List (Nat × Nat) := []
  let mut fuel := c.inner.length + 1
  while fuel > 0 do
    fuel := fuel - 1
    match c.pop with
    | (some e, c') => c := c'; popped := popped ++ [e]
    | (none, _) => fuel := 0
  return (c, occ, popped)

/-! ### driver state -/

structure St where
  sys : Option Sys := none
  mon : Option Mon := none            -- acceptor over the implementation's own reports
  cache : Option Cache := none
  -- implementation-side ghost state of the cache monitors
  cNext : Nat := 0
  cHeld : List (Nat × Nat) := []      -- (height, tag) accepted by the implementation's insert

def getField (s key : String) : Option String :=
  (Driver.words s).findSome? fun w =>
    if w.startsWith (key ++ "=") then some (w.drop (key.length + 1)).toString else none

def parts (impl : String) : List String := impl.splitOn " | "

def run (lines : Array String) : Driver.Report := Id.run do
  let mut r : Driver.Report := {}
  let mut st : St := {}
  let mut n := 0
  for line in lines do
    n := n + 1
    let (op, impl) := Driver.splitLine line
    let ps := parts impl
    match Driver.words op with
    | "executor" :: "reset" :: "exec" :: mode :: s :: rr :: f0 :: s0 :: cel0 :: la :: lieArg =>
      -- optional 8th parameter: fault injection of the rollup (0 / absent = honest)
      let lie := match lieArg with
        | [l] => l.toNat?.getD 0
        | _ => 0
      match parseMode mode, s.toNat?, rr.toNat?, f0.toNat?, s0.toNat?, cel0.toNat?, la.toNat? with
      | some mode, some s, some rr, some f0, some s0, some cel0, some la =>
        let cfg : Cfg := ⟨mode, s, rr, f0, s0, cel0, la, lie⟩
        match initResult cfg with
        | some e =>
          st := { st with sys := none, mon := none, cache := none }
          r := r.check n line impl e
          r := r.bump "exec_session_refused"
        | none =>
          let sys := Sys.init cfg
          st := { st with sys := some sys, mon := if cfgWF cfg then some (Mon.init cfg) else none, cache := none }
          r := r.check n line impl s!"ok | - | {fmtState sys}"
          r := r.bump s!"exec_sessions_{modeName mode}"
          if !cfgWF cfg then r := r.bump "exec_sessions_outside_theorem_hypotheses"
          if lie ≠ 0 then r := r.bump "exec_sessions_with_lying_rollup"
      | _, _, _, _, _, _, _ => r := r.addDisagree n line "bad-reset"
    | ["executor", "soft", h] | ["executor", "firm", h, _] =>
      match st.sys, h.toNat? with
      | some sys, some h =>
        let cel := match Driver.words op with
          | [_, _, _, c] => c.toNat!
          | _ => 0
        let mop : Op := if (Driver.words op)[1]! = "soft" then .soft h else .firm h cel
        let (sys', out) := step sys mop
        st := { st with sys := some sys' }
        r := r.check n line impl s!"{fmtOutcome out.res} | {fmtRpcs out.rpcs} | {fmtState sys'}"
        -- statistics
        let kind := if (Driver.words op)[1]! = "soft" then "soft" else "firm"
        r := r.bump s!"{kind}_{fmtOutcome out.res}"
        match out.rpcs with
        | [.exec _ _ _, .update _ _ _ _] => r := r.bump s!"{kind}_executed"
        | [.update _ _ _ _] => r := r.bump "firm_from_pending"
        | [.get _ _, .update _ _ _ _] => r := r.bump "firm_from_rollup"
        | [] => pure ()
        | _ => r := r.bump s!"{kind}_other_rpc_pattern"
        -- monitor: the acceptor on what the implementation reported
        match st.mon with
        | none => pure ()
        | some m =>
          match ps with
          | [ires, irpcs, _] =>
            match parseOutcome ires, parseRpcs irpcs with
            | some o, some rpcs =>
              match m.stepEvent sys.cfg ⟨mop, o, rpcs⟩ with
              | some m' => st := { st with mon := some m' }
              | none =>
                r := r.addMonitor "c10_history_accepted" n line
                  s!"delivery not allowed by the C10 acceptor: next ExecuteBlock height {m.next}, head {fmtBlk m.head}, firm {fmtBlk m.c.firm}, soft {fmtBlk m.c.soft}"
                st := { st with mon := none }
            | _, _ =>
              r := r.addMonitor "c10_parse" n line "cannot parse the implementation's report"
              st := { st with mon := none }
          | _ =>
            r := r.addMonitor "c10_parse" n line "cannot parse the implementation's report"
            st := { st with mon := none }
      | _, _ => r := r.check n line impl "err:no-session"
    | ["executor", "loop", fl, sl] =>
      match st.sys, parseFirmList fl, parseSoftList sl with
      | some sys, some fl, some sl =>
        -- capacities chosen by `create_block_channels`
        let fl := fl.take 16
        let sl := sl.take (match sys.cfg.mode with
          | .softOnly => 1024
          | .softAndFirm => sys.cfg.lookahead
          | .firmOnly => max sys.cfg.lookahead 1)
        let (sys', res, evs, lf, ls) := runLoop sys fl sl
        st := { st with sys := some sys' }
        r := r.check n line impl
          s!"{fmtOutcome res} | {fmtRpcs (allRpcs evs)} | {fmtState sys'} | left={lf},{ls}"
        r := r.bump s!"loop_{fmtOutcome res}"
        r := r.bump "loop_deliveries" evs.length
        if ls > 0 ∧ res = .ok then r := r.bump "loop_stopped_by_spread"
        -- monitor: RPC-level acceptor on the implementation's RPC sequence
        match st.mon with
        | none => pure ()
        | some m =>
          match ps with
          | [_, irpcs, _, _] =>
            match parseRpcs irpcs with
            | some rpcs =>
              match m.stepRpcs rpcs with
              | some m' => st := { st with mon := some m' }
              | none =>
                r := r.addMonitor "c10_history_accepted" n line
                  s!"RPC sequence not allowed by the C10 acceptor: next ExecuteBlock height {m.next}, head {fmtBlk m.head}, firm {fmtBlk m.c.firm}, soft {fmtBlk m.c.soft}"
                st := { st with mon := none }
            | none =>
              r := r.addMonitor "c10_parse" n line "cannot parse the implementation's report"
              st := { st with mon := none }
          | _ =>
            r := r.addMonitor "c10_parse" n line "cannot parse the implementation's report"
            st := { st with mon := none }
      | _, _, _ => r := r.check n line impl "err:no-session"
    | ["executor", "reset", "cache", nx] =>
      match Cache.withNextHeight nx.toNat! with
      | .ok c =>
        st := { st with cache := some c, sys := none, mon := none, cNext := nx.toNat!, cHeld := [] }
        r := r.check n line impl s!"ok | {fmtCache c}"
        r := r.bump "cache_sessions"
      | .error e =>
        st := { st with cache := none, sys := none, mon := none }
        r := r.check n line impl s!"err:{fmtCErr e}"
    | "executor" :: cop :: args =>
      match st.cache with
      | none => r := r.check n line impl "err:no-session"
      | some c =>
        let ires := ps.headD ""
        let inext := ((getField (ps.getD 1 "") "next").bind (·.toNat?)).getD 0
        match cop, args with
        | "cins", [h, tag] =>
          let h := h.toNat!
          let tag := tag.toNat!
          let (c', o) := c.step (.insert h tag)
          st := { st with cache := some c' }
          let ms := match o with
            | .inserted => "ok"
            | .insertErr e => "err:" ++ fmtCErr e
            | _ => "?"
          r := r.check n line impl s!"{ms} | {fmtCache c'}"
          r := r.bump s!"cins_{ms}"
          -- monitors on the implementation's answers
          if ires = "ok" then
            if h < st.cNext then
              r := r.addMonitor "c10_cache_sequential" n line s!"accepted a block below next height {st.cNext}"
            if (st.cHeld.find? (·.1 = h)).isSome then
              r := r.addMonitor "c10_cache_sequential" n line "accepted a second block at an occupied height"
            st := { st with cHeld := st.cHeld ++ [(h, tag)] }
          if inext ≠ st.cNext then
            r := r.addMonitor "c10_cache_sequential" n line "insert moved the next height"
        | "cpop", [] =>
          let (c', o) := c.step .pop
          st := { st with cache := some c' }
          let ms := match o with
            | .popped h tag => s!"some:{h}:{tag}"
            | _ => "none"
          r := r.check n line impl s!"{ms} | {fmtCache c'}"
          r := r.bump (if ms = "none" then "cpop_none" else "cpop_some")
          match ires.splitOn ":" with
          | ["some", h, tag] =>
            let h := h.toNat!
            let tag := tag.toNat!
            if h ≠ st.cNext then
              r := r.addMonitor "c10_cache_sequential" n line s!"popped height {h} but next height was {st.cNext}"
            if inext ≠ h + 1 then
              r := r.addMonitor "c10_cache_sequential" n line s!"next height after popping {h} is {inext}"
            if (st.cHeld.find? (·.1 = h)) ≠ some (h, tag) then
              r := r.addMonitor "c10_cache_sequential" n line "popped a block that was not the one inserted at this height"
            st := { st with cNext := inext, cHeld := st.cHeld.filter (·.1 ≠ h) }
          | _ =>
            if (st.cHeld.find? (·.1 = st.cNext)).isSome then
              r := r.addMonitor "c10_cache_sequential" n line s!"block at next height {st.cNext} is held but pop returned none"
            if inext ≠ st.cNext then
              r := r.addMonitor "c10_cache_sequential" n line "empty pop moved the next height"
        | "cdrop", [h] =>
          let h := h.toNat!
          let (c', _) := c.step (.dropObsolete h)
          st := { st with cache := some c' }
          r := r.check n line impl s!"ok | {fmtCache c'}"
          r := r.bump (if h > c.next then "cdrop_forward" else "cdrop_noop")
          if inext ≠ max st.cNext h then
            r := r.addMonitor "c10_cache_sequential" n line s!"next height after drop_obsolete({h}) is {inext}, was {st.cNext}"
          st := { st with cNext := inext, cHeld := st.cHeld.filter (fun e => h ≤ e.1) }
        | "cscan", [hi] =>
          let (c', occ, popped) := cacheScan c hi.toNat!
          st := { st with cache := some c' }
          let occS := if occ.isEmpty then "-" else ",".intercalate (occ.map toString)
          let popS := if popped.isEmpty then "-" else ",".intercalate (popped.map fun (h, t) => s!"{h}:{t}")
          r := r.check n line impl s!"occ={occS} popped={popS} | {fmtCache c'}"
          r := r.bump "cscan"
          -- monitor: what is still held according to the implementation's own earlier answers
          let heldNow := (st.cHeld.filter (fun e => st.cNext ≤ e.1 ∧ e.1 ≤ min hi.toNat! (st.cNext + 63))).map (·.1)
          let occI := (getField ires "occ").getD "?"
          let expect := if heldNow.isEmpty then "-" else ",".intercalate ((heldNow.mergeSort (· ≤ ·)).map toString)
          if occI ≠ expect then
            r := r.addMonitor "c10_cache_sequential" n line s!"cache content {occI} differs from the blocks it accepted and never handed out or dropped: {expect}"
          st := { st with cNext := inext, cHeld := [] }
        | _, _ => r := r.addDisagree n line "bad-op"
    | _ => r := r.addDisagree n line "bad-area"
  return r

end Driver.ExecutorArea
