import Astria.Mempool.Model
import Driver.Common
/- Area `mempool`: replays the trace of the real `Mempool` through `Astria.Mempool` (state dump
   and query answers must be identical after every operation) and evaluates the C13 spec on
   the values the implementation reported. -/
namespace Driver.MempoolArea
open Astria.Mempool

def nAccts : Nat := 6
def assets : List Nat := [0, 1, 2]

/-! ## printing the model state exactly like the harness prints the real one -/

def tot (es : List (Nat × Nat)) (k : Nat) : Nat :=
  (es.filter (fun e => e.1 == k)).foldl (fun s e => s + e.2) 0

def joinOrDash (xs : List String) : String := if xs.isEmpty then "-" else ",".intercalate xs

def fmtReason : Reason → String
  | .expired => "exp"
  | .nonceStale => "stale"
  | .lowerNonce => "lower"
  | .failedExec t => s!"fail{t}"
  | .internal => "int"
  | .included h c => s!"inc{h}/{c}"

def fmtRow (t : Tx) : String :=
  s!"{t.acct}:{t.nonce}:t{t.id}:" ++ "/".intercalate (assets.map (fun k => toString (tot t.costs k)))

def sortNat (xs : List Nat) : List Nat := (xs.toArray.qsort (· < ·)).toList

def fmtStatus : Option Status → String
  | none => "-"
  | some .pending => "P"
  | some .parked => "K"
  | some (.removed r) => fmtReason r

def dump (s : State) (nTx : Nat) : String :=
  let p := joinOrDash (s.pend.map fmtRow)
  let k := joinOrDash (s.park.map fmtRow)
  let c := joinOrDash ((sortNat s.contained).map (fun i => s!"t{i}"))
  let rs := (s.cache.toArray.qsort (fun a b => a.1 < b.1)).toList
  let r := joinOrDash (rs.map (fun e => s!"t{e.1}:{fmtReason e.2}"))
  let x := joinOrDash ((List.range nTx).filterMap (fun i =>
    match s.res.lookup i with
    | some (h, code) => some s!"t{i}:{h}/{code}"
    | none => none))
  let bq := joinOrDash ((builderQueue s).map (fun t => s!"t{t.id}"))
  let pn := joinOrDash ((List.range nAccts).filterMap (fun a =>
    (pendingNonce s.pend a).map (fun n => s!"{a}:{n}")))
  let st := joinOrDash ((List.range nTx).map (fun i => s!"t{i}:{fmtStatus (status s i)}"))
  s!"P={p} K={k} C={c} R={r} QL={s.cacheQ.length} X={x} XL={s.res.length} bq={bq} pn={pn} st={st} len={len s}"

/-! ## parsing -/

def parseVec (s : String) : List (Option Nat) :=
  (s.splitOn "/").map (fun p => if p = "_" then none else p.toNat?)

def vecBal (v : List (Option Nat)) : Bal := fun k => (v.getD k none).getD 0

def vecCosts (v : List (Option Nat)) : List (Nat × Nat) :=
  (List.range v.length).filterMap (fun k => (v.getD k none).map (fun x => (k, x)))

def parseLabel (s : String) : Option Nat :=
  if s.startsWith "t" then (s.drop 1).toString.toNat? else none

def parseReason (s : String) : Reason :=
  if s = "exp" then .expired
  else if s = "stale" then .nonceStale
  else if s = "lower" then .lowerNonce
  else if s = "int" then .internal
  else if s.startsWith "fail" then .failedExec ((s.drop 4).toString.toNat!)
  else .internal

def groupOfKind (k : Nat) : Nat := 4 - k

def fmtOut : Out → String
  | .pending => "pending"
  | .parked => "parked"
  | .done => "ok"
  | .err .alreadyPresent => "err:already-present"
  | .err .nonceTooLow => "err:nonce-too-low"
  | .err .nonceTaken => "err:nonce-taken"
  | .err .nonceGap => "err:nonce-gap"
  | .err .accountSizeLimit => "err:account-size-limit"
  | .err .balanceTooLow => "err:balance-too-low"
  | .err .parkedSizeLimit => "err:parked-size-limit"

/-- What the implementation reported (parsed from its dump). -/
structure IRow where
  acct : Nat
  nonce : Nat
  id : Nat
  costs : List Nat
  deriving Repr

structure IDump where
  pend : List IRow
  park : List IRow
  contained : List Nat
  cache : List (Nat × String)
  results : List Nat
  bq : List Nat
  pn : List (Nat × Nat)
  st : List (Nat × String)
  len : Nat

def listOf (s : String) : List String := if s = "-" then [] else s.splitOn ","

def parseRow (s : String) : Option IRow :=
  match s.splitOn ":" with
  | [a, n, t, c] =>
    match a.toNat?, n.toNat?, parseLabel t with
    | some a, some n, some t => some ⟨a, n, t, (c.splitOn "/").map (fun x => x.toNat?.getD (2 ^ 200))⟩
    | _, _, _ => none
  | _ => none

def parsePair (s : String) : Option (Nat × String) :=
  match s.splitOn ":" with
  | [t, r] => (parseLabel t).map (fun t => (t, r))
  | _ => none

def field (ws : List String) (key : String) : Option String :=
  (ws.find? (fun w => w.startsWith (key ++ "="))).map (fun w => (w.drop (key.length + 1)).toString)

def parseDump (s : String) : Option IDump := do
  let ws := Driver.words s
  let p ← (listOf (← field ws "P")).mapM parseRow
  let k ← (listOf (← field ws "K")).mapM parseRow
  let c ← (listOf (← field ws "C")).mapM parseLabel
  let r ← (listOf (← field ws "R")).mapM parsePair
  let x ← (listOf (← field ws "X")).mapM parsePair
  let bq ← (listOf (← field ws "bq")).mapM parseLabel
  let pn ← (listOf (← field ws "pn")).mapM (fun e =>
    match e.splitOn ":" with
    | [a, n] => match a.toNat?, n.toNat? with
      | some a, some n => some (a, n)
      | _, _ => none
    | _ => none)
  let st ← (listOf (← field ws "st")).mapM parsePair
  let l ← (← field ws "len").toNat?
  pure ⟨p, k, c, r, x.map (·.1), bq, pn, st, l⟩

/-! ## driver state -/

structure St where
  model : Option State := none
  txs : Array Tx := #[]
  -- chain state as told by `chain` / `fees` lines
  cNonce : List (Nat × Nat) := []
  cBal : List (Nat × List (Option Nat)) := []
  fees : List (Option Nat) := [none, none, none, none]
  allowed : List Bool := [true, false, false]
  pmax : Nat := 0
  -- ghost state of the monitors (from the ops and the implementation's answers only)
  shown : List (Nat × Nat) := []                  -- account ↦ nonce last shown
  vbal : List (Nat × List (Option Nat)) := []     -- account ↦ balances at last validation
  accepted : List Nat := []
  acked : List Nat := []
  lost : List Nat := []                           -- already reported by `no_silent_loss`
  seen : List (Nat × Nat) := []                   -- id ↦ time of the insert that accepted it
  /-- id ↦ current costs per asset: the costs handed to the accepting `insert`, replaced at every
      re-costing maintenance the transaction survives by what the chain charges then (fee table of
      the `fees` lines + transferred amount; unchanged where `total_costs` fails). Computed from
      the op lines only. -/
  ccost : List (Nat × List Nat) := []

def lookupD {β} (l : List (Nat × β)) (k : Nat) (d : β) : β := (l.lookup k).getD d

def setKey {β} (l : List (Nat × β)) (k : Nat) (v : β) : List (Nat × β) :=
  (k, v) :: l.filter (fun e => e.1 != k)

def St.chain (st : St) : Chain :=
  { nonce := fun a => lookupD st.cNonce a 0
    bal := fun a => vecBal (lookupD st.cBal a [])
    fee := fun k => (st.fees.getD k none)
    allowed := fun f => st.allowed.getD f false }

def splitRes (impl : String) : String × String :=
  match impl.splitOn " | " with
  | [a, b] => (a, b)
  | _ => (impl, "")

/-- All permutations (for the iteration order of the address `HashSet` in `run_maintenance`). -/
def perms : List Nat → List (List Nat)
  | [] => [[]]
  | x :: xs => (perms xs).flatMap (fun p => (List.range (p.length + 1)).map (fun i => p.take i ++ [x] ++ p.drop i))

def allDistinct (xs : List Nat) : Bool := xs.eraseDups.length == xs.length

/-! ## the C13 spec on an implementation dump -/

def checkDump (st : St) (d : IDump) (afterMaintain : Bool) (modelDropped : List Nat) :
    List (String × String) := Id.run do
  let mut bad : List (String × String) := []
  let pIds := d.pend.map (·.id)
  let kIds := d.park.map (·.id)
  -- one place
  if !allDistinct (pIds ++ kIds) then
    bad := ("one_place", s!"an id is held twice: ready={pIds} parked={kIds}") :: bad
  if !(d.contained.all (fun i => (pIds ++ kIds).contains i) && (pIds ++ kIds).all (fun i => d.contained.contains i)
       && allDistinct d.contained) then
    bad := ("one_place", s!"tracked set {d.contained} differs from ready {pIds} ++ parked {kIds}") :: bad
  if d.len != d.contained.length then
    bad := ("one_place", s!"len {d.len} but {d.contained.length} tracked") :: bad
  for (i, s) in d.st do
    let want := if pIds.contains i then "P" else if kIds.contains i then "K" else ""
    if want != "" && s != want then
      bad := ("one_place", s!"t{i} is held as {want} but its status says {s}") :: bad
    if want == "" && (s == "P" || s == "K") then
      bad := ("one_place", s!"t{i} is not held but its status says {s}") :: bad
  -- never silently lost
  for i in st.accepted do
    if !(d.contained.contains i) && !(d.cache.any (·.1 == i)) && !(st.acked.contains i)
        && !(st.lost.contains i) then
      let why := if modelDropped.contains i then
        " [failed demotion/promotion in run_maintenance: the model, which agrees with the code on this line, un-tracks it without a removal reason]"
        else ""
      bad := ("no_silent_loss", s!"accepted t{i} vanished: neither tracked nor in the removal cache (status {lookupD d.st i "?"}){why}") :: bad
  -- the costs the mempool holds are the current costs
  for row in d.pend ++ d.park do
    match st.ccost.lookup row.id with
    | some c =>
      if assets.map (fun k => row.costs.getD k 0) != assets.map (fun k => c.getD k 0) then
        bad := ("recost_applied", s!"t{row.id} is held with costs {row.costs} but its current costs (insert / last re-costing maintenance) are {c}") :: bad
    | none => pure ()
  -- an id that left with a reason is reported as removed
  for i in st.accepted do
    if !(d.contained.contains i) then
      match d.cache.find? (·.1 == i) with
      | some (_, reason) =>
        let s := lookupD d.st i "?"
        if s == "-" || s == "P" || s == "K" then
          bad := ("no_silent_loss", s!"t{i} left with reason {reason} but transaction_status says {s}") :: bad
      | none => pure ()
  -- per account
  for a in List.range nAccts do
    let pn := (d.pend.filter (·.acct == a)).map (·.nonce)
    let kn := (d.park.filter (·.acct == a)).map (·.nonce)
    let ls := lookupD st.shown a 0
    let live := pn.filter (· ≥ ls)
    if live != (List.range live.length).map (· + ls) then
      bad := ("ready_consecutive", s!"account {a}: ready nonces {pn} are not consecutive from the shown nonce {ls}") :: bad
    if afterMaintain && !((pn ++ kn).all (· ≥ ls)) then
      bad := ("no_used_nonce_after_maintenance", s!"account {a}: nonces {pn} / {kn} below the chain nonce {ls} survived maintenance") :: bad
    -- affordable from the balances last shown
    let vb := lookupD st.vbal a []
    for k in assets do
      -- at the transactions' CURRENT costs (not at whatever costs the mempool happens to hold)
      let total := ((d.pend.filter (·.acct == a)).map (fun r =>
        (lookupD st.ccost r.id r.costs).getD k 0)).foldl (· + ·) 0
      if total > (vb.getD k none).getD 0 then
        bad := ("ready_affordable", s!"account {a} asset {k}: ready costs {total} (at current fees) exceed the balance {(vb.getD k none).getD 0} last shown") :: bad
    -- parked limit per account
    if kn.length > 15 then
      bad := ("parked_limits", s!"account {a} has {kn.length} parked transactions") :: bad
    -- pending_nonce
    let want := match pn.getLast? with | some n => some (n + 1) | none => none
    if d.pn.lookup a != want then
      bad := ("pending_nonce", s!"account {a}: pending_nonce {d.pn.lookup a} but ready nonces {pn}") :: bad
  if d.park.length > st.pmax then
    bad := ("parked_limits", s!"{d.park.length} parked transactions, limit {st.pmax}") :: bad
  -- builder queue: exactly the ready transactions; per account and group in nonce order
  if !(allDistinct d.bq && d.bq.all (fun i => pIds.contains i) && pIds.all (fun i => d.bq.contains i)) then
    bad := ("builder_order", s!"builder queue {d.bq} is not the ready set {pIds}") :: bad
  let info := d.bq.filterMap (fun i =>
    match d.pend.find? (·.id == i), st.txs[i]? with
    | some r, some t => some (r.acct, t.group, r.nonce)
    | _, _ => none)
  let rec scan : List (Nat × Nat × Nat) → Bool
    | [] => true
    | (a, g, n) :: rest => rest.all (fun (a', g', n') => !(a' == a && g' == g && n' ≤ n)) && scan rest
  if !scan info then
    bad := ("builder_order", s!"builder queue {d.bq} puts a higher nonce before a lower one of the same account and group") :: bad
  -- the documented priority: action group (higher first), then nonce difference to the account's
  -- lowest ready nonce, then time first seen
  let keys := d.bq.filterMap (fun i =>
    match d.pend.find? (·.id == i), st.txs[i]? with
    | some r, some t =>
      let first := ((d.pend.filter (·.acct == r.acct)).map (·.nonce)).foldl min r.nonce
      some (t.group, r.nonce - first, lookupD st.seen i 0)
    | _, _ => none)
  let le (x y : Nat × Nat × Nat) : Bool :=
    x.1 > y.1 || (x.1 == y.1 && (x.2.1 < y.2.1 || (x.2.1 == y.2.1 && x.2.2 ≤ y.2.2)))
  let rec sorted : List (Nat × Nat × Nat) → Bool
    | [] => true
    | x :: rest => rest.all (le x) && sorted rest
  if !sorted keys then
    bad := ("builder_priority", s!"builder queue {d.bq} is not ordered by (group, nonce difference, time first seen): {keys}") :: bad
  return bad

/-! ## the run -/

def run (lines : Array String) : Driver.Report := Id.run do
  let mut r : Driver.Report := {}
  let mut st : St := {}
  let mut n := 0
  for line in lines do
    n := n + 1
    let (op, impl) := Driver.splitLine line
    let (ires, idump) := splitRes impl
    match Driver.words op with
    | ["mempool", "reset", pmax, rmax] =>
      let s0 := init { parkedMax := pmax.toNat!, resultsMax := rmax.toNat!, reportFailedMoves := true }
      st := { model := some s0, pmax := pmax.toNat! }
      r := r.check n line impl s!"ok | {dump s0 0}"
      r := r.bump "sessions"
    | "mempool" :: rest =>
      match st.model with
      | none => r := r.addDisagree n line "no-session"
      | some s =>
        r := r.bump s!"op_{rest.headD ""}"
        match rest with
        | ["mk", t, a, nn, kind, fa, xa, xm] =>
          let k := kind.toNat!
          let tx : Tx :=
            { id := (parseLabel t).getD 0, acct := a.toNat!, nonce := nn.toNat!, group := groupOfKind k,
              kind := k, feeAsset := if k < 2 then some fa.toNat! else none,
              xfer := if xa = "-" then none else some (xa.toNat!, xm.toNat!) }
          if tx.id != st.txs.size then r := r.addDisagree n line "label-out-of-order"
          st := { st with txs := st.txs.push tx }
          r := r.check n line impl s!"{tx.group}"
          r := r.bump s!"mk_kind{k}"
        | ["chain", a, nn, b] =>
          st := { st with cNonce := setKey st.cNonce a.toNat! nn.toNat!,
                          cBal := setKey st.cBal a.toNat!
                            ((parseVec b).zipWith (fun new old => match new with | some x => some x | none => old)
                              ((lookupD st.cBal a.toNat! []) ++ [none, none, none])) }
          r := r.check n line impl "ok"
        | ["fees", f0, f1, f2, f3, al] =>
          let upd (old : Option Nat) (s : String) : Option Nat := if s = "-" then old else s.toNat?
          st := { st with fees := [upd (st.fees.getD 0 none) f0, upd (st.fees.getD 1 none) f1,
                                   upd (st.fees.getD 2 none) f2, upd (st.fees.getD 3 none) f3],
                          allowed := al.toList.map (· == '1') }
          r := r.check n line impl "ok"
        | _ =>
          -- operations on the mempool: model result, then monitors on the implementation's dump
          let (s', mres, isMaintain) : State × String × Bool :=
            match rest with
            | ["insert", t, cur, b, c, at_] =>
              match st.txs[(parseLabel t).getD 0]? with
              | none => (s, "unknown-tx", false)
              | some tx =>
                let s1 := (step s (.advance (at_.toNat! - s.now))).1
                let (s2, out) := step s1 (.insert { tx with costs := vecCosts (parseVec c) } cur.toNat! (vecBal (parseVec b)))
                (s2, fmtOut out, false)
            | ["remove", t, reason] =>
              match st.txs[(parseLabel t).getD 0]? with
              | none => (s, "unknown-tx", false)
              | some tx => ((step s (.removeInvalid tx.acct tx.nonce tx.id (parseReason reason))).1, "ok", false)
            | ["uncache", t] => ((step s (.uncache ((parseLabel t).getD 0))).1, "ok", false)
            | ["maintain", rc, h, res, at_] =>
              let results : List (Nat × Nat) := (listOf res).filterMap (fun e =>
                match e.splitOn ":" with
                | [t, c] => (parseLabel t).map (fun t => (t, c.toNat!))
                | _ => none)
              let s1 := (step s (.advance (at_.toNat! - s.now))).1
              let addrs := sortNat (addresses s1)
              let go (order : List Nat) : State :=
                (step s1 (.maintain st.chain (rc == "1") results h.toNat! order)).1
              let first := go addrs
              -- the Rust iterates a `HashSet`: any order of the accounts is a legal behaviour
              let want := idump
              let nTx := st.txs.size
              if dump first nTx == want then (first, "ok", true)
              else
                match (perms addrs).find? (fun o => dump (go o) nTx == want) with
                | some o => (go o, "ok", true)
                | none => (first, "ok", true)
            | _ => (s, "bad-op", false)
          r := r.check n line impl s!"{mres} | {dump s' st.txs.size}"
          if rest.headD "" == "insert" then r := r.bump s!"insert_{ires}"
          -- what happened inside (from the model, which is compared with the code on this line)
          let pIds0 := s.pend.map (·.id)
          let kIds0 := s.park.map (·.id)
          let promoted := (s'.pend.filter (fun t => kIds0.contains t.id)).length
          let demoted := (s'.park.filter (fun t => pIds0.contains t.id)).length
          if promoted > 0 then r := r.bump "moved_parked_to_ready" promoted
          if demoted > 0 then r := r.bump "moved_ready_to_parked" demoted
          for e in s'.cache do
            if !(s.cache.any (·.1 == e.1)) then
              r := r.bump (match e.2 with
                | .expired => "removed_expired"
                | .nonceStale => "removed_stale"
                | .lowerNonce => "removed_lower_nonce_invalidated"
                | .failedExec _ => "removed_failed_execution"
                | .internal => "removed_internal"
                | .included _ _ => "removed_included")
          if s'.pend.any (fun t => match s.pend.find? (·.id == t.id) with
              | some u => u.costs != t.costs
              | none => false) then r := r.bump "recosted_ready"
          if (builderQueue s').length ≥ 4 then r := r.bump "builder_queue_ge4"
          -- ghost state of the monitors, from the op and the implementation's result
          match rest with
          | ["insert", t, cur, b, c, at_] =>
            let id := (parseLabel t).getD 0
            match st.txs[id]? with
            | some tx =>
              if ires == "pending" || ires == "parked" then
                let given := assets.map (fun k => tot (vecCosts (parseVec c)) k)
                st := { st with ccost := setKey st.ccost id given }
              st := { st with shown := setKey st.shown tx.acct cur.toNat! }
              if ires == "pending" then st := { st with vbal := setKey st.vbal tx.acct (parseVec b) }
              if ires == "pending" || ires == "parked" then
                st := { st with accepted := id :: st.accepted.filter (· != id), acked := st.acked.filter (· != id),
                                lost := st.lost.filter (· != id), seen := setKey st.seen id at_.toNat! }
            | none => pure ()
          | ["uncache", t] =>
            let id := (parseLabel t).getD 0
            st := { st with acked := id :: st.acked }
          | ["maintain", _, _, _, _] =>
            st := { st with shown := (List.range nAccts).map (fun a => (a, lookupD st.cNonce a 0)),
                            vbal := (List.range nAccts).map (fun a => (a, lookupD st.cBal a [])) }
          | _ => pure ()
          match parseDump idump with
          | none => r := r.addMonitor "dump_parse" n line "cannot parse the state dump"
          | some d =>
            -- a re-costing maintenance re-costs every transaction that survives it
            if isMaintain && rest.getD 1 "" == "1" then
              for row in d.pend ++ d.park do
                match st.txs[row.id]?, st.ccost.lookup row.id with
                | some tx, some c =>
                  let old : List (Nat × Nat) := assets.map (fun k => (k, c.getD k 0))
                  let t' := recostTx st.chain { tx with costs := old }
                  let now := assets.map (fun k => tot t'.costs k)
                  st := { st with ccost := setKey st.ccost row.id now }
                | _, _ => pure ()
            let agreed := impl == s!"{mres} | {dump s' st.txs.size}"
            for (name, msg) in checkDump st d isMaintain (if agreed then s'.dropped else []) do
              r := r.addMonitor name n line msg
            st := { st with lost := st.lost ++ (st.accepted.filter (fun i =>
              !(d.contained.contains i) && !(d.cache.any (·.1 == i)) && !(st.acked.contains i))) }
            if isMaintain && s'.dropped.length > s.dropped.length then r := r.bump "maintain_failed_move"
            if d.park.length == st.pmax && st.pmax > 0 then r := r.bump "parked_at_total_limit"
            if (List.range nAccts).any (fun a => (d.park.filter (·.acct == a)).length == 15) then
              r := r.bump "parked_at_account_limit"
            if isMaintain then
              r := r.bump "maintain_evaluated"
          st := { st with model := some s' }
    | _ => r := r.addDisagree n line "bad-area"
  return r

end Driver.MempoolArea
