import Driver.Common
import Driver.MempoolArea
/- `driver-mempool <trace-file>`: replays an implementation trace of area `mempool` through the Lean model. -/
def main (args : List String) : IO UInt32 := do
  match args with
  | [path] =>
    let text ← IO.FS.readFile path
    let lines := (text.splitOn "\n").filter (· ≠ "") |>.toArray
    let rep := Driver.MempoolArea.run lines
    rep.print
    return 0
  | _ =>
    IO.println "usage: driver-mempool <trace>"
    return 2
