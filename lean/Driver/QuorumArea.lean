import Astria.Quorum.Model
import Driver.Common
/- Area `quorum`: conductor commit-quorum check and metadata acceptance (C09), sequencer
   vote-extension validation (C15).  Signatures are tags: `-` none, `0`/`w` valid for nobody,
   `<k>` valid under key k. -/
namespace Driver.QuorumArea
open Astria.Quorum

def sigOk (k s : Nat) : Bool := k == s && s != 0

def parseVals (s : String) : Option (List Validator) :=
  if s = "." then some [] else
  (s.splitOn ",").mapM fun e =>
    match e.splitOn ":" with
    | [k, p] => do some ⟨← k.toNat?, ← p.toNat?⟩
    | _ => none

def parseSigTag (s : String) : Option (Option Nat) :=
  if s = "-" then some none
  else if s = "0" || s = "w" then some (some 0)
  else s.toNat?.map some

def parseSigs (s : String) : Option (List CommitSig) :=
  if s = "." then some [] else
  (s.splitOn ",").mapM fun e =>
    if e = "o" then some .other else
    match e.splitOn ":" with
    | ["c", a, t] => do some (.commit (← a.toNat?) (← parseSigTag t))
    | ["n", _] => some .other          -- a (validly signed) precommit for nil: not a vote for the block
    | _ => none

def errName : QErr → String
  | .heightMismatch => "height-mismatch" | .totalOverflow => "total-overflow"
  | .emptySignature => "empty-signature" | .noSuchValidator => "no-such-validator"
  | .duplicateVote => "duplicate-vote" | .badSignature => "bad-signature"
  | .exceedsTotal => "exceeds-total" | .noQuorum => "no-quorum"

/-- Spec evaluated on the implementation's verdict: the distinct validators of the set that
    have a valid signature in the commit (an upper bound of what may be counted). -/
def validSigners (vals : List Validator) (sigs : List CommitSig) : List Nat :=
  (sigs.filterMap fun
    | .commit a (some s) => match lookup vals a with
      | some v => if sigOk v.key s then some a else none
      | none => none
    | _ => none).eraseDups

def powerOfSet (vals : List Validator) (S : List Nat) : Nat :=
  (S.map fun a => match lookup vals a with | some v => v.power | none => 0).sum

/-! vote extensions (C15) -/

def parseFlag : String → Option Flag
  | "c" => some .commit | "n" => some .nil | "a" => some .absent | "u" => some .unknown
  | _ => none

/-- `addr:power:flag:ext(0|1):sigtag` -/
def parseExt (s : String) : Option (List ExtVote) :=
  if s = "." then some [] else
  (s.splitOn ",").mapM fun e =>
    match e.splitOn ":" with
    | [a, p, f, x, t] => do
      some { addr := ← a.toNat?, power := ← p.toNat?, flag := ← parseFlag f,
             extEmpty := x = "0", sig := ← parseSigTag t }
    | _ => none

/-- `addr:power:flag` -/
def parseLast (s : String) : Option (List LastVote) :=
  if s = "." then some [] else
  (s.splitOn ",").mapM fun e =>
    match e.splitOn ":" with
    | [a, p, f] => do some { addr := ← a.toNat?, power := ← p.toNat?, flag := ← parseFlag f }
    | _ => none

def parseKeys (s : String) : Option (List (Nat × Nat)) :=
  if s = "." then some [] else
  (s.splitOn ",").mapM fun e =>
    match e.splitOn ":" with
    | [a, k] => do some (← a.toNat?, ← k.toNat?)
    | _ => none

def verrName : VErr → String
  | .votedTwice => "voted-twice" | .totalOverflow => "total-overflow"
  | .missingSignature => "missing-signature" | .nonCommitExtension => "non-commit-extension"
  | .nonCommitSignature => "non-commit-signature" | .submittedOverflow => "submitted-overflow"
  | .unknownValidator => "unknown-validator" | .badSignature => "bad-signature"
  | .zeroPower => "zero-power" | .mulOverflow => "mul-overflow" | .insufficient => "insufficient"
  | .roundMismatch => "round-mismatch" | .lengthMismatch => "length-mismatch"
  | .addressMismatch => "address-mismatch" | .powerMismatch => "power-mismatch"
  | .flagMismatch => "flag-mismatch"

def run (lines : Array String) : Driver.Report := Id.run do
  let mut r : Driver.Report := {}
  let mut n := 0
  for line in lines do
    n := n + 1
    let (op, impl) := Driver.splitLine line
    match Driver.words op with
    | ["quorum", "check", hm, vs, ss] =>
      match parseVals vs, parseSigs ss with
      | some vals, some sigs =>
        let m := match ensureQuorum sigOk (hm = "1") vals sigs with
          | .ok () => "ok" | .error e => "err:" ++ errName e
        r := r.check n line impl m
        r := r.bump ("check_" ++ m)
        r := r.bump s!"check_nvals_{vals.length}"
        -- monitor: accepted ⇒ distinct valid signers hold > 2/3 of the total
        if impl = "ok" then
          let S := validSigners vals sigs
          let total := (vals.map (·.power)).sum
          if !(hm = "1") then
            r := r.addMonitor "quorum_sound" n line "accepted a commit whose height differs from the validator set's"
          else if !(3 * powerOfSet vals S > 2 * total) then
            r := r.addMonitor "quorum_sound" n line
              s!"accepted: distinct valid signers hold {powerOfSet vals S} of {total}, not more than 2/3"
          else if sigs.any (fun | .commit _ none => true | _ => false) then
            pure ()
        else if impl = "panic" then
          r := r.addMonitor "quorum_sound" n line "quorum check panicked"
      | _, _ => r := r.addDisagree n line "bad-op"
    | ["quorum", "meta", c, h] =>
      let m := if acceptMetadata true (c = "1") (h = "1") then "accept" else "drop"
      r := r.check n line impl m
      r := r.bump ("meta_" ++ m)
      if impl = "accept" && !(c = "1" && h = "1") then
        r := r.addMonitor "metadata_bound" n line "metadata accepted although chain id / block hash differ from the commit's"
    | ["quorum", "fetchmeta", hm, vs, ss, c, h] =>
      match parseVals vs, parseSigs ss with
      | some vals, some sigs =>
        let q := match ensureQuorum sigOk (hm = "1") vals sigs with | .ok () => true | .error _ => false
        let m := if acceptMetadata q (c = "1") (h = "1") then "accept" else "drop"
        r := r.check n line impl m
        r := r.bump ("fetchmeta_" ++ m)
        if impl = "accept" then
          let S := validSigners vals sigs
          let total := (vals.map (·.power)).sum
          if !(c = "1" && h = "1") then
            r := r.addMonitor "metadata_bound" n line "metadata accepted although chain id / block hash differ from the commit's"
          if !(hm = "1") || !(3 * powerOfSet vals S > 2 * total) then
            r := r.addMonitor "quorum_sound" n line
              s!"metadata accepted: distinct valid signers of the fetched commit hold {powerOfSet vals S} of {total}"
        else if impl ≠ "drop" then
          r := r.addMonitor "quorum_sound" n line s!"metadata verification did not return: {impl}"
      | _, _ => r := r.addDisagree n line "bad-op"
    | ["quorum", "proposal", height, rm, keys, last, ext] =>
      match height.toNat?, parseKeys keys, parseLast last, parseExt ext with
      | some hgt, some ks, some ls, some es =>
        let keyOf := fun a => (ks.find? (·.1 = a)).map (·.2)
        let m := match validateProposal sigOk keyOf hgt (rm = "1") ls es with
          | .ok () => "ok" | .error e => "err:" ++ verrName e
        r := r.check n line impl m
        r := r.bump ("proposal_" ++ m)
        r := r.bump s!"proposal_nvotes_{es.length}"
        -- monitor (C15): accepted non-empty extended commit ⇒ matchesLast last commit, all commit
        -- votes validly signed by the attributed validator, distinct, > 2/3 of listed power
        if impl = "ok" && hgt ≠ 1 && !es.isEmpty then
          let total := (es.map (·.power)).sum
          let commits := es.filter (·.flag = .commit)
          let signedOk := commits.all fun v => match v.sig, keyOf v.addr with
            | some s, some k => sigOk k s | _, _ => false
          let submitted := (commits.map (·.power)).sum
          let distinctV := (es.map (·.addr)).eraseDups.length = es.length
          let matchesLast := ls.length = es.length && (ls.zip es).all fun (l, e) =>
            l.addr = e.addr && l.power = e.power &&
              (e.flag = l.flag || (e.flag = .absent && e.extEmpty && e.sig.isNone))
          if !(rm = "1") then r := r.addMonitor "ve_accept_sound" n line "accepted with a round mismatch"
          else if !matchesLast then r := r.addMonitor "ve_accept_sound" n line "accepted although the extended commit does not match the last commit"
          else if !signedOk then r := r.addMonitor "ve_accept_sound" n line "accepted an extension not validly signed by its validator"
          else if !distinctV then r := r.addMonitor "ve_accept_sound" n line "accepted a repeated voter"
          else if !(3 * submitted > 2 * total) then
            r := r.addMonitor "ve_accept_sound" n line s!"accepted with {submitted} of {total} voting power"
        if impl ≠ "ok" && (es.isEmpty && rm = "1") then
          r := r.addMonitor "ve_empty_ok" n line "an empty extended commit (matching round) was rejected"
        if impl = "panic" then r := r.addMonitor "ve_accept_sound" n line "validate_proposal panicked"
      | _, _, _, _ => r := r.addDisagree n line "bad-op"
    | ["quorum", "pricelen", len] =>
      match len.toNat? with
      | some k =>
        let m := s!"verify={if verifyAcceptsPriceLen k then "accept" else "reject"} finalize={if priceDecodes k then "ok" else "err"}"
        r := r.check n line impl m
        r := r.bump (if verifyAcceptsPriceLen k && !priceDecodes k then "pricelen_accepted_not_decodable" else "pricelen_consistent")
      | none => r := r.addDisagree n line "bad-op"
    | _ => r := r.addDisagree n line "bad-area"
  return r

end Driver.QuorumArea
