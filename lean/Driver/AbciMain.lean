import Driver.Common
import Driver.AbciArea
/- `driver-abci <trace-file>`: replays an implementation trace of area `abci` through the Lean model. -/
def main (args : List String) : IO UInt32 := do
  match args with
  | [path] =>
    let text ← IO.FS.readFile path
    let lines := (text.splitOn "\n").filter (· ≠ "") |>.toArray
    let rep := Driver.AbciArea.run lines
    rep.print
    return 0
  | _ =>
    IO.println "usage: driver-abci <trace>"
    return 2
