import Driver.Common
import Driver.MerkleArea
import Driver.ComposerArea
import Driver.CoreArea
import Driver.QuorumArea
/- `astria-driver <trace-file>`: replays an implementation trace through the Lean model of
   the area named by the first token of the first line; prints DISAGREE / MONITOR / STAT. -/
def main (args : List String) : IO UInt32 := do
  match args with
  | [path] =>
    let text ← IO.FS.readFile path
    let lines := (text.splitOn "\n").filter (· ≠ "") |>.toArray
    if lines.isEmpty then
      IO.println "STAT lines 0"
      return 0
    let area := (Driver.words lines[0]!).headD ""
    let rep ← match area with
      | "merkle" => pure (Driver.MerkleArea.run lines)
      | "composer" => pure (Driver.ComposerArea.run lines)
      | "core" => pure (Driver.CoreArea.run lines)
      | "quorum" => pure (Driver.QuorumArea.run lines)
      | _ => do IO.println s!"unknown area {area}"; return 2
    rep.print
    return 0
  | _ =>
    IO.println "usage: astria-driver <trace>"
    return 2
