import Astria.RelayerCrash.Model
import Driver.Common
/- Area `crash` (property C11): replays the controller steps of the crash/restart harness through
   `Astria.RelayerCrash.step`, compares result + complete observable state line by line, and
   evaluates the C11 spec on what the implementation (state file, fake Celestia chain) reported. -/
namespace Driver.CrashArea
open Astria.RelayerCrash

def fmtSub (l : Sub) : String := s!"{l.ch}:{l.sh}"

def fmtSt : FileSt → String
  | .fresh => "fresh"
  | .started l => s!"started:{fmtSub l}"
  | .prepared h l t => s!"prepared:{h}:{fmtSub l}:t{t}"

def fmtContent (missing : String) : Option Content → String
  | none => missing
  | some .bad => "bad"
  | some (.ok st) => fmtSt st

def joinOr (xs : List String) : String := if xs.isEmpty then "-" else ",".intercalate xs

def fmtTx (w : World) (t : Nat) : String :=
  let hs := match w.txs.find? (·.id = t) with
    | some tx => tx.hs
    | none => []
  s!"t{t}[{",".intercalate (hs.map toString)}]"

def fmtOpt : Option Nat → String
  | none => "-"
  | some n => toString n

def pendOf (w : World) : List String :=
  match w.proc with
  | none => []
  | some p =>
    (match p.inflight with | some h => [s!"fetch:{h}"] | none => []) ++
    (match p.ongoing with | .bcast _ t => [s!"bcast:{fmtTx w t}"] | _ => []) ++
    (match p.ongoing with | .cget _ t | .fget _ t => [s!"gettx:t{t}"] | _ => []) ++
    (match p.su with | .lget _ _ t => [s!"gettx:t{t}"] | _ => [])

def dump (w : World) : String :=
  let procS := match w.proc with
    | none => "down"
    | some p => s!"up obs={fmtOpt p.observed} req={fmtOpt p.requested} fet={fmtOpt p.fetched} cc={fmtOpt p.cc}"
  s!"file={fmtContent "missing" w.file} tmp={fmtContent "-" w.tmp} pend={joinOr (pendOf w)} " ++
  s!"mem={joinOr (w.mempool.map (fmtTx w))} " ++
  s!"chain={joinOr (w.chain.map (fun e => s!"{e.1}:{fmtTx w e.2}"))} latest={w.latest} np={w.np} proc={procS}"

/-- name of the await the process is blocked at (statistics: which crash points were hit) -/
def phase (w : World) : String :=
  match w.proc with
  | none => "down"
  | some p =>
    match p.boot with
    | .read => "boot_read" | .wTmp _ => "boot_wtmp" | .wRen _ => "boot_wren"
    | .up =>
      match p.su with
      | .lsleep .. => "last_sleep" | .lget .. => "last_get" | .lwTmp _ => "last_wtmp" | .lwRen _ => "last_wren"
      | .loop =>
        match p.ongoing with
        | .none => "idle" | .wPrepTmp _ => "prep_wtmp" | .wPrepRen .. => "prep_wren" | .bcast .. => "bcast"
        | .csleep .. => "conf_sleep" | .cget .. => "conf_get" | .wStartTmp .. => "start_wtmp"
        | .wStartRen .. => "start_wren" | .backoff _ => "backoff" | .fsleep .. => "fconf_sleep"
        | .fget .. => "fconf_get"

def heldGetTx (w : World) : Option Nat :=
  match w.proc with
  | none => none
  | some p =>
    match p.su, p.ongoing with
    | .lget _ _ t, _ => some t
    | .loop, .cget _ t => some t
    | .loop, .fget _ t => some t
    | _, _ => none

def hasSleeper (p : Proc) : Bool :=
  match p.su, p.ongoing with
  | .lsleep .., _ => true
  | .loop, .csleep .. => true
  | .loop, .fsleep .. => true
  | .loop, .backoff _ => true
  | _, _ => false

/-- what the harness prints as the result of the step -/
def resultOf (w : World) (a : Action) (w' : World) : String :=
  let exitS :=
    match w.proc, w'.proc with
    | some p, none => if p.boot = .read then " exit:unreadable" else " exit:submitter"
    | _, _ => ""
  match a with
  | .bump _ => "ok"
  | .include t | .drop t => if t ∈ w.mempool then "ok" else "err:not-in-mempool"
  | .corruptTmp _ | .tamperFile _ => if w.proc.isSome then "err:up" else "ok"
  | .restart => if w.proc.isSome then "err:up" else "ok"
  | .crash => if w.proc.isSome then "ok" else "err:down"
  | _ =>
    match w.proc with
    | none => "err:down"
    | some p =>
      match a with
      | .fs => "ok" ++ exitS
      | .fetch => if p.inflight.isSome then "ok" ++ exitS else "err:none"
      | .bcast _ => (match p.ongoing with | .bcast .. => "ok" ++ exitS | _ => "err:none")
      | .gettx m =>
        (match heldGetTx w with
         | none => "err:none"
         | some t =>
           (match m, w.confirmedAt t with
            | .err, _ => "error"
            | _, some _ => "confirmed"
            | .h0, none => "pending"
            | .truth, none => "unknown") ++ exitS)
      | .giveup =>
        (match heldGetTx w with
         | none => "err:none"
         | some t =>
           if (w.confirmedAt t).isSome then "err:confirmed"
           else (match p.su, p.ongoing with
                 | .loop, .cget .. => "stuck"
                 | _, _ => "ok") ++ exitS)
      | .expire => "idle" ++ exitS
      | .wait =>
        if p.celestiaHeld then "err:busy"
        else (if hasSleeper p then "ok" else "idle") ++ exitS
      | _ => "?"

/-! ### parsing what the implementation reported -/

structure IState where
  file : String
  tmp : String
  chain : List (List Nat)     -- heights of each confirmed tx
  procUp : Bool

def parseSt (s : String) : Option FileSt :=
  match s.splitOn ":" with
  | ["fresh"] => some .fresh
  | ["started", c, h] => some (.started ⟨c.toNat!, h.toNat!⟩)
  | ["prepared", h, c, s, t] => some (.prepared h.toNat! ⟨c.toNat!, s.toNat!⟩ (t.drop 1).toString.toNat!)
  | _ => none

def field (ws : List String) (key : String) : String :=
  match ws.find? (·.startsWith (key ++ "=")) with
  | some w => (w.drop (key.length + 1)).toString
  | none => ""

def parseHeights (s : String) : List Nat :=
  -- "11:t1[1,2]" → [1,2]
  match s.splitOn "[" with
  | [_, b] =>
    let inner := (b.dropEnd 1).toString
    if inner = "" then [] else (inner.splitOn ",").map String.toNat!
  | _ => []

/-- chain entries are separated by commas, and so are the heights inside `[...]` -/
def splitEntries (s : String) : List String :=
  if s = "-" then [] else
  let parts := s.splitOn "]"
  (parts.filter (· ≠ "")).map (fun p => (if p.startsWith "," then (p.drop 1).toString else p) ++ "]")

def parseDump (s : String) : IState :=
  let ws := Driver.words s
  { file := field ws "file", tmp := field ws "tmp",
    chain := (splitEntries (field ws "chain")).map parseHeights,
    procUp := field ws "proc" = "up" }

def splitRes (impl : String) : String × String :=
  match impl.splitOn " | " with
  | [a, b] => (a, b)
  | _ => (impl, "")

structure St where
  w : World := {}
  base : Nat := 0
  tampered : Bool := false
  saved : Option (Option Content) := none
  started : Bool := false
  /-- number the harness gave to the foreign hash of `tamper badprep` (first use per session) -/
  foreign : Option Nat := none

def corruption (foreign : Nat) (kind : String) : Option Content :=
  match kind with
  | "none" => none
  | "stale" => some (.ok (.started ⟨9, 1000000⟩))
  | "badprep" => some (.ok (.prepared 3 ⟨9, 3⟩ foreign))
  | _ => some .bad

def parseAction (ws : List String) : Option Action :=
  match ws with
  | ["restart", _] | ["restart"] => some .restart
  | ["crash"] => some .crash
  | ["fs"] => some .fs
  | ["fetch"] => some .fetch
  | ["bcast", "ok"] => some (.bcast .ok)
  | ["bcast", "lost"] => some (.bcast .lost)
  | ["bcast", "timeout-acc"] => some (.bcast (.timeout true))
  | ["bcast", "timeout-noacc"] => some (.bcast (.timeout false))
  | ["bcast", _] => some (.bcast .reject)
  | ["gettx", "truth"] => some (.gettx .truth)
  | ["gettx", "h0"] => some (.gettx .h0)
  | ["gettx", "err"] | ["gettx", "code5"] | ["gettx", "empty"] | ["gettx", "negative"] => some (.gettx .err)
  | ["giveup"] => some .giveup
  | ["wait"] => some .wait
  | ["bump", n] => some (.bump n.toNat!)
  | ["include", t] => some (.include (t.drop 1).toString.toNat!)
  | ["drop", t] => some (.drop (t.drop 1).toString.toNat!)
  | "corrupttmp" :: kind :: _ => some (.corruptTmp (corruption 0 kind))
  | _ => none

def run (lines : Array String) : Driver.Report := Id.run do
  let mut r : Driver.Report := {}
  -- monitor lines are collected apart and printed first: the shared output cap must not let a
  -- flood of disagreement lines hide a monitor failure
  let mut m : Driver.Report := {}
  let mut st : St := {}
  let mut n := 0
  for line in lines do
    n := n + 1
    let (op, impl) := Driver.splitLine line
    let (_, idump) := splitRes impl
    match Driver.words op with
    | ["crash", "reset", b] =>
      let w := init b.toNat! 5
      st := { w := w, base := b.toNat!, started := true }
      r := r.check n line impl s!"ok | {dump w}"
      r := r.bump "sessions"
    | "crash" :: rest =>
      if !st.started then
        r := r.addDisagree n line "no-session"
      else
        let w := st.w
        -- model step
        let (w', res, tampered, saved, foreign) : World × String × Bool × Option (Option Content) × Option Nat :=
          match rest with
          | "tamper" :: kind :: _ =>
            if w.proc.isSome then (w, "err:up", st.tampered, st.saved, st.foreign)
            else if kind = "restore" then
              match st.saved with
              | some c => (step w (.tamperFile c), "ok", false, none, st.foreign)
              | none => (w, "err:nosave", st.tampered, st.saved, st.foreign)
            else
              -- a foreign hash in the state file takes the next transaction number (once)
              let (w1, fid, foreign) := match kind, st.foreign with
                | "badprep", none =>
                  ({ w with txs := w.txs ++ [⟨w.txs.length + 1, []⟩] }, w.txs.length + 1, some (w.txs.length + 1))
                | _, some f => (w, f, some f)
                | _, none => (w, 0, none)
              let saved := match st.saved with | some s => some s | none => some w.file
              (step w1 (.tamperFile (corruption fid kind)), "ok", true, saved, foreign)
          | ["torn"] =>
            -- the queued fs operation runs, the process dies in the middle of it; a temp-file
            -- write leaves a truncated temp file, a rename / read leaves nothing special
            (match w.proc with
             | none => (w, "err:down", st.tampered, st.saved, st.foreign)
             | some _ =>
               let w1 := step w .fs
               if w1.proc.isNone then (w1, "ok:none" ++ (resultOf w .fs w1).drop 2, st.tampered, st.saved, st.foreign)
               else
                 let tmpWrite := ["boot_wtmp", "last_wtmp", "prep_wtmp", "start_wtmp"].contains (phase w)
                 let w2 := step w1 .crash
                 if tmpWrite then (step w2 (.corruptTmp (some .bad)), "ok:tmp", st.tampered, st.saved, st.foreign)
                 else (w2, "ok:none", st.tampered, st.saved, st.foreign))
          | _ =>
            match parseAction rest with
            | some a0 =>
              -- durations are not modelled: whether a bounded confirmation expires during a
              -- (stretched) poll interval is read off the implementation's answer
              let timedSleep := match w.proc with
                | some p => (match p.su, p.ongoing with
                  | .lsleep .., _ => !p.celestiaHeld
                  | .loop, .fsleep .. => true
                  | _, _ => false)
                | none => false
              let isWait := match a0 with | .wait => true | _ => false
              let a := if isWait && timedSleep && impl.startsWith "idle" then Action.expire else a0
              let w' := step w a
              (w', resultOf w a w', st.tampered, st.saved, st.foreign)
            | none => (w, "bad-op", st.tampered, st.saved, st.foreign)
        r := r.check n line impl s!"{res} | {dump w'}"
        r := r.bump s!"op_{rest.headD ""}"
        r := r.bump s!"res_{(res.splitOn " ").headD ""}"
        if res.endsWith "exit:unreadable" then r := r.bump "exit_unreadable"
        if res.endsWith "exit:submitter" then r := r.bump "exit_submitter"
        if rest.headD "" = "crash" ∧ res = "ok" then r := r.bump s!"crash_at_{phase w}"
        if rest.headD "" = "torn" ∧ res.startsWith "ok" then r := r.bump s!"torn_at_{phase w}"
        if rest.headD "" = "fs" ∧ res.startsWith "ok" then r := r.bump s!"fs_at_{phase w}"
        if rest.headD "" = "bcast" ∧ res.startsWith "ok" then r := r.bump s!"bcast_{rest.getD 1 ""}"
        if rest.headD "" = "gettx" then r := r.bump s!"gettx_{res}_at_{phase w}"
        if rest.headD "" = "giveup" then r := r.bump s!"giveup_{res}_at_{phase w}"
        if rest.headD "" = "wait" ∧ res.startsWith "idle" ∧ (phase w = "last_sleep" ∨ phase w = "fconf_sleep") then
          r := r.bump s!"expire_at_{phase w}"
        if rest.headD "" = "restart" ∧ res = "ok" then
          r := r.bump s!"restart_file_{(fmtContent "missing" w.file |>.splitOn ":").headD ""}_tmp_{(fmtContent "-" w.tmp |>.splitOn ":").headD ""}"
        -- monitors: the C11 spec on the implementation's own report
        let i := parseDump idump
        let conf := confirmedHeights i.chain
        if !gapFree st.base conf then
          m := m.addMonitor "no_gap" n line s!"heights confirmed on the fake Celestia chain {conf} have a gap above {st.base}"
        if !tampered then
          match parseSt i.file with
          | none =>
            m := m.addMonitor "file_parseable" n line s!"state file is `{i.file}`: not a complete parseable state"
          | some fst =>
            let wf := match fst with
              | .prepared h l _ => decide (l.sh < h)
              | _ => true
            if !wf then
              m := m.addMonitor "file_parseable" n line s!"state file `{i.file}` holds a prepared height <= its last submitted height"
            if !coveredUpTo st.base conf fst.last then
              m := m.addMonitor "recorded_confirmed" n line
                s!"state file records sequencer height {fst.last} as submitted, confirmed on the fake chain: {conf}"
        st := { st with w := w', tampered := tampered, saved := saved, foreign := foreign }
    | _ => r := r.addDisagree n line "bad-area"
  return { r with monitorFail := m.monitorFail, mon := m.mon }

end Driver.CrashArea
