import Astria.Quorum.Model
import Driver.Common
/- Area `core`: pure functions of astria-core. -/
namespace Driver.CoreArea
open Astria.Quorum

def parseInts (s : String) : Option (List Int) :=
  if s = "." then some [] else (s.splitOn ",").mapM String.toInt?

def run (lines : Array String) : Driver.Report := Id.run do
  let mut r : Driver.Report := {}
  let mut n := 0
  for line in lines do
    n := n + 1
    let (op, impl) := Driver.splitLine line
    match Driver.words op with
    | ["core", "median", ps] =>
      match parseInts ps with
      | none => r := r.addDisagree n line "bad-op"
      | some xs =>
        let m := match median xs with | some v => toString v | none => "none"
        r := r.check n line impl m
        r := r.bump s!"median_len_{xs.length}"
        if xs.any (· < 0) then r := r.bump "median_with_negative"
        -- monitor: the published price lies within the reported range
        match impl.toInt? with
        | some v =>
          let lo := xs.foldl min (xs.headD 0)
          let hi := xs.foldl max (xs.headD 0)
          if !(lo ≤ v ∧ v ≤ hi) then
            r := r.addMonitor "median_in_range" n line s!"median {v} outside [{lo}, {hi}]"
        | none =>
          if impl = "panic" then r := r.addMonitor "median_in_range" n line "median panicked"
          else if !xs.isEmpty then r := r.addMonitor "median_in_range" n line "no median for a non-empty list"
    | _ => r := r.addDisagree n line "bad-area"
  return r

end Driver.CoreArea
