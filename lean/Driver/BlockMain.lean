import Driver.Common
import Driver.BlockArea
/- `driver-block <trace-file>`: replays an implementation trace of area `block` through the Lean model. -/
def main (args : List String) : IO UInt32 := do
  match args with
  | [path] =>
    let text ← IO.FS.readFile path
    let lines := (text.splitOn "\n").filter (· ≠ "") |>.toArray
    let rep := Driver.BlockArea.run lines
    rep.print
    return 0
  | _ =>
    IO.println "usage: driver-block <trace>"
    return 2
