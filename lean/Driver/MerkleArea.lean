import Astria.Merkle.Model
import Astria.Prelude.Sha256
import Astria.Prelude.Hex
import Driver.Common
/- Area `merkle`: replays the harness trace through `Astria.Merkle` with real SHA-256. -/
namespace Driver.MerkleArea
open Astria Astria.Merkle Astria.Merkle.Flat

abbrev Bytes := List UInt8

def sha : HashFns Bytes Bytes where
  leaf x := Sha256.hashList (0 :: x)
  node l r := Sha256.hashList (1 :: (l ++ r))
  empty := Sha256.hashList []

def fmtParent : Parent → String
  | .parent p => toString p
  | _ => "panic"

def fmtOut : Outcome Nat → String
  | .value v => toString v
  | .panic => "panic"

def parseLeaves (s : String) : Option (List Bytes) :=
  if s = "." then some [] else (s.splitOn ",").mapM Hex.decode?

def chunks32 : Nat → Bytes → List Bytes
  | 0, _ => []
  | f + 1, bs => if bs.isEmpty then [] else bs.take 32 :: chunks32 f (bs.drop 32)

def errName : ProofError → String
  | .zeroTreeSize => "zero-tree-size"
  | .leafIndexOutsideTree => "leaf-index-outside-tree"
  | .auditPathNotMultipleOf32 => "audit-path-not-multiple-of-32"
  | .auditPathTooLong => "audit-path-too-long"

def decodeRes (len li ts : Nat) : String :=
  match checkRaw ⟨len, li, ts⟩ with
  | .panic => "panic"
  | .value (.ok ()) => "ok"
  | .value (.error e) => s!"err:{errName e}"

/-- Model result for one op (tokens after the area name). -/
def model (t : List String) : String :=
  match t with
  | ["idx", "pp", i] => match perfectParent i.toNat! with | some p => toString p | none => "panic"
  | ["idx", "cp", i, n] => fmtParent (completeParent i.toNat! n.toNat!)
  | ["idx", "root", n] => fmtOut (completeRoot n.toNat!)
  | ["idx", "lc", p] => fmtOut (leftChild p.toNat!)
  | ["idx", "rc", p, n] => fmtOut (rightChild p.toNat! n.toNat!)
  | ["idx", "ps", i, n] =>
    match parentAndSibling i.toNat! n.toNat! with
    | .value (p, s) => s!"{p},{s}"
    | .panic => "panic"
  | ["tree", "root", ls] =>
    match parseLeaves ls with
    | none => "bad-op"
    | some leaves =>
      match Tree.fromLeaves sha leaves with
      | .panic => "panic"
      | .value t => match t.root sha with | .value r => Hex.encode r | .panic => "panic"
  | ["tree", "proof", ls, i] =>
    match parseLeaves ls with
    | none => "bad-op"
    | some leaves =>
      match Tree.fromLeaves sha leaves with
      | .panic => "panic"
      | .value t =>
        match t.constructProof i.toNat! with
        | .panic => "panic"
        | .value none => "none"
        | .value (some π) => s!"{Hex.encodeOrDash π.path.flatten} {π.leafIndex} {π.treeSize}"
  | ["proof", "decode", len, li, ts] => decodeRes len.toNat! li.toNat! ts.toNat!
  | ["proof", _, path, li, ts, leaf, root] =>
    match Hex.decode? path, Hex.decode? leaf, Hex.decode? root with
    | some pb, some lf, some rt =>
      match decodeRes pb.length li.toNat! ts.toNat! with
      | "ok" =>
        let π : Proof Bytes := ⟨chunks32 (pb.length + 1) pb, li.toNat!, ts.toNat!⟩
        match π.verify sha lf rt with
        | .panic => "panic"
        | .value b => toString b
      | e => e
    | _, _, _ => "bad-op"
  | _ => "bad-op"

/-- RFC 6962 reference (spec layer) evaluated next to the flat model: root and path. -/
def rfcCross (t : List String) (impl : String) : Option String :=
  match t with
  | ["tree", "root", ls] =>
    match parseLeaves ls with
    | some leaves =>
      if leaves.length ≤ 300 then
        let r := Hex.encode (Rfc.mth sha leaves)
        if r = impl then none else some s!"rfc-mth={r}"
      else none
    | none => none
  | ["tree", "proof", ls, i] =>
    match parseLeaves ls with
    | some leaves =>
      let i := i.toNat!
      if leaves.length ≤ 300 ∧ i < leaves.length then
        let p := Hex.encodeOrDash (Rfc.path sha i leaves).flatten
        let want := s!"{p} {i} {2 * leaves.length - 1}"
        if want = impl then none else some s!"rfc-path={want}"
      else none
    | none => none
  | _ => none

def run (lines : Array String) : Driver.Report := Id.run do
  let mut r : Driver.Report := {}
  let mut n := 0
  for line in lines do
    n := n + 1
    let (op, impl) := Driver.splitLine line
    match Driver.words op with
    | "merkle" :: t =>
      let m := model t
      r := r.check n line impl m
      r := r.bump s!"op_{t.headD ""}_{(t.drop 1).headD ""}"
      if impl = "panic" ∨ impl = "ok" ∨ impl = "true" ∨ impl = "false" ∨ impl = "none" ∨ impl.startsWith "err:" then
        r := r.bump s!"res_{impl}"
      -- monitors (the decidable Spec evaluated on what the implementation returned)
      if impl = "panic" ∧ t.headD "" = "proof" then
        r := r.addMonitor "decode_verify_total" n line "decoding/verifying a wire proof panicked"
      if impl = "panic" ∧ t.headD "" = "tree" then
        r := r.addMonitor "tree_total" n line "building a tree / proof panicked"
      if t.take 2 = ["proof", "verifymut"] ∧ impl = "true" then
        r := r.addMonitor "mutation_rejected" n line "a mutated proof/leaf/root verified"
      match rfcCross t impl with
      | some msg => r := r.addMonitor "root_is_rfc6962" n line msg
      | none => pure ()
      if t.take 2 = ["proof", "verify"] ∧ impl = "true" then r := r.bump "verify_true"
      if t.take 2 = ["proof", "verify"] ∧ impl = "false" then r := r.bump "verify_false"
    | _ => r := r.addDisagree n line "bad-area"
  return r

end Driver.MerkleArea
