import Driver.Common
import Driver.LedgerArea
/- `driver-ledger <trace-file>`: replays an implementation trace of area `ledger` through the Lean model. -/
def main (args : List String) : IO UInt32 := do
  match args with
  | [path] =>
    let text ← IO.FS.readFile path
    let lines := (text.splitOn "\n").filter (· ≠ "") |>.toArray
    let rep := Driver.LedgerArea.run lines
    rep.print
    return 0
  | _ =>
    IO.println "usage: driver-ledger <trace>"
    return 2
