import Astria.Relayer.Model
import Driver.Common
/- Area `batch` (property C12): replays the relayer batching trace through `Astria.Relayer`
   (correspondence) and evaluates the C12 spec on what the implementation reported (monitors).

   The compressed size of a candidate payload is not modelled: the trace carries it
   (`cand=` / `hcand=`, computed by the harness with the real brotli on the reference entry
   lists) and the model's `csize` oracle is instantiated with it for that step. -/
namespace Driver.BatchArea
open Astria.Relayer

def LIMIT : Nat := 1000000

/-- `namespace_v0_from_rollup_id`: the first 10 bytes of the id (20 hex characters). -/
def nsOf (r : String) : String := (r.take 20).toString

def insertStr (x : String) : List String → List String
  | [] => [x]
  | y :: ys => if x < y then x :: y :: ys else y :: insertStr x ys

def sortStr (l : List String) : List String := l.foldl (fun acc x => insertStr x acc) []

def joinOr (sep : String) (l : List String) : String := if l.isEmpty then "-" else sep.intercalate l

/-! ### text of model values (must equal the harness' text) -/

def blockText (b : Block) : String :=
  let rs := joinOr "+" (b.rollups.map (fun e => s!"{e.rollup}.{e.digest}"))
  s!"{b.md.height}:{b.md.chainNs}:{b.md.digest}:{rs}"

def blobText (b : Blob) : String :=
  match b.body with
  | .metaList es => s!"{b.ns}:M:{"+".intercalate (es.map (fun m => s!"{m.height}.{m.digest}"))}"
  | .rollupList es => s!"{b.ns}:R:{"+".intercalate (es.map (fun e => s!"{e.rollup}.{e.digest}"))}"

def blobsText (bs : List Blob) : String :=
  match bs with
  | [] => ""
  | b :: rest => ";".intercalate (blobText b :: sortStr (rest.map blobText))

def addResText : AddRes → String
  | .ok => "ok"
  | .full _ => "full"
  | .oversized h sz => s!"err:oversized:{h}:{sz}"
  | .intoPayload _ => "err:into-payload"

def pendText (s : Sub) : String :=
  match s.pending with
  | some b => toString b.height
  | none => "-"

def subText (sub : Submission) : String :=
  let i := sub.input
  let hs := joinOr "," (i.heights.map toString)
  let incl := joinOr "," (sortStr (i.included.map (fun p => s!"{p.1}>{p.2}")))
  let excl := joinOr "," (sortStr i.excluded)
  s!"nb={i.metadata.length} nblobs={sub.payload.blobs.length} gh={sub.greatest} hs={hs} csz={sub.payload.size} seqns={i.seqNs.getD "-"} incl={incl} excl={excl} blobs={blobsText sub.payload.blobs}"

/-! ### parsing what the implementation reported -/

def parseEntries (s : String) : List RData :=
  if s = "-" ∨ s = "" then [] else
  (s.splitOn "+").filterMap (fun e => match e.splitOn "." with
    | [r, d] => some ⟨r, d⟩
    | _ => none)

/-- `<height>:<chain ns>:<metadata digest>:<rollup>.<digest>+…` -/
def parseBlock (s : String) : Option Block :=
  match s.splitOn ":" with
  | [h, c, d, rs] => some ⟨⟨h.toNat!, c, d⟩, parseEntries rs⟩
  | _ => none

def field (ws : List String) (key : String) : Option String :=
  match ws.find? (fun w => w.startsWith (key ++ "=")) with
  | some w => some (w.drop (key.length + 1)).toString
  | none => none

structure IBlob where
  ns : String
  kind : String
  metas : List (Nat × String) := []
  datas : List RData := []

def parseBlob (s : String) : IBlob :=
  match s.splitOn ":" with
  | [ns, "M", es] =>
    { ns := ns, kind := "M",
      metas := if es = "" then [] else (es.splitOn "+").filterMap (fun e => match e.splitOn "." with
        | [h, d] => some (h.toNat!, d)
        | _ => none) }
  | [ns, "R", es] => { ns := ns, kind := "R", datas := parseEntries es }
  | ns :: _ => { ns := ns, kind := "X" }
  | [] => { ns := "", kind := "X" }

def parseNatList (s : String) : List Nat :=
  if s = "-" ∨ s = "" then [] else (s.splitOn ",").map String.toNat!

def isStrictlyIncreasing : List Nat → Bool
  | [] => true
  | [_] => true
  | a :: b :: rest => decide (a < b) && isStrictlyIncreasing (b :: rest)

/-- session state of the driver: the model and the ghost history of the IMPLEMENTATION -/
structure St where
  active : Bool := false
  filter : List String := []
  sub : Sub := {}
  -- implementation-side ghost state (built only from what the implementation reported)
  gNext : List Block := []        -- blocks the implementation accepted into the current batch
  gPend : Option Block := none    -- block the implementation reported as pending
  gFailed : Bool := false
  gAccHeights : List Nat := []    -- heights of all accepted blocks, in order
  gEmitHeights : List Nat := []   -- heights of all emitted metadata entries, in order

def cfgOf (st : St) (oracle : Option Nat) : Cfg :=
  { filter := st.filter, ns := nsOf, csize := fun _ => oracle, max := LIMIT }

def cmpPart (impl : String) : String × String :=
  match impl.splitOn " # " with
  | [a, b] => (a, b)
  | _ => (impl, "")

/-- spec of one submission, evaluated on the implementation's own report -/
def checkSubmission (r : Driver.Report) (n : Nat) (line : String) (st : St)
    (ws extra : List String) : Driver.Report := Id.run do
  let mut r := r
  let blobs := ((field ws "blobs").getD "").splitOn ";" |>.map parseBlob
  let nb := ((field ws "nb").getD "0").toNat!
  let csz := ((field ws "csz").getD "0").toNat!
  let gh := ((field ws "gh").getD "0").toNat!
  let hs := parseNatList ((field ws "hs").getD "-")
  let seqns := (field ws "seqns").getD "-"
  let metas := (blobs.filter (·.kind = "M")).flatMap (·.metas)
  let want := st.gNext.map (fun b => (b.md.height, b.md.digest))
  -- exactly once (metadata = one entry per accepted block, in order, whatever the filter)
  if metas ≠ want ∨ nb ≠ st.gNext.length then
    r := r.addMonitor "exactly_once" n line s!"submission holds {metas.map (·.1)} (nb={nb}) but the batch was handed {want.map (·.1)}"
  match blobs with
  | first :: _ =>
    if first.kind ≠ "M" ∨ first.ns ≠ seqns then
      r := r.addMonitor "exactly_once" n line "first blob is not the metadata list under the sequencer namespace"
  | [] => r := r.addMonitor "exactly_once" n line "submission without blobs"
  -- filter: per namespace exactly the included rollups' entries, in order; nothing else
  let nss := (blobs.filter (·.kind = "R")).map (·.ns)
  let allNs := (st.gNext.flatMap (fun b => (b.rollups.filter (fun e => shouldInclude st.filter e.rollup)).map (fun e => nsOf e.rollup))).eraseDups
  for ns in (nss ++ allNs).eraseDups do
    let got := (blobs.filter (fun b => b.kind = "R" ∧ b.ns = ns)).flatMap (·.datas)
    let exp := st.gNext.flatMap (fun b => b.rollups.filter (fun e => shouldInclude st.filter e.rollup && decide (nsOf e.rollup = ns)))
    if got ≠ exp then
      r := r.addMonitor "filter_only_drops_data" n line s!"namespace {ns}: {got.length} entries in the blobs, {exp.length} expected from the filter"
  if nss.length ≠ nss.eraseDups.length then
    r := r.addMonitor "filter_only_drops_data" n line "two rollup blobs under one namespace"
  -- heights
  let mh := metas.map (·.1)
  let mx := mh.foldl Nat.max 0
  if gh ≠ mx ∨ ¬ isStrictlyIncreasing hs ∨ ¬ (mh.all (hs.contains ·)) ∨ ¬ (hs.all (mh.contains ·)) then
    r := r.addMonitor "height_order" n line s!"greatest={gh} heights={hs} but metadata heights are {mh}"
  if isStrictlyIncreasing st.gAccHeights ∧ ¬ isStrictlyIncreasing (st.gEmitHeights ++ mh) then
    r := r.addMonitor "height_order" n line s!"accepted heights increase but emitted ones do not: {st.gEmitHeights ++ mh}"
  -- size bound on the REAL compressed size
  let real := ((field extra "real").getD "0").toNat!
  let usz := ((field extra "usz").getD "0").toNat!
  let ureal := ((field extra "ureal").getD "1").toNat!
  if csz > LIMIT ∨ real > LIMIT then
    r := r.addMonitor "size_bound" n line s!"compressed payload {csz} (sum of blob sizes {real}) exceeds {LIMIT}"
  if csz ≠ real ∨ usz ≠ ureal then
    r := r.addMonitor "size_bound" n line s!"accounted sizes {csz}/{usz} differ from the blobs' {real}/{ureal}"
  -- decode round trip, per block
  let dec := (field extra "dec").getD "-"
  let decs := if dec = "-" then [] else dec.splitOn ","
  let expDec := st.gNext.map (fun b =>
    let k := (b.rollups.filter (fun e => shouldInclude st.filter e.rollup)).length
    s!"{b.md.height}:1:{k}/{k}")
  if decs ≠ expDec ∨ (field extra "malformed") ≠ some "0" ∨ (field extra "orph") ≠ some "0" then
    r := r.addMonitor "decode_roundtrip" n line s!"decoded {dec} malformed={(field extra "malformed").getD "?"} orphans={(field extra "orph").getD "?"}; expected {",".intercalate expDec}"
  -- statistics
  r := r.bump s!"sub_blocks_{if nb ≥ 4 then "4+" else toString nb}"
  r := r.bump (if csz * 10 ≥ LIMIT * 9 then "sub_size_ge_90pct" else if csz * 2 ≥ LIMIT then "sub_size_ge_50pct" else "sub_size_small")
  if csz = LIMIT then r := r.bump "sub_size_exactly_limit"
  if allNs.length < (st.gNext.flatMap (fun b => (b.rollups.filter (fun e => shouldInclude st.filter e.rollup)).map (·.rollup))).eraseDups.length then
    r := r.bump "sub_shared_namespace"
  return r

/-! ### end-to-end sessions: the real `BlobSubmitter::run` loop

The harness scripts the loop (one submission is confirmed at a time and the loop settles before
the next event), so the order of the loop's arms is determined: the biased `select!` tries the
take arm before the recv arm. `settle` drives the model the same way. The size oracle of these
sessions is the SUM of the blocks' stand-alone compressed sizes (the real loop does not expose
its candidate sizes); the scripted blocks stay several percent away from the limit. -/

structure E2E where
  active : Bool := false
  filter : List String := []
  sub : Sub := {}
  queue : List Block := []
  emitted : Array Submission := #[]
  completed : Nat := 0                        -- submissions whose completion the loop processed
  sizes : List (String × Nat) := []          -- metadata digest ↦ stand-alone compressed size
  -- ghost state from the implementation's reports
  sent : List Block := []
  iMetas : List (Nat × String) := []         -- metadata entries of the captured submissions, in order

def soloSize (sizes : List (String × Nat)) (d : String) : Nat :=
  match sizes.find? (·.1 = d) with
  | some p => p.2
  | none => 0

def cfgE2E (e : E2E) : Cfg :=
  { filter := e.filter, ns := nsOf, max := LIMIT,
    csize := fun bs => some (bs.foldl (fun a b => a + match b.body with
      | .metaList es => (es.map (fun m => soloSize e.sizes m.digest)).sum
      | .rollupList _ => 0) 0) }

/-- run the loop until no arm is enabled: take arm first (biased select), then recv -/
def settle (e0 : E2E) : E2E := Id.run do
  let mut e := e0
  for _ in [0 : 4 * (e0.queue.length + 4)] do
    let cfg := cfgE2E e
    let (s1, out1) := e.sub.step cfg .take
    match out1 with
    | .submitted sub _ =>
      e := { e with sub := s1, emitted := e.emitted.push sub }
      continue
    | _ => e := { e with sub := s1 }
    match e.queue with
    | b :: rest =>
      let (s2, out2) := e.sub.step cfg (.recv b)
      match out2 with
      | .blocked => break
      | .stopped => break
      | _ => e := { e with sub := s2, queue := rest }
    | [] => break
  return e

def e2eSubText (sub : Submission) : String :=
  s!"nblobs={sub.payload.blobs.length} blobs={blobsText sub.payload.blobs}"

/-- is `xs` obtained from `ys` by deleting elements (order kept)? returns the deleted ones -/
def deletedFrom (xs ys : List (Nat × String)) : Option (List (Nat × String)) :=
  match xs, ys with
  | [], ys => some ys
  | _ :: _, [] => none
  | x :: xs', y :: ys' =>
    if x = y then deletedFrom xs' ys'
    else match deletedFrom (x :: xs') ys' with
      | some d => some (y :: d)
      | none => none

def run (lines : Array String) : Driver.Report := Id.run do
  let mut r : Driver.Report := {}
  let mut st : St := {}
  let mut e : E2E := {}
  let mut n := 0
  for line in lines do
    n := n + 1
    let (op, impl) := Driver.splitLine line
    let (icmp, iextra) := cmpPart impl
    let iws := Driver.words icmp
    let ews := Driver.words iextra
    let ires := iws.headD ""
    match Driver.words op with
    | "batch" :: "reset" :: args =>
      let f := (field args "filter").getD "all"
      let filter := if f = "all" then [] else f.splitOn ","
      let last := ((field args "last").getD "0").toNat!
      st := { active := true, filter := filter, sub := { last := last } }
      r := r.check n line impl "ok"
      r := r.bump "sessions"
      r := r.bump (if filter.isEmpty then "filter_all" else s!"filter_{filter.length}_ids")
    | "batch" :: "recv" :: _ =>
      if ¬ st.active then r := r.addDisagree n line "no-session" else
      match (field iws "blk").bind parseBlock with
      | none => r := r.addDisagree n line "cannot-parse-block"
      | some b =>
        let candStr := (field iws "cand").getD "-"
        let cfg := cfgOf st candStr.toNat?
        let (s', out) := st.sub.step cfg (.recv b)
        let mres := match out with
          | .stopped => "stopped"
          | .blocked => "blocked"
          | .skipped => "skipped"
          | .add res => addResText res
          | _ => "?"
        r := r.check n line icmp s!"{mres} blk={blockText b} cand={candStr} pend={pendText s'}"
        r := r.bump s!"recv_{(ires.splitOn ":").take 2 |> ":".intercalate}"
        -- monitors / ghost state from the implementation's answer
        let mut g := st
        if ires = "ok" then
          g := { g with gNext := g.gNext ++ [b], gAccHeights := g.gAccHeights ++ [b.height] }
          if b.rollups.isEmpty then r := r.bump "block_without_rollups"
        else if ires = "full" then
          g := { g with gPend := some b, gAccHeights := g.gAccHeights ++ [b.height] }
          if (field ews "same") ≠ some "true" ∨ (field iws "pend") ≠ some (toString b.height) then
            r := r.addMonitor "exactly_once" n line "the block kept as pending is not the block that was handed in"
          if g.gNext.isEmpty then
            r := r.addMonitor "exactly_once" n line "`Full` from an empty batch: the block could never be submitted"
          match candStr.toNat? with
          | some c => if c ≤ LIMIT then
              r := r.addMonitor "refusal_justified" n line s!"block refused as not fitting although the candidate payload has {c} ≤ {LIMIT} bytes"
          | none => pure ()
        else if ires.startsWith "err:oversized" then
          g := { g with gFailed := true }
          match ires.splitOn ":" with
          | [_, _, h, sz] =>
            if sz.toNat! ≤ LIMIT ∨ h.toNat! ≠ b.height then
              r := r.addMonitor "refusal_justified" n line s!"block {b.height} refused as oversized with size {sz} (limit {LIMIT})"
          | _ => pure ()
          if ¬ g.gNext.isEmpty then
            r := r.addMonitor "refusal_justified" n line "oversized error although the batch was not empty"
        else if ires.startsWith "err:" then
          g := { g with gFailed := true }
        else if ires = "blocked" then
          if g.gPend.isNone then
            r := r.addMonitor "exactly_once" n line "no capacity although no block is pending"
        else if ires = "skipped" then
          if b.height > st.sub.last then
            r := r.addMonitor "exactly_once" n line s!"block {b.height} skipped although only {st.sub.last} was submitted"
        st := { g with sub := s' }
    | ["batch", "takedrop"] =>
      r := r.check n line impl "ok"
      r := r.bump "takedrop"
    | ["batch", "take"] =>
      if ¬ st.active then r := r.addDisagree n line "no-session" else
      let hcandStr := (field iws "hcand").getD "-"
      let cfg := cfgOf st hcandStr.toNat?
      let (s', out) := st.sub.step cfg .take
      let mtext := match out with
        | .stopped => "stopped"
        | .busy => "busy"
        | .nothing => "none"
        | .submitted sub ho =>
          let hoText := match ho, st.sub.pending with
            | some res, some pb => s!"ho={addResText res} hblk={blockText pb} hcand={hcandStr}"
            | _, _ => "ho=- hblk=- hcand=-"
          s!"sub {subText sub} {hoText} pend={pendText s'}"
        | _ => "?"
      r := r.check n line icmp mtext
      r := r.bump s!"take_{ires}"
      let mut g := st
      if ires = "sub" then
        r := checkSubmission r n line st iws ews
        let mh := (st.gNext.map (·.height))
        g := { g with gNext := [], gEmitHeights := g.gEmitHeights ++ mh }
        let ho := (field iws "ho").getD "-"
        r := r.bump s!"handover_{(ho.splitOn ":").take 2 |> ":".intercalate}"
        match st.gPend with
        | some pb =>
          if ho = "ok" then
            g := { g with gNext := [pb], gPend := none }
            if (field iws "hblk") ≠ some (blockText pb) ∨ (field ews "same") ≠ some "true" then
              r := r.addMonitor "exactly_once" n line "the block handed over after the take is not the pending block"
          else if ho.startsWith "err:oversized" then
            g := { g with gPend := none, gFailed := true }
            match ho.splitOn ":" with
            | [_, _, _, sz] => if sz.toNat! ≤ LIMIT then
                r := r.addMonitor "refusal_justified" n line s!"pending block refused as oversized with size {sz}"
            | _ => pure ()
          else if ho.startsWith "err:" then
            g := { g with gPend := none, gFailed := true }
          else
            r := r.addMonitor "exactly_once" n line s!"pending block {pb.height} was not handed to the emptied batch (ho={ho})"
        | none =>
          if ho ≠ "-" then
            r := r.addMonitor "exactly_once" n line "a hand-over happened although nothing was pending"
      else if ires = "none" then
        if ¬ st.gNext.isEmpty ∨ st.gPend.isSome then
          r := r.addMonitor "exactly_once" n line s!"take yields nothing although {st.gNext.length} block(s) were accepted into the batch"
      st := { g with sub := s' }
    | ["batch", "done"] =>
      if ¬ st.active then r := r.addDisagree n line "no-session" else
      let (s', out) := st.sub.step (cfgOf st none) .done
      let mtext := match out with
        | .stopped => "stopped"
        | .idle => "idle"
        | .completed => s!"completed:{s'.last}"
        | .submitFailed => "submit-failed"
        | _ => "?"
      r := r.check n line impl mtext
      r := r.bump s!"done_{(ires.splitOn ":").headD ""}"
      -- a submission whose greatest height is not above the last submitted one is refused by
      -- `PreparedSubmission` (unrecoverable): the loop stops, loudly
      st := { st with sub := s', gFailed := st.gFailed || ires == "submit-failed" }
    | ["batch", "end"] =>
      if ¬ st.active then r := r.addDisagree n line "no-session" else
      r := r.check n line impl s!"pend={pendText st.sub} cap={decide (st.sub.pending.isNone)} failed={st.sub.failed}"
      -- after the drain every accepted block must have been emitted (or the loop failed hard)
      if ¬ st.gFailed ∧ (¬ st.gNext.isEmpty ∨ st.gPend.isSome) then
        r := r.addMonitor "exactly_once" n line s!"{st.gNext.length} accepted block(s) never emitted after the drain"
      if st.gFailed then r := r.bump "session_hard_error"
      if ¬ isStrictlyIncreasing st.gAccHeights then r := r.bump "session_non_monotone_heights"
    | "batch" :: "e2e-reset" :: args =>
      let f := (field args "filter").getD "all"
      let filter := if f = "all" then [] else f.splitOn ","
      e := { active := true, filter := filter }
      r := r.check n line impl "ok"
      r := r.bump "e2e_sessions"
    | "batch" :: "e2e-send" :: _ =>
      if ¬ e.active then r := r.addDisagree n line "no-session" else
      match (field iws "blk").bind parseBlock with
      | none => r := r.addDisagree n line "cannot-parse-block"
      | some b =>
        let solo := (field iws "solo").getD "0"
        e := { e with sizes := (b.md.digest, solo.toNat!) :: e.sizes, queue := e.queue ++ [b], sent := e.sent ++ [b] }
        e := settle e
        r := r.check n line impl s!"sent blk={blockText b} solo={solo}"
        r := r.bump "e2e_send"
    | "batch" :: "e2e-wait" :: args =>
      if ¬ e.active then r := r.addDisagree n line "no-session" else
      let q := ((field args "queued").getD "0").toNat!
      let k := ((field args "broadcasts").getD "0").toNat!
      let c := ((field args "completed").getD "0").toNat!
      let mtext := if e.queue.length = q ∧ e.emitted.size = k ∧ e.completed = c then "ok"
        else s!"model: queued={e.queue.length} broadcasts={e.emitted.size} completed={e.completed}"
      r := r.check n line impl mtext
      r := r.bump "e2e_wait"
    | ["batch", "e2e-confirm"] =>
      if ¬ e.active then r := r.addDisagree n line "no-session" else
      let (s', out) := e.sub.step (cfgE2E e) .done
      let c := match out with
        | .completed => e.completed + 1
        | _ => e.completed
      e := settle { e with sub := s', completed := c }
      r := r.check n line impl "ok"
      r := r.bump "e2e_confirm"
    | ["batch", "e2e-finish"] =>
      if ¬ e.active then r := r.addDisagree n line "no-session" else
      r := r.check n line impl s!"subs={e.emitted.size} exit={if e.sub.failed then "err" else "ok"}"
      if e.sub.pending.isSome ∨ ¬ e.sub.next.input.metadata.isEmpty then r := r.bump "e2e_finish_with_rest"
    | ["batch", "e2e-sub", i] =>
      if ¬ e.active then r := r.addDisagree n line "no-session" else
      let mtext := match e.emitted[i.toNat!]? with
        | some sub => e2eSubText sub
        | none => "none"
      r := r.check n line icmp mtext
      if ires ≠ "none" then
        r := r.bump "e2e_submissions"
        -- spec of one captured BlobTx, on the implementation's report
        let blobs := ((field iws "blobs").getD "").splitOn ";" |>.map parseBlob
        let metas := (blobs.filter (·.kind = "M")).flatMap (·.metas)
        let blks := metas.filterMap (fun m => e.sent.find? (fun b => b.md.digest = m.2))
        if blks.length ≠ metas.length ∨ metas.isEmpty then
          r := r.addMonitor "exactly_once" n line "a submitted metadata entry belongs to no block that was sent (or no metadata at all)"
        let nss := (blobs.filter (·.kind = "R")).map (·.ns)
        let allNs := (blks.flatMap (fun b => (b.rollups.filter (fun x => shouldInclude e.filter x.rollup)).map (fun x => nsOf x.rollup))).eraseDups
        for ns in (nss ++ allNs).eraseDups do
          let got := (blobs.filter (fun b => b.kind = "R" ∧ b.ns = ns)).flatMap (·.datas)
          let exp := blks.flatMap (fun b => b.rollups.filter (fun x => shouldInclude e.filter x.rollup && decide (nsOf x.rollup = ns)))
          if got ≠ exp then
            r := r.addMonitor "filter_only_drops_data" n line s!"namespace {ns}: {got.length} entries submitted, {exp.length} expected from the filter"
        let real := ((field ews "real").getD "0").toNat!
        if real > LIMIT then
          r := r.addMonitor "size_bound" n line s!"submitted blobs have {real} > {LIMIT} compressed bytes"
        let dec := (field ews "dec").getD "-"
        let expDec := blks.map (fun b =>
          let k := (b.rollups.filter (fun x => shouldInclude e.filter x.rollup)).length
          s!"{b.md.height}:1:{k}/{k}")
        if (if dec = "-" then [] else dec.splitOn ",") ≠ expDec ∨ (field ews "malformed") ≠ some "0" ∨ (field ews "orph") ≠ some "0" then
          r := r.addMonitor "decode_roundtrip" n line s!"decoded {dec}; expected {",".intercalate expDec}"
        if metas.length ≥ 2 then r := r.bump "e2e_sub_multi_block"
        e := { e with iMetas := e.iMetas ++ metas }
    | ["batch", "e2e-end"] =>
      if ¬ e.active then r := r.addDisagree n line "no-session" else
      r := r.check n line impl "ok"
      -- exactly once, in order, over the whole session: what was submitted is the sent stream
      -- minus blocks whose height had already been submitted when they arrived
      let sentM := e.sent.map (fun b => (b.md.height, b.md.digest))
      match deletedFrom e.iMetas sentM with
      | none =>
        r := r.addMonitor "exactly_once" n line s!"submitted {e.iMetas.map (·.1)} is not the sent stream {sentM.map (·.1)} with blocks removed (duplicate, reordered or foreign block)"
      | some missing =>
        for m in missing do
          let earlier := (sentM.takeWhile (· ≠ m)).filter (fun x => e.iMetas.contains x)
          if ¬ earlier.any (fun x => decide (x.1 ≥ m.1)) then
            r := r.addMonitor "exactly_once" n line s!"block {m.1} was sent but never submitted, and no block of at least that height was submitted before it"
        if ¬ missing.isEmpty then r := r.bump "e2e_skipped_already_submitted" missing.length
      if ¬ isStrictlyIncreasing (e.iMetas.map (·.1)) then
        r := r.addMonitor "height_order" n line s!"heights over all submissions: {e.iMetas.map (·.1)}"
      e := {}
    | _ => r := r.addDisagree n line "bad-area"
  return r

end Driver.BatchArea
