import Astria.Ledger.Model
import Driver.Common
/- Area `ledger`: replays the sequencer-ledger trace through `Astria.Ledger` (correspondence on
   the full state dump after every op) and evaluates the specs of C01 C02 C03 C04 C14 C18 on the
   states the implementation reported. -/
namespace Driver.LedgerArea
open Astria.Ledger

/-! ### sorting / printing (must equal harness/sequencer/ledger.rs `dump`) -/

def insertSorted (x : String) : List String → List String
  | [] => [x]
  | y :: ys => if x ≤ y then x :: y :: ys else y :: insertSorted x ys

def sortStrings (l : List String) : List String := l.foldl (fun acc x => insertSorted x acc) []

def joinOrDash (l : List String) : String := if l.isEmpty then "-" else ",".intercalate l

def kindName : Kind → String
  | .transfer => "transfer" | .rollup => "rollup" | .ics20 => "ics20" | .initBridge => "initbridge"
  | .lock => "lock" | .unlock => "unlock" | .bridgeTransfer => "btransfer" | .bridgeSudo => "bsudo"

def parseKind : String → Option Kind
  | "transfer" => some .transfer | "rollup" => some .rollup | "ics20" => some .ics20
  | "initbridge" => some .initBridge | "lock" => some .lock | "unlock" => some .unlock
  | "btransfer" => some .bridgeTransfer | "bsudo" => some .bridgeSudo | _ => none

def depsDump (deps : List Deposit) : String :=
  -- index within the rollup's list
  let rec go (seen : List (Nat × Nat)) : List Deposit → List String
    | [] => []
    | d :: rest =>
      let i := match seen.find? (·.1 = d.rollup) with | some (_, n) => n | none => 0
      let seen' := (d.rollup, i + 1) :: seen.filter (·.1 ≠ d.rollup)
      s!"{d.rollup}:{i}:{d.bridge}:{d.asset}:{d.amount}:{d.destLen}:{d.index}" :: go seen' rest
  joinOrDash (sortStrings (go [] deps))

def dump (s : State) : String :=
  let bal := sortStrings ((s.bal.filter (·.2 ≠ 0)).map fun ((x, a), v) => s!"{x}:{a}:{v}")
  let nonce := sortStrings ((s.nonce.filter (·.2 ≠ 0)).map fun (x, v) => s!"{x}:{v}")
  let esc := sortStrings ((s.esc.filter (·.2 ≠ 0)).map fun ((c, a), v) => s!"{c}:{a}:{v}")
  let bridges := sortStrings (s.bridges.map fun (n, b) =>
    s!"{n}:{b.rollup}:{b.asset}:{b.sudo}:{b.withdrawer}:{if b.disabled then 1 else 0}")
  let wd := sortStrings (s.wd.map fun ((b, id), blk) => s!"{b}:{id}:{blk}")
  let fees := sortStrings (s.fees.map fun (k, c) => s!"{kindName k}:{c.base}:{c.mult}")
  let vals := sortStrings (s.vals.map fun (k, p) => s!"{k}:{p}")
  let vupd := sortStrings (s.valUpdates.map fun (k, p) => s!"{k}:{p}")
  let bfees := sortStrings ((s.blockFees).map fun (a, v) => s!"{a}:{v}")
  let cnt := if s.postAspen then toString s.valCount else "pre"
  let pairs := sortStrings (s.pairs.map fun (k, i) => s!"{k}:{i}")
  let markets := match s.markets with
    | none => "none"
    | some ms => joinOrDash (sortStrings (ms.map fun (e : String × Nat) => s!"{e.1}:{e.2}"))
  let oracle := s!"pairs={joinOrDash pairs} npairs={s.numPairs} nextid={s.nextPairId} markets={markets}"
  s!"bal={joinOrDash bal} nonce={joinOrDash nonce} esc={joinOrDash esc} bridges={joinOrDash bridges} wd={joinOrDash wd} sudo={s.sudo} ibcsudo={s.ibcSudo} relayers={joinOrDash (sortStrings s.relayers)} fees={joinOrDash fees} feeassets={joinOrDash (sortStrings s.feeAssets)} vals={joinOrDash vals} cnt={cnt} vupd={joinOrDash vupd} {oracle} bfees={joinOrDash bfees} deps={depsDump s.deposits}"

def evName : Ev → String
  | .fee a n pos => s!"fee:{a}:{n}:{pos}"
  | .dep n => s!"dep:{n}"

def eventsStr (evs : List Ev) : String := joinOrDash (evs.map evName)

/-! ### genesis (must equal `World::new` / `seed_state`) -/

def big : Nat := 1000000000000000000000
def seeded : Nat := 5000000000000
def UTIA := "transfer/channel-0/utia"
def UOSMO := "transfer/channel-1/uosmo"
def UATOM := "transfer/channel-10/uatom"

def genesis (legacy : Bool) : State :=
  let accounts := ["a0", "a1", "a2", "a3", "a4", "b0", "b1", "s", "i"]
  let bal : List ((String × String) × Nat) :=
    accounts.map (fun x => ((x, "nria"), big)) ++
    (["a0", "a1", "a2", "a3"].flatMap fun x => [UTIA, "xtok", UOSMO, UATOM].map fun a => ((x, a), seeded)) ++
    [(("r1", "xtok"), U128_MAX - 1000), (("a4", "xtok"), U128_MAX)]
  { postAspen := !legacy, postBlackburn := !legacy,
    bal := bal, sudo := "s", ibcSudo := "i", relayers := ["i"],
    fees := [(.rollup, ⟨1, 1001⟩), (.transfer, ⟨2, 1002⟩), (.ics20, ⟨3, 1003⟩), (.initBridge, ⟨4, 1004⟩),
             (.lock, ⟨5, 1005⟩), (.unlock, ⟨6, 1006⟩), (.bridgeTransfer, ⟨7, 1007⟩), (.bridgeSudo, ⟨8, 1008⟩)],
    feeAssets := ["nria", UTIA], knownAssets := ["nria", UTIA, UOSMO, UATOM],
    vals := if legacy then [("va", 10), ("vb", 10)] else [("va", 10), ("vb", 10), ("vc", 10)],
    valCount := if legacy then 0 else 3,
    pairs := if legacy then [] else [("BTC/USD", 0), ("ETH/USD", 1)],
    numPairs := if legacy then 0 else 2, nextPairId := if legacy then 0 else 2,
    markets := if legacy then none else some [("BTC/USD", 8), ("ETH/USD", 8)] }

/-! ### parsing -/

def optName (s : String) : Option String := if s = "-" then none else some s

def parseAction (s : String) : Option Action :=
  match s.splitOn "," with
  | ["transfer", to, asset, amt, fa] => do some (.transfer to asset (← amt.toNat?) fa)
  | ["rollup", len, fa] => do some (.rollup (← len.toNat?) fa)
  | ["lock", to, asset, amt, fa, dl] => do some (.lock to asset (← amt.toNat?) fa (← dl.toNat?))
  | ["unlock", to, b, amt, fa, id, blk] => do some (.unlock to b (← amt.toNat?) fa id (← blk.toNat?))
  | ["btransfer", to, b, amt, fa, id, blk, dl] =>
    do some (.bridgeTransfer to b (← amt.toNat?) fa id (← blk.toNat?) (← dl.toNat?))
  | ["initbridge", r, asset, fa, sudo, wd] => do some (.initBridge (← r.toNat?) asset fa (optName sudo) (optName wd))
  | ["bsudo", b, ns, nw, fa, dis] => some (.bridgeSudo b (optName ns) (optName nw) fa (dis = "1"))
  | ["sudo", x] => some (.sudoChange x)
  | ["ibcsudo", x] => some (.ibcSudoChange x)
  | ["relayer", "add", x] => some (.relayerAdd x)
  | ["relayer", "del", x] => some (.relayerDel x)
  | ["fee", k, b, m] => do some (.feeChange (← parseKind k) (← b.toNat?) (← m.toNat?))
  | ["feeasset", "add", a] => some (.feeAssetAdd a)
  | ["feeasset", "del", a] => some (.feeAssetDel a)
  | ["val", k, p] => do some (.valUpdate k (← p.toNat?))
  | ["ics20", amt, denom, ch, fa, b, id, blk, ret] =>
    do some (.ics20 (← amt.toNat?) denom (← ch.toNat?) fa (optName b) id (← blk.toNat?) ret)
  | ["ibcbad"] => some .ibcRelayBad
  | ["pairs", "add", ps] => some (.pairsAdd (ps.splitOn "+"))
  | ["pairs", "del", ps] => some (.pairsDel (ps.splitOn "+"))
  | ["markets", k, ms] => do
    let l ← (ms.splitOn "+").mapM fun m => match m.splitOn ":" with
      | [n, d] => do some (n, ← d.toNat?) | _ => none
    some (.marketsChange (if k = "create" then 0 else if k = "remove" then 1 else 2) l)
  | _ => none

def parseActions (s : String) : Option (List Action) := (s.splitOn ";").mapM parseAction

def parseMemo : String → Option Memo
  | "-" => some .empty | "dep" => some .deposit | "depempty" => some .depositEmpty
  | "fromrollup" => some .fromRollup | "bad" => some .bad | _ => none

def party (s : String) : Option String := if s = "bad" then none else some s

/-! ### monitors: the properties' specs evaluated on implementation dumps -/

/-- A dump as reported by the implementation. -/
structure IDump where
  bal : List ((String × String) × Nat) := []
  nonce : List (String × Nat) := []
  esc : List ((Nat × String) × Nat) := []
  bridges : List (String × BridgeAcct) := []
  wd : List ((String × String) × Nat) := []
  sudo : String := ""
  ibcSudo : String := ""
  relayers : List String := []
  fees : List (Kind × FeeCfg) := []
  feeAssets : List String := []
  vals : List (String × Nat) := []
  cnt : String := ""
  vupd : List (String × Nat) := []
  bfees : List (String × Nat) := []
  deps : List Deposit := []
  oracle : String := ""

def splitList (s : String) : List String := if s = "-" then [] else s.splitOn ","

def field (parts : List String) (name : String) : String :=
  match parts.find? (·.startsWith (name ++ "=")) with
  | some p => (p.drop (name.length + 1)).toString
  | none => "-"

def parseDump (s : String) : Option IDump := do
  let parts := s.splitOn " "
  let bal ← (splitList (field parts "bal")).mapM fun e => match e.splitOn ":" with
    | [x, a, v] => do some ((x, a), ← v.toNat?) | _ => none
  let nonce ← (splitList (field parts "nonce")).mapM fun e => match e.splitOn ":" with
    | [x, v] => do some (x, ← v.toNat?) | _ => none
  let esc ← (splitList (field parts "esc")).mapM fun e => match e.splitOn ":" with
    | [c, a, v] => do some ((← c.toNat?, a), ← v.toNat?) | _ => none
  let bridges ← (splitList (field parts "bridges")).mapM fun e => match e.splitOn ":" with
    | [n, r, a, su, w, d] => do some (n, (⟨← r.toNat?, a, su, w, d = "1"⟩ : BridgeAcct)) | _ => none
  let wd ← (splitList (field parts "wd")).mapM fun e => match e.splitOn ":" with
    | [b, id, blk] => do some ((b, id), ← blk.toNat?) | _ => none
  let fees ← (splitList (field parts "fees")).mapM fun e => match e.splitOn ":" with
    | [k, b, m] => do some (← parseKind k, (⟨← b.toNat?, ← m.toNat?⟩ : FeeCfg)) | _ => none
  let kv := fun (name : String) => (splitList (field parts name)).mapM fun e => match e.splitOn ":" with
    | [k, v] => do some (k, ← v.toNat?) | _ => none
  let vals ← kv "vals"
  let vupd ← kv "vupd"
  let bfees ← kv "bfees"
  let deps ← (splitList (field parts "deps")).mapM fun e => match e.splitOn ":" with
    | [r, _, b, a, amt, dl, idx] => do
      some (⟨b, ← r.toNat?, a, ← amt.toNat?, ← dl.toNat?, ← idx.toNat?⟩ : Deposit)
    | _ => none
  some { bal, nonce, esc, bridges, wd, sudo := field parts "sudo", ibcSudo := field parts "ibcsudo",
         relayers := splitList (field parts "relayers"), fees, feeAssets := splitList (field parts "feeassets"),
         vals, cnt := field parts "cnt", vupd, bfees, deps,
         oracle := s!"{field parts "pairs"} {field parts "npairs"} {field parts "nextid"} {field parts "markets"}" }

def assetsOf (d : IDump) : List String :=
  ((d.bal.map (·.1.2)) ++ (d.esc.map (·.1.2)) ++ (d.bfees.map (·.1))).eraseDups

/-- C01: balances + escrow + fees accumulated in the block, for one asset. -/
def totalOf (d : IDump) (a : String) : Nat :=
  ((d.bal.filter (·.1.2 = a)).map (·.2)).sum + ((d.esc.filter (·.1.2 = a)).map (·.2)).sum +
  ((d.bfees.filter (·.1 = a)).map (·.2)).sum

def balOf (d : IDump) (x a : String) : Nat := ((d.bal.filter (·.1 = (x, a))).map (·.2)).sum

/-- multiset difference `post − pre` (the dump lists deposits sorted, not chronologically) -/
def newDeposits (pre post : List Deposit) : List Deposit :=
  pre.foldl (fun acc d => acc.erase d) post

structure Mon where
  name : String
  msg : String

/-- Expected mint (+) / burn (−) of an asset by one op, from the op's own arguments and the
    pre-state (IBC transfers of assets that are not sequencer-origin on that channel). -/
def signedDelta (pre post : IDump) (a : String) : Int :=
  (totalOf post a : Int) - (totalOf pre a : Int)

def debited (pre post : IDump) : List (String × String) :=
  (pre.bal.filter fun ((x, a), v) => balOf post x a < v).map (·.1)

/-- C02: privileged keys that differ between two dumps. -/
def privChanged (pre post : IDump) : List String :=
  (if pre.sudo ≠ post.sudo then ["sudo"] else []) ++
  (if pre.ibcSudo ≠ post.ibcSudo then ["ibcsudo"] else []) ++
  (if sortStrings pre.relayers ≠ sortStrings post.relayers then ["relayers"] else []) ++
  (if sortStrings (pre.fees.map fun (k, c) => s!"{kindName k}:{c.base}:{c.mult}") ≠
      sortStrings (post.fees.map fun (k, c) => s!"{kindName k}:{c.base}:{c.mult}") then ["fees"] else []) ++
  (if sortStrings pre.feeAssets ≠ sortStrings post.feeAssets then ["feeassets"] else []) ++
  (if sortStrings (pre.vals.map fun (k, p) => s!"{k}:{p}") ≠ sortStrings (post.vals.map fun (k, p) => s!"{k}:{p}")
      || pre.cnt ≠ post.cnt
      || sortStrings (pre.vupd.map fun (k, p) => s!"{k}:{p}") ≠ sortStrings (post.vupd.map fun (k, p) => s!"{k}:{p}")
   then ["validators"] else []) ++
  (if pre.oracle ≠ post.oracle then ["oracle"] else [])

def bridgeAdminChanged (pre post : IDump) : List String :=
  (post.bridges.filterMap fun (n, b) => match pre.bridges.find? (·.1 = n) with
    | some (_, b0) => if b0.sudo ≠ b.sudo || b0.withdrawer ≠ b.withdrawer || b0.disabled ≠ b.disabled then some n else none
    | none => none)

structure St where
  model : Option State := none
  kept : List (String × Tx) := []
  ipre : Option IDump := none           -- implementation dump before the current op
  -- per block (monitors)
  blockStart : Option IDump := none
  blockMint : List (String × Int) := []
  blockFeeEvents : List (String × Nat) := []   -- Σ tx.fees events per asset in this block
  blockDepEvents : Nat := 0
  blockValOps : List (String × Nat) := []      -- successful validator updates of this block, in order
  -- history (monitors)
  wdCarriers : List (String × String) := []    -- (bridge, id) of successful carriers
  valSet : List (String × Nat) := []           -- CometBFT's view: genesis set folded with updates
  sent : List ((Nat × String) × Nat) := []     -- escrow in
  returned : List ((Nat × String) × Nat) := [] -- escrow out
  legacy : Bool := false
  variant : String := ""
  height : Nat := 0

def addInt (m : List (String × Int)) (k : String) (v : Int) : List (String × Int) :=
  match m.find? (·.1 = k) with
  | some (_, o) => (k, o + v) :: m.filter (·.1 ≠ k)
  | none => (k, v) :: m

def getInt (m : List (String × Int)) (k : String) : Int :=
  match m.find? (·.1 = k) with | some (_, o) => o | none => 0

def parseEvents (s : String) : List Ev :=
  (splitList s).filterMap fun e => match e.splitOn ":" with
    | ["fee", a, n, p] => do some (.fee a (← n.toNat?) (← p.toNat?))
    | ["dep", n] => do some (.dep (← n.toNat?))
    | _ => none

/-- CometBFT's `ValidatorSet.UpdateWithChangeSet`, as far as the property needs it: power 0
    removes and is an error if the validator is absent; the result must be non-empty. -/
def cometApply (set : List (String × Nat)) : List (String × Nat) → Except String (List (String × Nat))
  | [] => if set.isEmpty then .error "validator set would become empty" else .ok set
  | (k, p) :: rest =>
    if p = 0 then
      if (lookup set k).isNone then .error s!"removal of {k}, which CometBFT does not have"
      else cometApply (erase set k) rest
    else cometApply (insert set k p) rest

def run (lines : Array String) : Driver.Report := Id.run do
  let mut r : Driver.Report := {}
  let mut st : St := {}
  let mut n := 0
  for line in lines do
    n := n + 1
    let (op, implAll) := Driver.splitLine line
    let (implRes, implDump) := match implAll.splitOn " | " with
      | [a, b] => (a, b)
      | _ => (implAll, "")
    let ws := Driver.words op
    let mut modelOut := "bad-op"
    let mut txInfo : Option (String × Nat × List Action) := none
    let idump := parseDump implDump
    if idump.isNone then
      r := r.addMonitor "dump_parse" n line "cannot parse the implementation's state dump"
    match ws with
    | ["ledger", "reset", variant] =>
      let g := genesis (variant = "legacy" || variant = "upg")
      st := { model := some g, legacy := variant = "legacy", valSet := g.vals, variant := variant,
              height := if variant = "upg" then 0 else 1 }
      modelOut := s!"ok - | {dump g}"
      r := r.bump s!"reset_{variant}"
    | ["ledger", "begin"] =>
      match st.model with
      | some m =>
        let h := st.height + 1
        -- the upgrade-crossing variant: Aspen at height 4, Blackburn at 6 (pre_execute_transactions)
        let m := if st.variant = "upg" && h = 4 then
            aspenUpgrade m [("BTC/USD", 0), ("ETH/USD", 1)] [("BTC/USD", 8), ("ETH/USD", 8)]
          else if st.variant = "upg" && h = 6 then blackburnUpgrade m else m
        modelOut := s!"ok - | {dump m}"
        st := { st with model := some m, height := h, blockStart := st.ipre, blockMint := [], blockFeeEvents := [],
                        blockDepEvents := 0, blockValOps := [] }
      | none => pure ()
    | "ledger" :: "tx" :: signer :: nonce :: acts :: [] =>
      match st.model, nonce.toNat?, parseActions acts with
      | some m, some nn, some actions =>
        let tx : Tx := ⟨signer, nn, actions⟩
        txInfo := some (signer, nn, actions)
        let m0 := { m with events := [] }
        if !construct m0 tx then
          modelOut := s!"err:construct - | {dump m0}"
          r := r.bump "tx_err_construct"
        else match execTx m0 tx with
          | .ok m' =>
            modelOut := s!"ok {eventsStr m'.events} | {dump m'}"
            st := { st with model := some m' }
            r := r.bump "tx_ok"
            for a in acts.splitOn ";" do r := r.bump ("ok_action_" ++ (a.splitOn ",").headD "")
          | .error e =>
            let k := match e with | .nonce => "err:nonce" | .nonceOverflow => "err:nonce-overflow" | _ => "err:exec"
            modelOut := s!"{k} - | {dump m0}"
            r := r.bump ("tx_" ++ k)
      | _, _, _ => pure ()
    | "ledger" :: "ctor" :: id :: signer :: nonce :: acts :: [] =>
      match st.model, nonce.toNat?, parseActions acts with
      | some m, some nn, some actions =>
        let tx : Tx := ⟨signer, nn, actions⟩
        if construct m tx then
          st := { st with kept := (id, tx) :: st.kept.filter (·.1 ≠ id) }
          modelOut := s!"ok - | {dump m}"
        else modelOut := s!"err:construct - | {dump m}"
      | _, _, _ => pure ()
    | ["ledger", "exec", id] =>
      match st.model with
      | some m =>
        match st.kept.find? (·.1 = id) with
        | none => modelOut := s!"err:unknown-id - | {dump m}"
        | some (_, tx) =>
          st := { st with kept := st.kept.filter (·.1 ≠ id) }
          txInfo := some (tx.signer, tx.nonce, tx.actions)
          let m0 := { m with events := [] }
          match execTx m0 tx with
          | .ok m' =>
            modelOut := s!"ok {eventsStr m'.events} | {dump m'}"
            st := { st with model := some m' }
            r := r.bump "exec_ok"
          | .error e =>
            let k := match e with | .nonce => "err:nonce" | .nonceOverflow => "err:nonce-overflow" | _ => "err:exec"
            modelOut := s!"{k} - | {dump m0}"
            r := r.bump ("exec_" ++ k)
      | none => pure ()
    | ["ledger", "recv", dst, src, denom, amt, rcpt, memo] =>
      match st.model, dst.toNat?, src.toNat?, amt.toNat?, parseMemo memo with
      | some m, some d, some sc, some a, some mm =>
        let m0 := { m with events := [] }
        let (ok, m') := recvPacket m0 ⟨d, sc, denom, a, party rcpt, mm⟩
        modelOut := (if ok then s!"ack:ok {eventsStr m'.events}" else "ack:err -") ++ s!" | {dump m'}"
        st := { st with model := some m' }
        r := r.bump (if ok then "recv_ack_ok" else "recv_ack_err")
      | _, _, _, _, _ => pure ()
    | "ledger" :: kind :: rest =>
      -- timeout <src> <denom> <amt> <sender> <memo> | ack <ok|err> <src> …
      let (isRefund, args) := match kind, rest with
        | "timeout", args => (true, args)
        | "ack", "err" :: args => (true, args)
        | "ack", "ok" :: args => (false, args)
        | _, _ => (false, [])
      match st.model, args with
      | some m, [src, denom, amt, sender, memo] =>
        match src.toNat?, amt.toNat?, parseMemo memo with
        | some sc, some a, some mm =>
          let m0 := { m with events := [] }
          if kind = "end" then pure ()
          else if !isRefund then
            modelOut := s!"ok - | {dump m0}"
            r := r.bump "ack_success_noop"
          else match refundPacket m0 ⟨sc, denom, a, party sender, mm⟩ with
            | .ok m' =>
              modelOut := s!"ok {eventsStr m'.events} | {dump m'}"
              st := { st with model := some m' }
              r := r.bump "refund_ok"
            | .error _ =>
              modelOut := s!"err:exec - | {dump m0}"
              r := r.bump "refund_err"
        | _, _, _ => pure ()
      | some m, [] =>
        if kind = "end" then
          let blockdeps := depsDump m.deposits
          let (ok, ups, m') := endBlock m
          let vu := joinOrDash (sortStrings (ups.map fun (k, p) => s!"{k}:{p}"))
          modelOut := (if ok then s!"ok vu={vu} blockdeps={blockdeps}" else "err") ++ s!" | {dump m'}"
          st := { st with model := some m' }
          r := r.bump "end"
        else pure ()
      | _, _ => pure ()
    | _ => pure ()
    r := r.check n line implAll modelOut
    -- ===================== monitors on the implementation's own reports =====================
    match st.ipre, idump with
    | some pre, some post =>
      let okRes := implRes.startsWith "ok" || implRes.startsWith "ack:ok"
      let isTxLike := match ws with
        | "ledger" :: k :: _ => k = "tx" || k = "exec"
        | _ => false
      let isPkt := match ws with
        | "ledger" :: k :: _ => k = "recv" || k = "timeout" || k = "ack"
        | _ => false
      let evs := parseEvents ((implRes.splitOn " ").getD 1 "-")
      -- C03 atomic: a failed transaction / refund handler / error-acknowledged packet changes nothing
      if (isTxLike || isPkt || (ws.getD 1 "") = "ctor") && !okRes then
        if implDump ≠ (match lines[n - 2]? with | some prev => ((Driver.splitLine prev).2.splitOn " | ").getD 1 "" | none => "") then
          let nm := if isPkt then "recv_all_or_nothing" else "failed_tx_no_effect"
          r := r.addMonitor nm n line "a failed operation changed the state dump"
        if !evs.isEmpty then
          r := r.addMonitor (if isPkt then "recv_all_or_nothing" else "failed_tx_no_effect") n line "a failed operation recorded fee/deposit events"
      -- C01 conservation per op: total per asset changes only by IBC mint/burn
      if isTxLike || isPkt then
        for a in (assetsOf pre ++ assetsOf post).eraseDups do
          let d := signedDelta pre post a
          -- allowed mint/burn: for tx — ics20 withdrawals of assets with the channel prefix (burn);
          -- for packets — receive of a foreign asset (mint) / refund of a prefixed asset (re-mint)
          let allowed : Int := match ws with
            | "ledger" :: "tx" :: _ | "ledger" :: "exec" :: _ =>
              if okRes then
                (match txInfo with | some (_, _, acts) => acts | none => []).foldl (fun acc act => match act with
                  | Action.ics20 amt denom ch _ _ _ _ _ => if denom = a && hasLeading denom ch then acc - amt else acc
                  | _ => acc) 0
              else 0
            | ["ledger", "recv", dst, src, denom, amt, _, _] =>
              if okRes then
                let sc := src.toNat?.getD 0
                if hasLeading denom sc then 0
                else if chanPrefix (dst.toNat?.getD 0) ++ denom = a then (amt.toNat?.getD 0 : Int) else 0
              else 0
            | "ledger" :: k :: rest =>
              let args := if k = "ack" then rest.drop 1 else rest
              if okRes && (k = "timeout" || (k = "ack" && rest.headD "" = "err")) then
                match args with
                | [src, denom, amt, _, _] =>
                  if denom = a && hasLeading denom (src.toNat?.getD 0) then (amt.toNat?.getD 0 : Int) else 0
                | _ => 0
              else 0
            | _ => 0
          if d ≠ allowed then
            r := r.addMonitor "conservation" n line s!"asset {a}: balances+escrow+block fees changed by {d}, expected {allowed}"
          st := { st with blockMint := addInt st.blockMint a allowed }
      -- C01 fees: each tx.fees event = base + mult*size of the schedule in force, debited from the signer only
      if isTxLike && okRes then
        for e in evs do
          match e with
          | .fee a amt _ => st := { st with blockFeeEvents :=
              (a, amt + (st.blockFeeEvents.find? (·.1 = a) |>.map (·.2) |>.getD 0)) :: st.blockFeeEvents.filter (·.1 ≠ a) }
          | .dep _ => st := { st with blockDepEvents := st.blockDepEvents + 1 }
      if isPkt && okRes then
        for e in evs do
          match e with
          | .dep _ => st := { st with blockDepEvents := st.blockDepEvents + 1 }
          | _ => pure ()
      match ws, txInfo with
      | "ledger" :: _, some (signer, txNonce, actions) =>
        if okRes && isTxLike then
          -- fee events: one per fee-paying action, in order, with the exact amount
          let feeEvs := evs.filterMap fun | .fee a amt pos => some (a, amt, pos) | _ => none
          let mut expected : List (String × Nat × Nat) := []
          let mut fees := pre.fees
          let mut pos := 0
          for act in actions do
            match feeInfo act with
            | some (k, size, fa) =>
              match lookup fees k with
              | some cfg => expected := expected ++ [(fa, cfg.base + size * cfg.mult, pos)]
              | none => pure ()
            | none => pure ()
            match act with
            | .feeChange k b m => fees := insert fees k ⟨b, m⟩
            | _ => pure ()
            pos := pos + 1
          if feeEvs ≠ expected then
            r := r.addMonitor "fee_exact" n line s!"fee events {repr feeEvs} differ from base+mult*size = {repr expected}"
          -- C02: who lost funds
          for (x, a) in debited pre post do
            let authorised := x = signer ||
              (match lookup pre.bridges x with
               | some b => b.withdrawer = signer ||
                   -- withdrawer changed earlier in this same transaction by the bridge's sudo
                   actions.any (fun act => match act with | .bridgeSudo bb _ (some w) _ _ => bb = x && w = signer | _ => false)
               | none => false)
            if !authorised then
              r := r.addMonitor "debit_authorised" n line s!"balance of {x} in {a} decreased by a transaction signed by {signer}"
          -- C02: privileged state
          let changed := privChanged pre post
          for c in changed do
            let holder := if c = "relayers" then pre.ibcSudo else pre.sudo
            let sudoMovedHere := actions.any fun act => match act with | .sudoChange _ => true | .ibcSudoChange _ => true | _ => false
            if signer ≠ holder && !sudoMovedHere then
              r := r.addMonitor "priv_authorised" n line s!"{c} changed by {signer}, authority is {holder}"
          for b in bridgeAdminChanged pre post do
            match lookup pre.bridges b with
            | some acct => if acct.sudo ≠ signer then
                r := r.addMonitor "priv_authorised" n line s!"bridge {b} administration changed by {signer}, its sudo is {acct.sudo}"
            | none => pure ()
          for (nm, _) in post.bridges do
            if (lookup pre.bridges nm).isNone && nm ≠ signer then
              r := r.addMonitor "priv_authorised" n line s!"bridge account {nm} initialised by {signer}"
          -- C03 nonce gate
          let nb := (pre.nonce.find? (·.1 = signer)).map (·.2) |>.getD 0
          let na := (post.nonce.find? (·.1 = signer)).map (·.2) |>.getD 0
          if na ≠ nb + 1 then
            r := r.addMonitor "nonce_gate" n line s!"successful transaction: signer nonce {nb} -> {na}"
          if txNonce ≠ nb then
            r := r.addMonitor "nonce_gate" n line s!"transaction with nonce {txNonce} executed at account nonce {nb}"
          for (x, v) in post.nonce do
            if x ≠ signer && ((pre.nonce.find? (·.1 = x)).map (·.2) |>.getD 0) ≠ v then
              r := r.addMonitor "nonce_gate" n line s!"nonce of {x} changed by a transaction of {signer}"
          -- C04 deposits backed; withdrawal ids once
          let newDeps := newDeposits pre.deps post.deps
          for d in newDeps do
            match lookup post.bridges d.bridge with
            | some b =>
              if b.asset ≠ d.asset || b.rollup ≠ d.rollup then
                r := r.addMonitor "deposit_backed" n line s!"deposit for {d.bridge} in {d.asset}/rollup {d.rollup}, bridge is {b.asset}/rollup {b.rollup}"
            | none => r := r.addMonitor "deposit_backed" n line s!"deposit names {d.bridge}, which is not a bridge account"
          for b in (newDeps.map (·.bridge)).eraseDups do
            let dsum := ((newDeps.filter (·.bridge = b)).map (·.amount)).sum
            let asset := (lookup post.bridges b).map (·.asset) |>.getD ""
            -- credits to the bridge in this tx ≥ deposits (the bridge may also pay out in the same tx)
            let outs := (actions.filterMap fun act => match act with
              | .unlock _ bb amt _ _ _ => if bb = b then some amt else none
              | .bridgeTransfer _ bb amt _ _ _ _ => if bb = b then some amt else none
              | .ics20 amt dn _ _ (some bb) _ _ _ => if bb = b && dn = asset then some amt else none
              | _ => none).sum
            if balOf post b asset + outs < balOf pre b asset + dsum then
              r := r.addMonitor "deposit_backed" n line s!"deposits of {dsum} for {b} but its balance rose by less"
          for act in actions do
            let carrier : Option (String × String) := match act with
              | .unlock _ b _ _ id _ => some (b, id)
              | .bridgeTransfer _ b _ _ id _ _ => some (b, id)
              | .ics20 _ _ _ _ (some b) id _ _ => some (b, id)
              | _ => none
            match carrier with
            | some c =>
              if st.wdCarriers.contains c then
                r := r.addMonitor "withdrawal_once" n line s!"withdrawal event {c.2} of bridge {c.1} honoured a second time"
              st := { st with wdCarriers := c :: st.wdCarriers }
            | none => pure ()
          for act in actions do
            match act with
            | .valUpdate k p => st := { st with blockValOps := st.blockValOps ++ [(k, p)] }
            | _ => pure ()
          -- C18 escrow bookkeeping
          for act in actions do
            match act with
            | .ics20 amt denom ch _ _ _ _ _ =>
              if !hasLeading denom ch then st := { st with sent := setN st.sent (ch, denom) (getN st.sent (ch, denom) + amt) }
            | _ => pure ()
      | ["ledger", "recv", dst, src, denom, amt, rcpt, _], _ =>
        if okRes then
          let sc := src.toNat?.getD 0
          if hasLeading denom sc then
            let a := (denom.drop (chanPrefix sc).length).toString
            let c := dst.toNat?.getD 0
            st := { st with returned := setN st.returned (c, a) (getN st.returned (c, a) + amt.toNat?.getD 0) }
          -- deposit only for a bridge recipient, backed by an equal credit
          let newDeps := newDeposits pre.deps post.deps
          for d in newDeps do
            if d.bridge ≠ rcpt || (lookup post.bridges rcpt).isNone || d.amount ≠ amt.toNat?.getD 0
               || balOf post rcpt d.asset ≠ balOf pre rcpt d.asset + d.amount then
              r := r.addMonitor "deposit_backed" n line "deposit of a received packet not matched by an equal credit of the bridge account"
          if (lookup post.bridges rcpt).isSome && newDeps.length ≠ 1 then
            r := r.addMonitor "deposit_backed" n line "successful receive to a bridge account without exactly one deposit"
      | "ledger" :: k :: rest, _ =>
        let args := if k = "ack" then rest.drop 1 else rest
        if okRes && (k = "timeout" || (k = "ack" && rest.headD "" = "err")) then
          match args with
          | [src, denom, amt, sender, memo] =>
            let sc := src.toNat?.getD 0
            if !hasLeading denom sc then
              st := { st with returned := setN st.returned (sc, denom) (getN st.returned (sc, denom) + amt.toNat?.getD 0) }
            -- C04: a refund publishes a deposit only for a withdrawal from a rollup, to the
            -- refunded bridge account, in that bridge's asset and rollup, with the equal credit
            let newDeps := newDeposits pre.deps post.deps
            for d in newDeps do
              match lookup post.bridges d.bridge with
              | some b =>
                if memo ≠ "fromrollup" || d.bridge ≠ sender || d.asset ≠ denom || d.amount ≠ amt.toNat?.getD 0 then
                  r := r.addMonitor "deposit_backed" n line s!"refund published a deposit for {d.bridge} of {d.amount} {d.asset} that is not the refunded transfer"
                if b.asset ≠ d.asset || b.rollup ≠ d.rollup then
                  r := r.addMonitor "deposit_backed" n line s!"refund published a deposit for {d.bridge} in {d.asset}/rollup {d.rollup}, bridge is {b.asset}/rollup {b.rollup}"
                if balOf post d.bridge d.asset ≠ balOf pre d.bridge d.asset + d.amount then
                  r := r.addMonitor "deposit_backed" n line "deposit of a refund not matched by an equal credit of the bridge account in the deposit's asset"
              | none => r := r.addMonitor "deposit_backed" n line s!"refund published a deposit naming {d.bridge}, which is not a bridge account"
          | _ => pure ()
      | _, _ => pure ()
      -- C18 escrow identity after every op
      for ((c, a), v) in post.esc do
        if v + getN st.returned (c, a) ≠ getN st.sent (c, a) then
          r := r.addMonitor "escrow_identity" n line s!"escrow of {a} on channel {c} is {v}; sent {getN st.sent (c, a)}, returned {getN st.returned (c, a)}"
      for ((c, a), v) in st.sent do
        if ((post.esc.find? (·.1 = (c, a))).map (·.2) |>.getD 0) + getN st.returned (c, a) ≠ v then
          r := r.addMonitor "escrow_identity" n line s!"escrow of {a} on channel {c} does not equal sent {v} minus returned {getN st.returned (c, a)}"
      -- block end: fees routed, conservation over the block, validator mirror
      match ws with
      | ["ledger", "end"] =>
        if implRes.startsWith "ok" then
          match st.blockStart with
          | some _ =>
            -- every fee charged in the block goes to the sudo address at block end
            for (a, v) in pre.bfees do
              if balOf post post.sudo a ≠ balOf pre post.sudo a + v then
                r := r.addMonitor "fees_routed" n line s!"block fees {v} of {a} not credited to the fee recipient {post.sudo}"
              if ((st.blockFeeEvents.find? (·.1 = a)).map (·.2) |>.getD 0) ≠ v then
                r := r.addMonitor "fees_routed" n line s!"block fees {v} of {a} differ from the sum of tx.fees events"
            if !post.bfees.isEmpty then
              r := r.addMonitor "fees_routed" n line "block fees not cleared at block end"
            for a in (assetsOf pre ++ assetsOf post).eraseDups do
              if totalOf pre a ≠ totalOf post a then
                r := r.addMonitor "conservation" n line s!"asset {a}: total changed at block end"
          | none => pure ()
          -- deposits published with the block = deposits cached by successful ops
          let blockdeps := ((implRes.splitOn "blockdeps=").getD 1 "-")
          if (splitList blockdeps).length ≠ st.blockDepEvents then
            r := r.addMonitor "deposit_backed" n line s!"{(splitList blockdeps).length} deposits published, {st.blockDepEvents} deposit events of successful operations"
          -- C14: fold the returned updates into CometBFT's view
          let vuStr := (((implRes.splitOn "vu=").getD 1 "-").splitOn " ").headD "-"
          let ups := (splitList vuStr).filterMap fun e => match e.splitOn ":" with
            | [k, p] => do some (k, ← p.toNat?) | _ => none
          match cometApply st.valSet ups with
          | .ok set' =>
            st := { st with valSet := set' }
            if sortStrings (set'.map fun (k, p) => s!"{k}:{p}") ≠ sortStrings (post.vals.map fun (k, p) => s!"{k}:{p}") then
              r := r.addMonitor "validator_mirror" n line s!"CometBFT's set {repr set'} differs from the application's {repr post.vals}"
            if post.cnt ≠ "pre" && post.cnt.toNat? ≠ some post.vals.length then
              r := r.addMonitor "validator_mirror" n line s!"validator count {post.cnt} but {post.vals.length} validators stored"
          | .error e =>
            -- classify the history that led here (known findings are matched on this text)
            let removed := (ups.filter (·.2 = 0)).map (·.1)
            let addedThenRemoved := removed.filter fun k =>
              (lookup st.valSet k).isNone && st.blockValOps.any (fun (k', p) => k' = k && p > 0)
            let removalsInBlock := (st.blockValOps.filter (·.2 = 0)).length
            let why :=
              if !addedThenRemoved.isEmpty then s!" [{addedThenRemoved} added and removed within this block]"
              else if post.cnt = "pre" && removalsInBlock ≥ 2 && e.startsWith "validator set would" then
                s!" [{removalsInBlock} removals in one pre-Aspen block, each checked against the start-of-block set]"
              else ""
            r := r.addMonitor "validator_updates_applicable" n line s!"CometBFT cannot apply the returned updates: {e}{why}"
            -- resynchronise so that one finding is reported once
            st := { st with valSet := post.vals }
      | _ => pure ()
    | _, _ => pure ()
    st := { st with ipre := idump }
  return r

end Driver.LedgerArea
