import Astria.Block.Model
import Astria.Prelude.Sha256
import Astria.Prelude.Hex
import Driver.Common
/-
  Area `block` (C07, C17): replays the trace of /verif/harness/conductor/blobs.rs through
  `Astria.Block` with a real SHA-256 and evaluates the properties' decidable specs on what the
  implementation reported.

  Line protocol (one token per raw protobuf value, `&` between its fields):
    block reset <spec>                       => ok <block> | err:<kind>
    block full|filtered|meta|blob <label> <raw> => ok same | ok <re-encoded> | err:<kind> | panic
    block filter <ids>                       => <filtered>
    block split                              => <meta> # <blob> # …
    block celestia <label> cfg=<id>:<next firm> commits=<h:chain:hash|h:~,…> M=<blobs> R=<blobs>
                                             => <hash>:<header>:<txs>+… | .
    block wire <kind> <label> <hex>          => see `Astria.Block.Wire`
-/
namespace Driver.BlockArea
open Astria Astria.Merkle Astria.Block

/-! ## State of the code under test

  The model describes the code as it is.  Two recorded open findings have a proposed repair; when
  a repair lands in /repo, flip the corresponding switch (and mark the finding `fixed`). -/

/-- `reconstruct.rs` compares the blob's rollup id with the conductor's (proposed_fixes/F10.diff). -/
def codeChecksBlobRollupId : Bool := true

/-- `SequencerBlock::try_from_raw` verifies the per-rollup proofs (proposed_fixes/FB1.diff). -/
def codeVerifiesRollupProofsInFullBlock : Bool := true

def shaHs : Hashes where
  H := { leaf := fun x => Sha256.hashList (0 :: x)
         node := fun l r => Sha256.hashList (1 :: (l ++ r))
         empty := Sha256.hashList [] }
  sha := Sha256.hashList

/-! ## Text codec (mirrors the Rust harness) -/

def hx (b : Bytes) : String := Hex.encodeOrDash b
def unhx (s : String) : Option Bytes := Hex.decode? s

def blS (l : List Bytes) : String := if l.isEmpty then "." else ",".intercalate (l.map hx)
def blP (s : String) : Option (List Bytes) := if s = "." then some [] else (s.splitOn ",").mapM unhx

def proofS : Option RawProof → String
  | none => "~"
  | some p => s!"{hx p.auditPath}/{p.leafIndex}/{p.treeSize}"

def proofP (s : String) : Option (Option RawProof) :=
  if s = "~" then some none else
  match s.splitOn "/" with
  | [a, b, c] => do some (some ⟨← unhx a, ← b.toNat?, ← c.toNat?⟩)
  | _ => none

def hdrS : Option HeaderRaw → String
  | none => "~"
  | some h =>
    let t := match h.time with | none => "~" | some (s, n) => s!"{s}_{n}"
    s!"{hx h.chainId}:{h.height}:{t}:{hx h.txsRoot}:{hx h.dataHash}:{hx h.proposer}"

def hdrP (s : String) : Option (Option HeaderRaw) :=
  if s = "~" then some none else
  match s.splitOn ":" with
  | [c, h, t, r, d, p] => do
    let time ← if t = "~" then some none else
      match t.splitOn "_" with
      | [a, b] => do some (some (← a.toInt?, ← b.toInt?))
      | _ => none
    some (some ⟨← unhx c, ← h.toNat?, time, ← unhx r, ← unhx d, ← unhx p⟩)
  | _ => none

def idS : Option Bytes → String
  | none => "~"
  | some b => hx b

def idP (s : String) : Option (Option Bytes) := if s = "~" then some none else (unhx s).map some

def rtS (r : RtRaw) : String := s!"{idS r.id};{blS r.txs};{proofS r.proof}"

def rtP (s : String) : Option RtRaw :=
  match s.splitOn ";" with
  | [a, b, c] => do some ⟨← idP a, ← blP b, ← proofP c⟩
  | _ => none

def rtsS (l : List RtRaw) : String := if l.isEmpty then "." else "|".intercalate (l.map rtS)
def rtsP (s : String) : Option (List RtRaw) := if s = "." then some [] else (s.splitOn "|").mapM rtP

def checkS : EciCheck → String
  | .ok => "ok" | .decode => "decode" | .invalid => "invalid"

def checkP : String → Option EciCheck
  | "ok" => some .ok | "decode" => some .decode | "invalid" => some .invalid | _ => none

/-- The oracle about extended-commit-info bytes, as reported on the line. -/
abbrev Oracle := List (Bytes × EciCheck)

def Oracle.fn (o : Oracle) : Bytes → EciCheck := fun b =>
  match o.find? (fun e => e.1 = b) with
  | some e => e.2
  | none => .decode

def eciS (o : Oracle) : Option EciRaw → String
  | none => "~"
  | some e => s!"{hx e.info};{proofS e.proof};{checkS (o.fn e.info)}"

def eciP (s : String) : Option (Option EciRaw × Oracle) :=
  if s = "~" then some (none, []) else
  match s.splitOn ";" with
  | [a, b, c] => do
    let info ← unhx a
    some (some ⟨info, ← proofP b⟩, [(info, ← checkP c)])
  | _ => none

def fieldsOf (s : String) : List (String × String) :=
  (s.splitOn "&").filterMap fun kv =>
    match kv.splitOn "=" with
    | [k, v] => some (k, v)
    | _ => none

def fget (f : List (String × String)) (k : String) : Option String := (f.find? (·.1 = k)).map (·.2)

def idsS (l : List Bytes) : String := blS l
def idsP (s : String) : Option (List Bytes) := blP s

def blockS (o : Oracle) (b : BlockRaw) : String :=
  s!"bh={hx b.blockHash}&hd={hdrS b.header}&rt={rtsS b.rollups}&tp={proofS b.txsProof}&ip={proofS b.idsProof}&uch={blS b.uch}&eci={eciS o b.eci}"

def blockP (s : String) : Option (BlockRaw × Oracle) := do
  let f := fieldsOf s
  let (eci, o) ← eciP (← fget f "eci")
  some (⟨← unhx (← fget f "bh"), ← hdrP (← fget f "hd"), ← rtsP (← fget f "rt"), ← proofP (← fget f "tp"),
         ← proofP (← fget f "ip"), ← blP (← fget f "uch"), eci⟩, o)

def filteredS (o : Oracle) (b : FilteredRaw) : String :=
  s!"bh={hx b.blockHash}&hd={hdrS b.header}&rt={rtsS b.rollups}&tp={proofS b.txsProof}&all={idsS b.allIds}&ip={proofS b.idsProof}&uch={blS b.uch}&eci={eciS o b.eci}"

def filteredP (s : String) : Option (FilteredRaw × Oracle) := do
  let f := fieldsOf s
  let (eci, o) ← eciP (← fget f "eci")
  some (⟨← unhx (← fget f "bh"), ← hdrP (← fget f "hd"), ← rtsP (← fget f "rt"), ← proofP (← fget f "tp"),
         ← idsP (← fget f "all"), ← proofP (← fget f "ip"), ← blP (← fget f "uch"), eci⟩, o)

def metaS (o : Oracle) (b : MetaRaw) : String :=
  s!"bh={hx b.blockHash}&hd={hdrS b.header}&ids={idsS b.ids}&tp={proofS b.txsProof}&ip={proofS b.idsProof}&uch={blS b.uch}&eci={eciS o b.eci}"

def metaP (s : String) : Option (MetaRaw × Oracle) := do
  let f := fieldsOf s
  let (eci, o) ← eciP (← fget f "eci")
  some (⟨← unhx (← fget f "bh"), ← hdrP (← fget f "hd"), ← idsP (← fget f "ids"), ← proofP (← fget f "tp"),
         ← proofP (← fget f "ip"), ← blP (← fget f "uch"), eci⟩, o)

def blobS (b : BlobRaw) : String :=
  s!"bh={hx b.blockHash}&id={idS b.id}&tx={blS b.txs}&pf={proofS b.proof}"

def blobP (s : String) : Option BlobRaw := do
  let f := fieldsOf s
  some ⟨← unhx (← fget f "bh"), ← idP (← fget f "id"), ← blP (← fget f "tx"), ← proofP (← fget f "pf")⟩

def specP (s : String) : Option BuildInput := do
  let f := fieldsOf s
  let (secs, nanos) ← match (← fget f "t").splitOn "_" with
    | [a, b] => do some (← a.toInt?, ← b.toNat?)
    | _ => none
  let subsS ← fget f "subs"
  let subs ← if subsS = "." then some [] else
    (subsS.splitOn ",").mapM fun e =>
      match e.splitOn ":" with
      | [a, b] => do some (← unhx a, ← unhx b)
      | _ => none
  let depsS ← fget f "deps"
  let deps ← if depsS = "." then some [] else
    (depsS.splitOn ",").mapM fun e =>
      match e.splitOn ":" with
      | [a, b] => do
        let ds ← if b = "." then some [] else (b.splitOn "/").mapM unhx
        some (← unhx a, ds)
      | _ => none
  let eciS ← fget f "eci"
  let eci ← if eciS = "~" then some none else (unhx eciS).map some
  some { blockHash := ← unhx (← fget f "bh"), chainId := ← unhx (← fget f "ch"), height := ← (← fget f "h").toNat?,
         secs := secs, nanos := nanos, proposer := ← unhx (← fget f "pr"), subs := subs, deps := deps,
         txsRoot := ← unhx (← fget f "r1"), idsRoot := ← unhx (← fget f "r2"), uch := ← blP (← fget f "uch"),
         eci := eci, userTxs := ← blP (← fget f "utx") }

/-! ## Error names per receiver -/

def pkName : Flat.ProofError → String
  | .zeroTreeSize => "ZeroTreeSize"
  | .leafIndexOutsideTree => "LeafIndexOutsideTree"
  | .auditPathNotMultipleOf32 => "AuditPathNotMultipleOf32"
  | .auditPathTooLong => "AuditPathTooLong"

def hkName : HeaderErr → String
  | .invalidChainId => "InvalidChainId" | .invalidHeight => "InvalidHeight"
  | .timeNotSet => "FieldNotSet:time" | .time => "Time"
  | .rootLength => "IncorrectRollupTransactionsRootLength" | .proposer => "ProposerAddress"

def rkName : RtErr → String
  | .idNotSet => "FieldNotSet:rollup_id" | .idLength => "RollupId"
  | .proofNotSet => "FieldNotSet:proof" | .proof e => s!"ProofInvalid/{pkName e}"

def ekName : EciErr → String
  | .proofNotSet => "ProofNotSet" | .proof e => pkName e | .notInBlock => "NotInSequencerBlock"
  | .decode => "Decode" | .invalid => "InvalidExtendedCommitInfo"

inductive Recv where
  | rFull | rFiltered | rMeta | rBlob

def errName (r : Recv) : Err → String
  | .blockHash => match r with
    | Recv.rFull | Recv.rFiltered => "InvalidBlockHash" | Recv.rMeta => "BlockHash" | Recv.rBlob => "SequencerBlockHash"
  | .fieldNotSet f => s!"FieldNotSet:{f}"
  | .txsProof e => match r with
    | Recv.rMeta => s!"RollupTransactionsProof/{pkName e}" | _ => s!"TransactionProofInvalid/{pkName e}"
  | .idsProof e => match r with
    | Recv.rMeta => s!"RollupIdsProof/{pkName e}" | _ => s!"IdProofInvalid/{pkName e}"
  | .header e => match r with
    | Recv.rFiltered => s!"InvalidHeader/{hkName e}" | _ => s!"Header/{hkName e}"
  | .rollupTxs e => s!"ParseRollupTransactions/{rkName e}"
  | .rollupId => match r with
    | Recv.rFiltered => "InvalidRollupId" | Recv.rMeta => "RollupIds" | _ => "RollupId"
  | .invalidTxsRoot => "InvalidRollupTransactionsRoot"
  | .txsNotInBlock => match r with
    | Recv.rMeta => "RollupTransactionsNotInCometBftBlock" | _ => "RollupTransactionsNotInSequencerBlock"
  | .txsForIdNotInBlock _ => "RollupTransactionForIdNotInSequencerBlock"
  | .idsNotInBlock => match r with
    | Recv.rMeta => "RollupIdsNotInCometBftBlock" | _ => "InvalidRollupIdsProof"
  | .uch => "UpgradeChangeHashes"
  | .eci e => s!"ExtendedCommitInfo/{ekName e}"
  | .proof e => s!"Proof/{pkName e}"

def okOracle (eci : Option Eci) : Oracle := match eci with | some e => [(e.info, .ok)] | none => []

/-! ## Model results -/

def resFull (c : Ctx) (o : Oracle) (r : BlockRaw) : String :=
  match fullFromRaw c r with
  | .panic => "panic"
  | .value (.error e) => s!"err:{errName Recv.rFull e}"
  | .value (.ok b) => if b.toRaw = r then "ok same" else s!"ok {blockS (okOracle b.eci ++ o) b.toRaw}"

def resFiltered (c : Ctx) (o : Oracle) (r : FilteredRaw) : String :=
  match filteredFromRaw c r with
  | .panic => "panic"
  | .value (.error e) => s!"err:{errName Recv.rFiltered e}"
  | .value (.ok b) => if b.toRaw = r then "ok same" else s!"ok {filteredS (okOracle b.eci ++ o) b.toRaw}"

def resMeta (c : Ctx) (o : Oracle) (r : MetaRaw) : String :=
  match metaFromRaw c r with
  | .panic => "panic"
  | .value (.error e) => s!"err:{errName Recv.rMeta e}"
  | .value (.ok b) => if b.toRaw = r then "ok same" else s!"ok {metaS (okOracle b.eci ++ o) b.toRaw}"

def resBlob (r : BlobRaw) : String :=
  match blobFromRaw r with
  | .panic => "panic"
  | .value (.error e) => s!"err:{errName Recv.rBlob e}"
  | .value (.ok b) => if b.toRaw = r then "ok same" else s!"ok {blobS b.toRaw}"

def bytesCmp (a b : Bytes) : Bool := bytesLt a b || a == b

def insertRec (r : Reconstructed) : List Reconstructed → List Reconstructed
  | [] => [r]
  | x :: xs =>
    if r.header.height < x.header.height ∨ (r.header.height = x.header.height ∧ bytesCmp r.blockHash x.blockHash)
    then r :: x :: xs else x :: insertRec r xs

def recS (l : List Reconstructed) : String :=
  if l.isEmpty then "." else
  let sorted := l.foldr insertRec []
  "+".intercalate (sorted.map fun r =>
    s!"{hx r.blockHash}:{(hdrS (some r.header.toRaw)).replace ":" "^"}:{blS r.txs}")

/-- `<blob>*<blob>…`, blob = `!` | `[^]<entry>+…` | `[^]0`; a wrong namespace drops the blob. -/
def blobsP {ρ : Type} (f : String → Option ρ) (s : String) : Option (List (Option (List ρ))) :=
  if s = "." then some [] else
  (s.splitOn "*").mapM fun b =>
    let (wrong, body) := if b.startsWith "^" then (true, (b.drop 1).toString) else (false, b)
    if body = "!" then some none
    else if body = "0" then some (if wrong then none else some [])
    else do
      let es ← (body.splitOn "+").mapM f
      some (if wrong then none else some es)

def commitsP (s : String) : Option (List (Nat × Option Commit)) :=
  if s = "." then some [] else
  (s.splitOn ",").mapM fun c =>
    match c.splitOn ":" with
    | [h, "~"] => do some (← h.toNat?, none)
    | [h, ch, bh] => do some (← h.toNat?, some ⟨← unhx ch, ← unhx bh⟩)
    | _ => none

/-! ## Specs evaluated on the implementation's results -/

/-- What the property says a rollup's data is: its submissions in block order, then its deposits. -/
def expectedData (inp : BuildInput) (id : Bytes) : List Bytes :=
  ((inp.subs.filter (·.1 = id)).map fun s => encSequenced s.2) ++
    ((inp.deps.filter (·.1 = id)).flatMap (·.2))

def expectedIdSet (inp : BuildInput) : List Bytes := (inp.subs.map (·.1) ++ inp.deps.map (·.1)).eraseDups

def strictlySorted : List Bytes → Bool
  | a :: b :: rest => bytesLt a b && strictlySorted (b :: rest)
  | _ => true

/-- structural decoding only (every proof check answered "true") -/
def structCtx (o : Oracle) : Ctx := { Hs := shaHs, V := fun _ _ _ => .value true, eciOk := o.fn }

/-- the crate's verification semantics (C08 ties `Flat` to the code) -/
def pv (π : Proof) (leaf root : Bytes) : Bool := flatV shaHs π (shaHs.H.leaf leaf) root == .value true

def rtProofOk (root : Bytes) (r : Rt) : Bool := pv r.proof (rollupLeaf shaHs r.id r.txs) root

def eciProofOk (dataHash : Bytes) : Option Eci → Bool
  | none => true
  | some e => pv e.proof (shaHs.sha e.info) dataHash

/-- every proof carried by a full block verifies against the commitments in its header -/
def fullProofsOk (b : Block) : List String :=
  (if pv b.txsProof (shaHs.sha b.header.txsRoot) b.header.dataHash then [] else ["rollup_transactions_proof"]) ++
  (if pv b.idsProof (shaHs.sha (treeRoot shaHs b.ids)) b.header.dataHash then [] else ["rollup_ids_proof"]) ++
  (if eciProofOk b.header.dataHash b.eci then [] else ["extended_commit_info proof"]) ++
  (b.rollups.filterMap fun r => if rtProofOk b.header.txsRoot r then none else some s!"proof of rollup {hx r.id}")

structure Sess where
  inp : Option BuildInput := none
  model : Option Block := none          -- the model's block
  impl : Option Block := none           -- the implementation's block (decoded from its dump)
  implRaw : Option BlockRaw := none
  honestRaws : List String := []        -- raw tokens the implementation itself produced (filter/split)

/-- monitors for a `reset` line on which the implementation built a block -/
def monitorBuilt (inp : BuildInput) (b : Block) : List (String × String) :=
  let ids := b.ids
  (if strictlySorted ids then [] else [("built_ids_sorted_set", "rollup ids not strictly ascending")]) ++
  (if ids.all (expectedIdSet inp).contains ∧ (expectedIdSet inp).all ids.contains then []
   else [("built_ids_sorted_set", "rollup ids are not the set of rollups with data")]) ++
  (b.rollups.filterMap fun r =>
    if r.txs = expectedData inp r.id then none
    else some ("built_data_exact", s!"data of rollup {hx r.id} is not submissions in block order ++ deposits")) ++
  ((fullProofsOk b).map fun m => ("built_proofs_verify", s!"{m} of the built block does not verify"))

/-- the reference content a receiver may accept for the session's data hash -/
def contentMismatch (built : Block) (content : List (Bytes × List Bytes)) (subsetOnly : Bool) : Option String :=
  if subsetOnly then
    match content.find? (fun e => !built.content.contains e) with
    | some e => some s!"accepted data for rollup {hx e.1} differs from the built block"
    | none => none
  else if content = built.content then none
  else some "accepted rollup data differs from the built block"

/-- Report a monitor failure; at most 3 lines per (monitor, label class) are printed (the
    rest is only counted) so that a recorded open finding cannot push another failure out of
    the driver's capped output. -/
def mon (r : Driver.Report) (name label : String) (n : Nat) (line msg : String) : Driver.Report :=
  let cls := (label.splitOn ":").headD label
  let key := s!"monfail_{name}_{cls}"
  let seen := match r.stats.find? (·.1 = key) with | some e => e.2 | none => 0
  let r := r.bump key
  if seen < 3 then r.addMonitor name n line msg else { r with monitorFail := r.monitorFail + 1 }

def stepFull (r0 : Driver.Report) (s : Sess) (n : Nat) (line label rawS impl : String) : Driver.Report := Id.run do
  let mut r := r0
  r := r.bump "op_full"
  match blockP rawS with
  | none => r := r.addDisagree n line "bad-op"
  | some (raw, o) =>
    r := r.check n line impl (resFull (flatCtx shaHs o.fn codeVerifiesRollupProofsInFullBlock) o raw)
    if resFull (flatCtx shaHs o.fn codeVerifiesRollupProofsInFullBlock) o raw ≠ resFull (rfcCtx shaHs o.fn codeVerifiesRollupProofsInFullBlock) o raw then r := r.bump "flat_rfc_differ"
    if impl = "panic" then r := mon r "no_panic" label n line "SequencerBlock::try_from_raw panicked"
    if some raw = s.implRaw ∧ !impl.startsWith "ok" then
      r := mon r "honest_accepted" label n line "the built block was rejected"
    if impl.startsWith "ok" then
      r := r.bump (if label = "honest" then "full_ok_honest" else "full_ok_tampered")
      let acc := if impl = "ok same" then some (raw, o) else blockP (impl.drop 3).toString
      match acc with
      | none => r := mon r "dump_parse" label n line "cannot parse the accepted block"
      | some (araw, ao) =>
        match fullFromRaw (structCtx ao) araw, s.impl with
        | .value (.ok b), some built =>
          if b.header.dataHash = built.header.dataHash then
            match contentMismatch built b.content false with
            | some msg => r := mon r "accepted_equals_built" label n line msg
            | none => pure ()
            if b.header.txsRoot ≠ built.header.txsRoot then
              r := mon r "accepted_equals_built" label n line "accepted another rollup transactions root for the same data hash"
          for m in fullProofsOk b do
            r := mon r "accepted_proofs_verify" label n line s!"accepted, but {m} does not verify"
        | .value (.ok _), none => pure ()
        | _, _ => r := mon r "reencode" label n line "the accepted block does not decode again"
    else r := r.bump s!"res_full_{impl}"
  return r

def stepFiltered (r0 : Driver.Report) (s : Sess) (n : Nat) (line label rawS impl : String) : Driver.Report := Id.run do
  let mut r := r0
  r := r.bump "op_filtered"
  match filteredP rawS with
  | none => r := r.addDisagree n line "bad-op"
  | some (raw, o) =>
    r := r.check n line impl (resFiltered (flatCtx shaHs o.fn) o raw)
    if resFiltered (flatCtx shaHs o.fn) o raw ≠ resFiltered (rfcCtx shaHs o.fn) o raw then r := r.bump "flat_rfc_differ"
    if impl = "panic" then r := mon r "no_panic" label n line "FilteredSequencerBlock::try_from_raw panicked"
    if s.honestRaws.contains rawS ∧ !impl.startsWith "ok" then
      r := mon r "honest_accepted" label n line "a filtered block produced by to_filtered_block was rejected"
    if impl.startsWith "ok" then
      r := r.bump (if label = "honest" then "filtered_ok_honest" else "filtered_ok_tampered")
      let acc := if impl = "ok same" then some (raw, o) else filteredP (impl.drop 3).toString
      match acc with
      | none => r := mon r "dump_parse" label n line "cannot parse the accepted block"
      | some (araw, ao) =>
        match filteredFromRaw (structCtx ao) araw, s.impl with
        | .value (.ok f), some built =>
          if f.header.dataHash = built.header.dataHash then
            match contentMismatch built f.content true with
            | some msg => r := mon r "accepted_equals_built" label n line msg
            | none => pure ()
            if f.allIds ≠ built.ids then
              r := mon r "accepted_equals_built" label n line "accepted a different list of all rollup ids"
            if f.header.txsRoot ≠ built.header.txsRoot then
              r := mon r "accepted_equals_built" label n line "accepted another rollup transactions root for the same data hash"
          if !pv f.txsProof (shaHs.sha f.header.txsRoot) f.header.dataHash then
            r := mon r "accepted_proofs_verify" label n line "accepted, but rollup_transactions_proof does not verify"
          if !pv f.idsProof (shaHs.sha (treeRoot shaHs f.allIds)) f.header.dataHash then
            r := mon r "accepted_proofs_verify" label n line "accepted, but rollup_ids_proof does not verify"
          if !eciProofOk f.header.dataHash f.eci then
            r := mon r "accepted_proofs_verify" label n line "accepted, but the extended commit info proof does not verify"
          for rt in f.rollups do
            if !rtProofOk f.header.txsRoot rt then
              r := mon r "accepted_proofs_verify" label n line s!"accepted, but the proof of rollup {hx rt.id} does not verify"
        | .value (.ok _), none => pure ()
        | _, _ => r := mon r "reencode" label n line "the accepted block does not decode again"
    else r := r.bump s!"res_filtered_{impl}"
  return r

def stepMeta (r0 : Driver.Report) (s : Sess) (n : Nat) (line label rawS impl : String) : Driver.Report := Id.run do
  let mut r := r0
  r := r.bump "op_meta"
  match metaP rawS with
  | none => r := r.addDisagree n line "bad-op"
  | some (raw, o) =>
    r := r.check n line impl (resMeta (flatCtx shaHs o.fn) o raw)
    if resMeta (flatCtx shaHs o.fn) o raw ≠ resMeta (rfcCtx shaHs o.fn) o raw then r := r.bump "flat_rfc_differ"
    if impl = "panic" then r := mon r "no_panic" label n line "SubmittedMetadata::try_from_raw panicked"
    if s.honestRaws.contains rawS ∧ !impl.startsWith "ok" then
      r := mon r "honest_accepted" label n line "the metadata produced by split_for_celestia was rejected"
    if impl.startsWith "ok" then
      r := r.bump (if label = "honest" then "meta_ok_honest" else "meta_ok_tampered")
      let acc := if impl = "ok same" then some (raw, o) else metaP (impl.drop 3).toString
      match acc with
      | none => r := mon r "dump_parse" label n line "cannot parse the accepted metadata"
      | some (araw, ao) =>
        match metaFromRaw (structCtx ao) araw, s.impl with
        | .value (.ok m), some built =>
          if m.header.dataHash = built.header.dataHash then
            if m.ids ≠ built.ids then
              r := mon r "accepted_equals_built" label n line "accepted a different list of rollup ids"
            if m.header.txsRoot ≠ built.header.txsRoot then
              r := mon r "accepted_equals_built" label n line "accepted another rollup transactions root for the same data hash"
          if !pv m.txsProof (shaHs.sha m.header.txsRoot) m.header.dataHash then
            r := mon r "accepted_proofs_verify" label n line "accepted, but rollup_transactions_proof does not verify"
          if !pv m.idsProof (shaHs.sha (treeRoot shaHs m.ids)) m.header.dataHash then
            r := mon r "accepted_proofs_verify" label n line "accepted, but rollup_ids_proof does not verify"
          if !eciProofOk m.header.dataHash m.eci then
            r := mon r "accepted_proofs_verify" label n line "accepted, but the extended commit info proof does not verify"
        | .value (.ok _), none => pure ()
        | _, _ => r := mon r "reencode" label n line "the accepted metadata does not decode again"
    else r := r.bump s!"res_meta_{impl}"
  return r

def stepBlob (r0 : Driver.Report) (s : Sess) (n : Nat) (line label rawS impl : String) : Driver.Report := Id.run do
  let mut r := r0
  r := r.bump "op_blob"
  match blobP rawS with
  | none => r := r.addDisagree n line "bad-op"
  | some raw =>
    r := r.check n line impl (resBlob raw)
    if impl = "panic" then r := mon r "no_panic" label n line "SubmittedRollupData::try_from_raw panicked"
    if s.honestRaws.contains rawS ∧ !impl.startsWith "ok" then
      r := mon r "honest_accepted" label n line "a rollup blob produced by split_for_celestia was rejected"
    if impl.startsWith "ok" then r := r.bump "blob_ok" else r := r.bump s!"res_blob_{impl}"
  return r


/-! ### C17: wire lines -/

def txUrl : Bytes := "/astria.protocol.transaction.v1.TransactionBody".toUTF8.toList

def txOracles (key sigok bodyok : Bool) : TxOracles where
  keyOk := fun _ => key
  sigOk := fun _ _ _ => sigok
  bodyOk := fun u _ => bodyok && u == txUrl
  bodyUrl := txUrl
  bodyOk_url := by intro u v h; simp only [Bool.and_eq_true, beq_iff_eq] at h; exact h.2

def txErrName : TxErr → String
  | .signature => "Signature" | .verificationKey => "VerificationKey" | .unsetBody => "UnsetBody"
  | .verification => "Verification" | .body => "TransactionBody"

/-- `raw=<dump> res=<verdict> re=<0|1|2>` -/
def wireParts (impl : String) : Option (String × String × String) :=
  match impl.splitOn " " with
  | [a, b, c] =>
    if a.startsWith "raw=" ∧ b.startsWith "res=" ∧ c.startsWith "re=" then
      some ((a.drop 4).toString, ((b.drop 4).toString).replace "@" " ", (c.drop 3).toString)
    else none
  | _ => none

def stepWire (r0 : Driver.Report) (s : Sess) (n : Nat) (line kind label impl : String) : Driver.Report := Id.run do
  let mut r := r0
  let wl := s!"wire-{label}"
  r := r.bump s!"op_wire_{kind}"
  if impl = "panic" then
    return mon r "wire_no_panic" wl n line s!"decoding {kind} bytes panicked"
  if impl = "prost-err" ∨ impl = "not-a-blob" then
    -- rejected by the byte layer (prost): nothing for the glue model to say
    return (r.check n line impl impl).bump s!"wire_{impl}"
  match wireParts impl with
  | none => return r.addDisagree n line "bad-result"
  | some (dump, res, re) =>
    if res = "panic" ∨ re = "2" then r := mon r "wire_no_panic" wl n line s!"{kind}: try_from_raw (or re-encoding) panicked"
    if re = "0" then r := mon r "wire_reencode" wl n line s!"{kind}: the accepted value does not re-encode to an equivalent message"
    match kind with
    | "block" => return stepFull r s n line wl dump res
    | "filtered" => return stepFiltered r s n line wl dump res
    | "meta" => return stepMeta r s n line wl dump res
    | "blob" => return stepBlob r s n line wl dump res
    | "tx" =>
      let f := fieldsOf dump
      let parsed : Option (TxRaw × Bool × Bool × Bool) := do
        let bodyS ← fget f "body"
        let body ← if bodyS = "~" then some none else
          match bodyS.splitOn ";" with
          | [u, v] => do some (some (← unhx u, ← unhx v))
          | _ => none
        some (⟨← unhx (← fget f "sig"), ← unhx (← fget f "pk"), body⟩,
              (← fget f "key") = "1", (← fget f "sigok") = "1", (← fget f "bodyok") = "1")
      match parsed with
      | none => return r.addDisagree n line "bad-result"
      | some (raw, key, sigok, bodyok) =>
        let o := txOracles key sigok bodyok
        let m := match txFromRaw o raw with
          | .error e => s!"err:{txErrName e}"
          | .ok t => if t.toRaw o = raw then "ok same" else "ok differs"
        r := r.check n line res m
        if res.startsWith "ok" then
          r := r.bump "wire_tx_ok"
          if !(key && sigok && bodyok) then
            r := mon r "wire_accepted_consistent" wl n line "accepted a transaction whose key / signature / body does not check"
          if res ≠ "ok same" then
            r := mon r "wire_reencode" wl n line "the accepted transaction re-encodes to a different message"
        else r := r.bump s!"wire_tx_{res}"
        return r
    | "rollupdata" =>
      let m := match (dump.drop 2).toString.splitOn ";" with
        | ["~"] => "err:FieldNotSet"
        | ["seq", _] => "ok same"
        | ["dep", "1"] => "ok same"
        | ["dep", "0"] => "err:Deposit"
        | ["pf", "1"] => "ok same"
        | ["pf", "0"] => "err:PriceFeedData"
        | _ => "bad-result"
      -- a deposit may re-encode to an equivalent but not identical message (hex case of the source
      -- transaction id is normalised); `re=1` has established idempotence on the Rust side
      if res = "ok differs" then r := r.bump "wire_rollupdata_normalised"
      r := r.check n line (if res = "ok differs" then "ok same" else res) m
      r := r.bump s!"wire_rollupdata_{(res.splitOn " ").headD ""}"
      return r
    | "hblob" =>
      let m := if dump = "!" ∨ dump = "0" then some "0" else do
        let es ← (dump.splitOn "+").mapM metaP
        let o : Oracle := es.flatMap (·.2)
        match convertList (metaFromRaw (flatCtx shaHs o.fn)) (some (es.map (·.1))) with
        | .panic => some "panic"
        | .value [] => some "0"
        | .value l => some s!"{l.length}:{"+".intercalate (l.map fun x => metaS (okOracle x.eci ++ o) x.toRaw)}"
      r := r.check n line res (m.getD "bad-result")
      r := r.bump (if res = "0" then "wire_hblob_none" else "wire_hblob_some")
      return r
    | "rblob" =>
      let m := if dump = "!" ∨ dump = "0" then some "0" else do
        let es ← (dump.splitOn "+").mapM blobP
        match convertList blobFromRaw (some es) with
        | .panic => some "panic"
        | .value [] => some "0"
        | .value l => some s!"{l.length}:{"+".intercalate (l.map fun x => blobS x.toRaw)}"
      r := r.check n line res (m.getD "bad-result")
      r := r.bump (if res = "0" then "wire_rblob_none" else "wire_rblob_some")
      return r
    | _ => return r.addDisagree n line "bad-kind"

def run (lines : Array String) : Driver.Report := Id.run do
  let mut r : Driver.Report := {}
  let mut n := 0
  let mut s : Sess := {}
  for line in lines do
    n := n + 1
    let (op, impl) := Driver.splitLine line
    match Driver.words op with
    | ["block", "reset", spec] =>
      let label := "reset"
      r := r.bump "op_reset"
      match specP spec with
      | none => r := r.addDisagree n line "bad-op"
      | some inp =>
        let res := tryBuild shaHs inp
        let m := match res with
          | .error .idsRootMismatch => "err:RollupIdsRootDoesNotMatchReconstructed"
          | .error .txsRootMismatch => "err:RollupTransactionsRootDoesNotMatchReconstructed"
          | .ok b => s!"ok {blockS (okOracle b.eci) b.toRaw}"
        r := r.check n line impl m
        s := { inp := some inp, model := res.toOption }
        if impl = "panic" then r := mon r "no_panic" label n line "building a block panicked"
        if impl.startsWith "ok " then
          r := r.bump s!"built_rollups_{(match res with | .ok b => b.rollups.length | _ => 0)}"
          match blockP (impl.drop 3).toString with
          | none => r := mon r "dump_parse" label n line "cannot parse the built block"
          | some (raw, o) =>
            match fullFromRaw (structCtx o) raw with
            | .value (.ok b) =>
              s := { s with impl := some b, implRaw := some raw }
              for (name, msg) in monitorBuilt inp b do r := mon r name label n line msg
              -- an honest proposer's commitments are the ones the builder recomputes
              let (c1, c2) := commitments shaHs inp.subs inp.deps
              if c1 ≠ b.header.txsRoot ∨ c2 ≠ inp.idsRoot then
                r := mon r "built_commitments" label n line "built block's roots are not the commitments of its data"
            | _ => r := mon r "dump_parse" label n line "the built block does not decode structurally"
        else
          r := r.bump s!"res_{impl}"
    | ["block", "full", label, rawS] => r := stepFull r s n line label rawS impl
    | ["block", "filtered", label, rawS] => r := stepFiltered r s n line label rawS impl
    | ["block", "meta", label, rawS] => r := stepMeta r s n line label rawS impl
    | ["block", "blob", label, rawS] => r := stepBlob r s n line label rawS impl
    | ["block", "wire", kind, label, _hex] => r := stepWire r s n line kind label impl
    | ["block", "filter", idsS'] =>
      let label := "filter"
      r := r.bump "op_filter"
      match idsP idsS', s.model with
      | some ids, some b =>
        let f := toFiltered b ids
        r := r.check n line impl (filteredS (okOracle f.eci) f.toRaw)
        r := r.bump s!"filter_request_{ids.length}_returned_{f.rollups.length}"
        s := { s with honestRaws := impl :: s.honestRaws }
        -- spec on the implementation's answer
        match filteredP impl, s.impl with
        | some (fraw, fo), some built =>
          match filteredFromRaw (structCtx fo) fraw with
          | .value (.ok fi) =>
            let want := (ids.filter built.ids.contains).eraseDups
            if fi.rollups.map (·.id) ≠ want then
              r := mon r "filter_exact" label n line "returned rollups are not requested ∩ present (in request order)"
            if fi.rollups.any (fun rt => !built.rollups.contains rt) then
              r := mon r "filter_exact" label n line "a returned rollup entry differs from the stored one"
            if fi.allIds ≠ built.ids ∨ fi.header ≠ built.header ∨ fi.txsProof ≠ built.txsProof ∨ fi.idsProof ≠ built.idsProof
                ∨ fi.blockHash ≠ built.blockHash then
              r := mon r "filter_exact" label n line "ids / header / proofs of the filtered block differ from the block"
          | _ => r := mon r "dump_parse" label n line "filtered block does not decode structurally"
        | _, _ => r := mon r "dump_parse" label n line "cannot parse the filtered block"
      | some _, none => r := r.check n line impl "no-block"
      | _, _ => r := r.addDisagree n line "bad-op"
    | ["block", "commit", _txs, spec] =>
      -- generate_rollup_datas_commitment on real checked transactions (sequencer harness)
      r := r.bump "op_commit"
      match specP spec with
      | none => r := r.addDisagree n line "bad-op"
      | some inp =>
        let (c1, c2) := commitments shaHs inp.subs inp.deps
        r := r.check n line impl s!"{hx c1} {hx c2}"
        -- what the proposer commits to is what the builder recomputes from the executed block
        if inp.txsRoot ≠ c1 ∨ inp.idsRoot ≠ c2 then
          r := mon r "commitment_matches_builder" "commit" n line "astria-core's grouping and the specification's commitments differ"
    | ["block", "grpcfilter", idsS'] =>
      let label := "grpcfilter"
      r := r.bump "op_grpcfilter"
      match idsP idsS', s.model with
      | some ids, some b =>
        if ids.any (fun i => i.length != 32) then
          r := r.check n line impl "grpc-error:InvalidArgument"
        else
          let f := grpcFiltered b ids
          r := r.check n line impl (filteredS (okOracle b.eci) f)
          r := r.bump s!"grpcfilter_request_{ids.length}_returned_{f.rollups.length}"
          s := { s with honestRaws := impl :: s.honestRaws }
          match filteredP impl, s.impl with
          | some (fraw, _), some built =>
            let want := (ids.filter built.ids.contains).filterMap fun id =>
              (built.rollups.find? fun x => x.id = id).map Rt.toRaw
            if fraw.rollups ≠ want then
              r := mon r "grpc_filter_exact" label n line "served entries are not the stored entries of the requested present rollups (request order)"
            if fraw.allIds ≠ built.ids ∨ fraw.header ≠ some built.header.toRaw ∨ fraw.blockHash ≠ built.blockHash
                ∨ fraw.txsProof ≠ some (encodeProof built.txsProof) ∨ fraw.idsProof ≠ some (encodeProof built.idsProof) then
              r := mon r "grpc_filter_exact" label n line "ids / header / proofs of the served block differ from the stored block"
          | _, _ => r := mon r "dump_parse" label n line "cannot parse the served filtered block"
      | some _, none => r := r.check n line impl "no-block"
      | _, _ => r := r.addDisagree n line "bad-op"
    | ["block", "split"] =>
      let label := "split"
      r := r.bump "op_split"
      match s.model with
      | none => r := r.check n line impl "no-block"
      | some b =>
        let (m, bs) := split b
        let out := " # ".intercalate (metaS (okOracle m.eci) m.toRaw :: bs.map fun x => blobS x.toRaw)
        r := r.check n line impl out
        s := { s with honestRaws := (impl.splitOn " # ") ++ s.honestRaws }
        match impl.splitOn " # ", s.impl with
        | mS :: bS, some built =>
          match metaP mS with
          | some (mraw, mo) =>
            match metaFromRaw (structCtx mo) mraw with
            | .value (.ok mi) =>
              if mi.ids ≠ built.ids ∨ mi.header ≠ built.header ∨ mi.blockHash ≠ built.blockHash
                  ∨ mi.txsProof ≠ built.txsProof ∨ mi.idsProof ≠ built.idsProof then
                r := mon r "split_exact" label n line "metadata differs from the block"
            | _ => r := mon r "dump_parse" label n line "metadata does not decode structurally"
          | none => r := mon r "dump_parse" label n line "cannot parse metadata"
          let blobs := bS.filterMap fun x => match blobP x with
            | some br => match blobFromRaw br with | .value (.ok bb) => some bb | _ => none
            | none => none
          if blobs.map (fun x => (x.blockHash, x.id, x.txs, x.proof)) ≠
              built.rollups.map (fun rt => (built.blockHash, rt.id, rt.txs, rt.proof)) then
            r := mon r "split_exact" label n line "rollup blobs are not the block's rollup entries in order"
        | _, _ => pure ()
    | "block" :: "celestia" :: label :: rest =>
      r := r.bump "op_celestia"
      let f := rest.filterMap fun kv => match kv.splitOn "=" with
        | k :: v :: more => some (k, "=".intercalate (v :: more))
        | _ => none
      let parsed : Option (ConductorCfg × List (Nat × Option Commit) × List (Option (List (MetaRaw × Oracle))) × List (Option (List BlobRaw))) := do
        let cfgS ← fget f "cfg"
        let (rid, nf) ← match cfgS.splitOn ":" with | [a, b] => do some (← unhx a, ← b.toNat?) | _ => none
        let commits ← commitsP (← fget f "commits")
        let ms ← blobsP metaP (← fget f "M")
        let bs ← blobsP blobP (← fget f "R")
        some (⟨rid, nf, fun h => match commits.find? (·.1 = h) with | some c => c.2 | none => none⟩, commits, ms, bs)
      match parsed with
      | none => r := r.addDisagree n line "bad-op"
      | some (cfg, _commits, ms, bs) =>
        let o : Oracle := ms.flatMap fun b => match b with | some l => l.flatMap (·.2) | none => []
        let msRaw := ms.map fun b => b.map fun l => l.map (·.1)
        let c := flatCtx shaHs o.fn
        let res := match conductor c codeChecksBlobRollupId cfg msRaw bs with
          | .panic => "panic"
          | .value l => recS l
        r := r.check n line impl res
        if impl = "panic" then r := mon r "no_panic" label n line "the conductor pipeline panicked"
        r := r.bump (if impl = "." then "celestia_none" else "celestia_some")
        -- spec: every reconstructed block carries data only from a blob of the conductor's rollup
        -- that is bound to the root of the metadata with that block hash
        let metas := match convertAll (metaFromRaw c) msRaw with | .value l => l | .panic => []
        let blobs := match convertAll blobFromRaw bs with | .value l => l | .panic => []
        if impl ≠ "." ∧ impl ≠ "panic" then
          for blk in impl.splitOn "+" do
            match blk.splitOn ":" with
            | [hS, _hd, txS] =>
              match unhx hS, blP txS with
              | some h, some txs =>
                let bound := blobs.any fun b =>
                  b.blockHash = h ∧ b.txs = txs ∧ b.id = cfg.rollupId ∧
                    metas.any fun m => m.blockHash = h ∧ pv b.proof (rollupLeaf shaHs b.id b.txs) m.header.txsRoot
                let emptyOk := txs.isEmpty ∧ metas.any fun m => m.blockHash = h ∧ !m.ids.contains cfg.rollupId
                -- whoever is in the sequencer's commit table
                let committed := match metas.find? (fun m => m.blockHash = h) with
                  | some m => (match cfg.commits m.header.height with
                    | some cm => cm.blockHash = h ∧ cm.chainId = m.header.chainId ∧ m.header.height ≥ cfg.nextFirmHeight
                    | none => false)
                  | none => false
                if !committed then
                  r := mon r "receiver_block_bound" label n line s!"reconstructed block {hS} is not the committed block of its height"
                -- data of ANOTHER rollup, validly bound to this block (DESIGN §7 F10)
                let foreign := blobs.find? fun b =>
                  b.blockHash = h ∧ b.txs = txs ∧ b.id ≠ cfg.rollupId ∧
                    metas.any fun m => m.blockHash = h ∧ pv b.proof (rollupLeaf shaHs b.id b.txs) m.header.txsRoot
                let attributed := bound ∨ emptyOk
                if !attributed then
                  match foreign with
                  | some fb =>
                    r := mon r "receiver_attribution" label n line
                      s!"reconstructed block {hS} carries the verified blob of another rollup ({hx fb.id}), not of the conductor's rollup"
                  | none =>
                    r := mon r "receiver_bound" label n line
                      s!"reconstructed block {hS} carries data that is no verified blob of this block"
                -- against what was built in this session
                match s.impl, s.inp with
                | some built, some inp =>
                  if attributed && built.blockHash == h && (metas.any fun m => m.blockHash == h && m.header == built.header) then
                    if txs ≠ expectedData inp cfg.rollupId then
                      r := mon r "receiver_data_exact" label n line
                        s!"reconstructed block {hS} does not carry exactly the conductor rollup's data of the built block"
                | _, _ => pure ()
              | _, _ => r := mon r "dump_parse" label n line "cannot parse reconstructed block"
            | _ => r := mon r "dump_parse" label n line "cannot parse reconstructed block"
    | _ => r := r.addDisagree n line "bad-area"
  return r

end Driver.BlockArea
