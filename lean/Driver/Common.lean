/- Shared plumbing of the line-protocol driver. -/
namespace Driver

structure Report where
  lines : Nat := 0
  agree : Nat := 0
  disagree : Nat := 0
  monitorFail : Nat := 0
  out : Array String := #[]        -- DISAGREE lines (capped)
  mon : Array String := #[]        -- MONITOR lines (capped separately, printed first)
  stats : List (String × Nat) := []
  deriving Inhabited

def Report.bump (r : Report) (key : String) (by_ : Nat := 1) : Report :=
  let rec go : List (String × Nat) → List (String × Nat)
    | [] => [(key, by_)]
    | (k, v) :: rest => if k = key then (k, v + by_) :: rest else (k, v) :: go rest
  { r with stats := go r.stats }

def cap : Nat := 200

def Report.addDisagree (r : Report) (lineno : Nat) (line model : String) : Report :=
  let r := { r with disagree := r.disagree + 1 }
  if r.out.size < cap then
    { r with out := r.out.push s!"DISAGREE {lineno} | {line} | model={model}" }
  else r

def Report.addMonitor (r : Report) (name : String) (lineno : Nat) (line msg : String) : Report :=
  let r := { r with monitorFail := r.monitorFail + 1 }
  if r.mon.size < cap then
    { r with mon := r.mon.push s!"MONITOR {name} {lineno} | {line} | {msg}" }
  else r

/-- Split `op… => result`. -/
def splitLine (line : String) : String × String :=
  match line.splitOn " => " with
  | [a, b] => (a, b)
  | a :: rest => (a, " => ".intercalate rest)
  | [] => ("", "")

def words (s : String) : List String := (s.splitOn " ").filter (· ≠ "")

/-- Compare, record. -/
def Report.check (r : Report) (lineno : Nat) (line impl model : String) : Report :=
  let r := { r with lines := r.lines + 1 }
  if impl = model then { r with agree := r.agree + 1 } else r.addDisagree lineno line model

def Report.print (r : Report) : IO Unit := do
  for l in r.mon do IO.println l
  for l in r.out do IO.println l
  IO.println s!"STAT lines {r.lines}"
  IO.println s!"STAT agree {r.agree}"
  IO.println s!"STAT disagree {r.disagree}"
  IO.println s!"STAT monitor_fail {r.monitorFail}"
  for (k, v) in r.stats do IO.println s!"STAT {k} {v}"

end Driver
