import Astria.Abci.Model
import Driver.Common
/- Area `abci` (C05, C06): replays the trace of /verif/harness/sequencer/abci.rs through
   `Astria.Abci.step` and evaluates the decidable specs on what the implementation reported.

   The abstract primitives of the model are instantiated per line with *oracles* read from the
   line (what each transaction's execution returned, which transactions could be constructed at
   block start, whether an opaque phase failed); the model then has to reproduce everything that
   is control flow: accept / reject and its kind, which phases ran in which order (`ph=`), the
   execution-state fingerprint (`exec=`), whether the working state was reset (`rs=`), which
   transactions a proposal includes and its sizes, the per-item result codes of FinalizeBlock. -/
namespace Driver.AbciArea
open Astria.Abci

/-! ### small parsing helpers -/

def kvOf (ws : List String) (k : String) : Option String :=
  ws.findSome? fun w =>
    match w.splitOn "=" with
    | k' :: rest => if k' = k ∧ !rest.isEmpty then some ("=".intercalate rest) else none
    | [] => none

def kv (ws : List String) (k : String) : String := (kvOf ws k).getD ""

def natOf (s : String) : Nat := s.toNat?.getD 0

def idOf (s : String) : Nat :=
  natOf (String.ofList (s.toList.dropWhile (fun c => c.isAlpha)))

def hexDigit (c : Char) : Nat :=
  if c.isDigit then c.toNat - '0'.toNat
  else if 'a' ≤ c ∧ c ≤ 'f' then c.toNat - 'a'.toNat + 10 else 0

def hexToNat (s : String) : Nat := s.toList.foldl (fun acc c => acc * 16 + hexDigit c) 0

def sections (s : String) : List String := s.splitOn " | "

def commaList (s : String) : List String :=
  if s = "-" ∨ s = "" then [] else s.splitOn ","

/-! ### the concrete state of the replay: a phase log -/

structure DS where
  log : String := ""
  n : Nat := 0            -- successful executions so far in this call
  deriving Inhabited

structure TxInfo where
  tx : Tx
  spec : String
  deriving Inhabited

structure BlkInfo where
  blk : Block
  lcStr : String
  er : Nat × Nat
  np : Nat
  src : String
  hashStr : String
  deriving Inhabited

/-- oracles of one call -/
structure Oracle where
  veValid : Bool := true
  preFails : Option Err := none
  postFails : Bool := false
  pricesFail : Bool := false
  cs : List (Nat × Bool) := []
  /-- (tx id, successes before the attempt, outcome letter) in attempt order -/
  outcomes : List (Nat × Nat × Char) := []
  roots : Nat × Nat := (0, 0)
  eciFull : Nat × Nat := (0, 0)
  eciEmpty : Nat × Nat := (0, 0)
  upgrade : Option (Nat × Nat) := none
  np : Nat := 0

def attempts (ids : List Nat) (letters : List Char) : List (Nat × Nat × Char) :=
  let rec go : List Nat → List Char → Nat → List (Nat × Nat × Char)
    | id :: ids, c :: cs, k =>
        if c = 's' ∨ c = '_' ∨ c = '-' then go ids cs k
        else (id, k, c) :: go ids cs (if c = 'k' then k + 1 else k)
    | _, _, _ => []
  go ids letters 0

def hasTxItems (b : Block) : Bool :=
  match parseItems true b.items with
  | .ok pd => !pd.txs.isEmpty
  | .error _ => false

def mkPrims (o : Oracle) : Prims DS :=
  { veEnabled := fun _ _ => true
    veValid := fun _ _ => o.veValid
    pre := fun s b =>
      match o.preFails with
      | some e => .error e
      | none => .ok { s with log := s.log ++ "P" ++ (if hasTxItems b then "C" else "") }
    constructible := fun _ t => (o.cs.find? (·.1 = t.id)).map (·.2) |>.getD false
    execTx := fun s t =>
      match o.outcomes.find? (fun e => e.1 = t.id ∧ e.2.1 = s.n) with
      | some (_, _, 'k') => .ok { s with n := s.n + 1 }
      | some (_, _, 'n') => .nonfatal
      | some (_, _, 'i') => .invalidNonce
      | some (_, _, _) => .fatal
      -- the model executes a transaction the implementation did not execute: make it visible
      | none => .ok { s with n := s.n + 1, log := s.log ++ "?" }
    roots := fun _ _ => o.roots
    upgradeItem := fun _ _ => o.upgrade
    eciFull := fun _ _ => o.eciFull
    eciEmpty := fun _ => o.eciEmpty
    post := fun s _ _ => if o.postFails then .error .post else .ok ({ s with log := s.log ++ "O" }, 0)
    prices := fun s _ =>
      if o.pricesFail then .error .prices
      else .ok ({ s with log := s.log ++ (if o.np > 0 then "$" else "") }, 0) }

/-! ### session state -/

structure Sess where
  no : Nat := 0
  insts : Array (AppState DS) := #[]
  txs : List (Nat × TxInfo) := []
  blks : List (Nat × BlkInfo) := []
  lcs : List String := []
  xs : List (List Item × Nat) := []
  /-- block id ↦ core of the first FinalizeBlock result seen, its line number -/
  fins : List (Nat × String × Nat) := []
  /-- height ↦ core of the first Commit result seen -/
  commits : List (Nat × String) := []
  deriving Inhabited

def Sess.lcId (s : Sess) (lc : String) : Sess × Nat :=
  match s.lcs.findIdx? (· = lc) with
  | some i => (s, i)
  | none => ({ s with lcs := s.lcs ++ [lc] }, s.lcs.length)

def Sess.lcStr (s : Sess) (i : Option Nat) : String :=
  match i with
  | some i => s.lcs.getD i "?"
  | none => "nil"

def Sess.xOf (s : Sess) (items : List Item) : String :=
  match s.xs.find? (·.1 = items) with
  | some (_, x) => toString x
  | none => "?"

def Sess.cpLabel (s : Sess) (c : CachedProposal) : String :=
  s!"{c.height}.{c.time}.{c.proposer}.{s.lcStr c.lastCommit}.{s.xOf c.txs}"

def hex8 (n : Nat) : String :=
  let ds := (List.range 8).reverse.map fun i =>
    let d := (n / 16 ^ i) % 16
    Char.ofNat (if d < 10 then '0'.toNat + d else 'a'.toNat + d - 10)
  String.ofList ds

def Sess.execStr (s : Sess) : ExecState → String
  | .unset => "Unset"
  | .prepared c => s!"Prepared:{s.cpLabel c}"
  | .preparedValid c => s!"PreparedValid:{s.cpLabel c}"
  | .checkedPreparedMismatch c => s!"CheckedPreparedMismatch:{s.cpLabel c}"
  | .executedBlock h cp =>
      s!"ExecutedBlock:{hex8 h}:{match cp with | some c => s.cpLabel c | none => "none"}"
  | .checkedExecutedBlockMismatch h cp =>
      s!"CheckedExecutedBlockMismatch:{hex8 h}:{match cp with | some c => s.cpLabel c | none => "none"}"

def Sess.txOf (s : Sess) (id : Nat) : Tx :=
  match s.txs.find? (·.1 = id) with
  | some (_, ti) => ti.tx
  | none => { id := id, len := 0, seq := 0, group := 4 }

def Sess.specOf (s : Sess) (id : Nat) : String :=
  match s.txs.find? (·.1 = id) with
  | some (_, ti) => ti.spec
  | none => "?"

/-- `R1#5`, `R2#6`, `E#7:463:1`, `T12`, `G#9:309` -/
def Sess.parseItem (s : Sess) (w : String) : Item :=
  match w.splitOn "#" with
  | [k, rest] =>
    let ps := rest.splitOn ":"
    match k, ps with
    | "R1", [b] => .root1 (natOf b)
    | "R2", [b] => .root2 (natOf b)
    | "E", [b, l, wf] => .eci (natOf b) (natOf l) (wf = "1")
    | "U", [b, l] => .upgrade (natOf b) (natOf l)
    | "G", [b, l] => .garbage (natOf b) (natOf l)
    | _, _ => .garbage 0 0
  | _ => .tx (s.txOf (idOf w))

def itemShape : Item → String
  | .root1 _ => "R1" | .root2 _ => "R2" | .upgrade _ l => s!"U:{l}" | .eci _ l _ => s!"E:{l}"
  | .tx t => s!"T{t.id}" | .garbage _ l => s!"G:{l}"

/-- register the block described by a `h=.. t=.. … items=..` section -/
def Sess.addBlock (s : Sess) (bid : Nat) (desc : String) : Sess :=
  let ws := Driver.words desc
  let lc := kv ws "lc"
  let (s, lcid) := s.lcId lc
  let items := (commaList (kv ws "items")).map s.parseItem
  let x := natOf (kv ws "x")
  let s := if (s.xs.find? (·.1 = items)).isSome then s else { s with xs := s.xs ++ [(items, x)] }
  let er := match (kv ws "er").splitOn "," with
    | [a, b] => (natOf a, natOf b)
    | _ => (0, 0)
  let hs := kv ws "hash"
  let blk : Block :=
    { height := natOf (kv ws "h"), time := natOf (kv ws "t"), proposer := natOf (kv ws "p"),
      lastCommit := some lcid, misbehavior := 0, nextValHash := 0, items := items,
      hash := some (hexToNat hs) }
  let bi : BlkInfo := { blk := blk, lcStr := lc, er := er, np := natOf (kv ws "np"), src := kv ws "src", hashStr := hs }
  { s with blks := (bid, bi) :: s.blks.filter (·.1 ≠ bid) }

def Sess.blkOf (s : Sess) (bid : Nat) : Option BlkInfo := (s.blks.find? (·.1 = bid)).map (·.2)

def txItemIds (b : Block) : List Nat :=
  b.items.filterMap fun i => match i with | .tx t => some t.id | _ => none

/-- ids of the items in transaction position (for `cs=` / `xo=`), `0` for garbage -/
def txPosIds (b : Block) : List Nat :=
  match parseItems true b.items with
  | .ok pd => pd.txs.map fun i => match i with | .tx t => t.id | _ => 0
  | .error _ =>
    b.items.filterMap fun i => match i with | .tx t => some t.id | .garbage _ _ => some 0 | _ => none

def clearLogs (a : AppState DS) : AppState DS :=
  { a with committed := { log := "", n := 0 }, work := { log := "", n := 0 },
           writeBatch := a.writeBatch.map fun _ => { log := "", n := 0 } }

/-- identity of the `CommitInfo` a vote-extension spec projects to: round and per-validator
commit (`c`) / absent (`a`) flags — the extensions themselves are not part of the fingerprint -/
def lcKey (ve : String) : String :=
  if ve = "none" then "0:none" else
    let parts := ve.splitOn "/"
    let flags := (List.range 3).map fun i => if parts.getD (i + 1) "-" = "-" then 'a' else 'c'
    s!"{parts.headD "0"}:{String.ofList flags}"

def phStr (s : String) : String := if s = "" then "-" else s

def execKind : ExecState → String
  | .unset => "Unset" | .prepared _ => "Prepared" | .preparedValid _ => "PreparedValid"
  | .checkedPreparedMismatch _ => "CheckedPreparedMismatch" | .executedBlock _ none => "ExecutedBlock"
  | .executedBlock _ (some _) => "ExecutedBlockFromPrepared"
  | .checkedExecutedBlockMismatch _ _ => "CheckedExecutedBlockMismatch"

def blockTags (s : Sess) (bi : BlkInfo) : String :=
  let acts := " ".intercalate ((txItemIds bi.blk).map s.specOf)
  let tags := (if bi.np > 0 then ["prices"] else []) ++
    (if (acts.splitOn "pair.rm").length > 1 then ["pair-removal"] else [])
  s!"np={bi.np} src={bi.src} tags={",".intercalate tags} acts=[{acts}]"

def monitoredMutations : List String :=
  ["mutate:root1", "mutate:root2", "mutate:swaproots", "mutate:drop0", "mutate:drop1", "mutate:dropE",
   "mutate:Elast", "mutate:Efirst", "mutate:garbage", "mutate:unsigned", "mutate:regroup",
   "mutate:fatal", "mutate:overseq", "mutate:dropU"]

/-! ### the replay -/

def run (lines : Array String) : Driver.Report := Id.run do
  let mut r : Driver.Report := {}
  let mut st : Sess := {}
  let mut sessions := 0
  let mut n := 0
  for line in lines do
    n := n + 1
    let (op, impl) := Driver.splitLine line
    let ows := Driver.words op
    let secs := sections impl
    let sec0 := secs.headD ""
    let iws := Driver.words sec0
    let verdict := iws.headD ""
    match ows with
    | "abci" :: "reset" :: _ =>
      sessions := sessions + 1
      let k := natOf (kv ows "k")
      st := { no := sessions, insts := Array.replicate k (AppState.init ({} : DS)) }
      r := r.check n line impl s!"ok h={kv iws "h"} same={kv iws "same"} exec=Unset"
      r := r.bump "sessions"
      if kv iws "same" ≠ "1" then
        r := r.addMonitor "path_independence" n line "instances differ right after genesis + upgrade blocks"
    | "abci" :: "mktx" :: _ =>
      r := r.check n line impl impl
      r := r.bump s!"mktx_{(verdict.splitOn ":").headD ""}"
      if verdict = "ok" then
        let id := idOf (kv ows "t")
        let tx : Tx := { id := id, len := natOf (kv iws "len"), seq := natOf (kv iws "seq"), group := natOf (kv iws "g") }
        st := { st with txs := (id, { tx := tx, spec := kv ows "a" }) :: st.txs }
        r := r.bump s!"tx_group_{tx.group}"
    | "abci" :: "clearmp" :: _ =>
      r := r.check n line impl "ok"
    | "abci" :: "insert" :: _ =>
      -- the mempool is not part of this model (C13); the builder queue is an input of `prepare`
      r := r.check n line impl impl
      r := r.bump s!"insert_{verdict}"
    | "abci" :: "variant" :: _ | "abci" :: "mutate" :: _ =>
      r := r.check n line impl impl
      if verdict = "ok" then
        st := st.addBlock (idOf (kv ows "b")) (secs.getD 1 "")
        r := r.bump s!"blk_{kv (Driver.words (secs.getD 1 "")) "src"}"
      else r := r.bump "mutate_inapplicable"
    | "abci" :: "restart" :: _ =>
      let i := natOf (kv ows "i")
      let a := st.insts.getD i (AppState.init {})
      let (a', _) := step (mkPrims {}) a .restart
      st := { st with insts := st.insts.setIfInBounds i a' }
      r := r.check n line impl s!"ok exec={st.execStr a'.exec}"
      r := r.bump "op_restart"
    | "abci" :: "prepare" :: _ =>
      let i := natOf (kv ows "i")
      let bid := idOf (kv ows "b")
      let a := clearLogs (st.insts.getD i (AppState.init {}))
      -- queue and outcomes
      let qs := kv iws "q"
      let qents : List Tx := (if qs = "-" then [] else qs.splitOn ";").map fun e =>
        match e.splitOn ":" with
        | [id, len, sq, g] => { id := natOf id, len := natOf len, seq := natOf sq, group := natOf g }
        | _ => { id := 0, len := 0, seq := 0, group := 4 }
      let letters := (kv iws "o").toList
      let inj := (kv iws "inj").splitOn "/"
      let fullLen := natOf (inj.getD 0 "0")
      let emptyLen := natOf (inj.getD 1 "0")
      let ve := kv ows "ve"
      let lc := lcKey ve
      let (st1, lcid) := st.lcId lc
      st := st1
      -- oracles from the block description (ids of the commitment / ECI byte strings)
      let desc := secs.getD 2 ""
      let dws := Driver.words desc
      let ditems := (commaList (kv dws "items")).map st.parseItem
      let r1 := match ditems with | .root1 b :: _ => b | _ => 0
      let r2 := match ditems with | _ :: .root2 b :: _ => b | _ => 0
      let eb := (ditems.findSome? fun it => match it with | .eci b _ _ => some b | _ => none).getD 0
      let upg := ditems.findSome? fun it => match it with | .upgrade b l => some (b, l) | _ => none
      -- a failed prepare has no block description: the upgrade item (if any) is reported as `up=`
      let upg := match upg with
        | some u => some u
        | none => match (kv iws "up").splitOn ":" with
          | [b, l] => some (natOf b, natOf l)
          | _ => none
      let o : Oracle :=
        { outcomes := attempts (qents.map (·.id)) letters, roots := (r1, r2),
          eciFull := (eb, fullLen), eciEmpty := (eb, emptyLen), upgrade := upg }
      let maxS := kv ows "max"
      let req : PrepReq :=
        { height := natOf (kv ows "h"), time := natOf (kv ows "t"), proposer := natOf (kv ows "p"),
          lastCommit := some lcid, misbehavior := 0, nextValHash := 0,
          maxTxBytes := maxS.toInt?.getD 0, queue := qents }
      let (a', resp) := step (mkPrims o) a (.prepare req)
      st := { st with insts := st.insts.setIfInBounds i a' }
      let echo := s!"q={qs} o={kv iws "o"} inj={kv iws "inj"} up={kv iws "up"}"
      match resp with
      | .prepared items =>
        if verdict = "ok" then st := st.addBlock bid desc
        let inc := items.filterMap fun it => match it with | .tx t => some (toString t.id) | _ => none
        let cb := (items.map Item.len).sum
        let sb := (items.map fun it => match it with | .tx t => t.seq | _ => 0).sum
        let shape := ",".intercalate (items.map itemShape)
        let m := s!"ok {echo} | inc={if inc.isEmpty then "-" else ",".intercalate inc} cb={cb} sb={sb} shape={shape} exec={st.execStr a'.exec} ph={phStr a'.work.log} | {desc}"
        r := r.check n line impl m
        r := r.bump "prepare_ok"
        if items ≠ ditems ∧ verdict = "ok" then
          r := r.addDisagree n line "model's proposal items differ from the implementation's"
      | .prepareErr e =>
        r := r.check n line impl s!"err:{e.name} {echo} | exec={st.execStr a'.exec} ph={phStr a'.work.log}"
        r := r.bump s!"prepare_err_{e.name}"
      | _ => r := r.addDisagree n line "bad-response"
      -- monitor `within_limits` on the implementation's own proposal
      if verdict = "ok" then
        let mws := Driver.words (secs.getD 1 "")
        let incIds := (commaList (kv mws "inc")).map natOf
        let cbI := natOf (kv mws "cb")
        let sbI := natOf (kv mws "sb")
        let maxN := natOf maxS
        let incTx := incIds.map fun id => (qents.find? (·.id = id)).getD { id := id, len := 0, seq := 0, group := 4 }
        let injLen := (ditems.map fun it => match it with | .eci _ l _ => l | .upgrade _ l => l | _ => 0).sum
        let sumLen := 68 + injLen + (incTx.map (·.len)).sum
        let sumSeq := (incTx.map (·.seq)).sum
        let groupsOk := (incTx.map (·.group)).zip ((incTx.map (·.group)).drop 1) |>.all fun (g1, g2) => g2 ≤ g1
        let letterOf := fun (id : Nat) =>
          match (qents.map (·.id)).zip letters |>.find? (·.1 = id) with
          | some (_, c) => c
          | none => '?'
        let badIncluded := incIds.filter fun id => letterOf id ≠ 'k' ∧ letterOf id ≠ 'n'
        for _ in incIds do r := r.bump "included_txs"
        r := r.bump s!"queue_len_{if qents.length > 8 then "9+" else toString qents.length}"
        for c in letters do r := r.bump s!"queue_outcome_{c}"
        if cbI > maxN ∨ sumLen > maxN then
          r := r.addMonitor "within_limits" n line s!"proposal bytes {sumLen} exceed max_tx_bytes {maxN}"
        if sbI > 256000 ∨ sumSeq > 256000 then
          r := r.addMonitor "within_limits" n line s!"sequenced data {sumSeq} exceeds 256000"
        if cbI ≠ sumLen ∨ sbI ≠ sumSeq then
          r := r.addMonitor "within_limits" n line s!"reported sizes ({cbI},{sbI}) differ from the recomputed ({sumLen},{sumSeq})"
        if !groupsOk then
          r := r.addMonitor "within_limits" n line "included transactions are not ordered by group"
        if !badIncluded.isEmpty then
          r := r.addMonitor "within_limits" n line s!"included transactions that failed fatally or were not executed: {badIncluded}"
    | "abci" :: "process" :: _ =>
      let i := natOf (kv ows "i")
      let bid := idOf (kv ows "b")
      match st.blkOf bid with
      | none =>
        r := r.check n line impl "err:noblock"
      | some bi =>
        let a := clearLogs (st.insts.getD i (AppState.init {}))
        let kind := ((verdict.splitOn ":").getD 1 "")
        let posIds := txPosIds bi.blk
        let cs := (kv iws "cs").toList
        let xo := (kv iws "xo").toList
        let o : Oracle :=
          { veValid := kind ≠ "ve",
            preFails := if kind = "pre" then some .pre else if kind = "upgrade" then some .upgrade else none,
            postFails := kind = "post",
            cs := posIds.zip (cs.map (· = '1')),
            outcomes := attempts posIds xo, roots := bi.er, np := bi.np }
        let (a', resp) := step (mkPrims o) a (.process bi.blk)
        st := { st with insts := st.insts.setIfInBounds i a' }
        let (_, skip) := a.exec.checkPrepared bi.blk.fp
        let parsed := match parseItems true bi.blk.items with | .ok _ => true | .error _ => false
        let rs := if !skip && parsed then 1 else 0
        let v := match resp with
          | .accept => "accept"
          | .reject e => s!"reject:{e.name}"
          | _ => "bad-response"
        -- the post_execute span exists even when the phase fails: a failed post still shows `O`
        let plog := if kind = "post" then a'.work.log ++ "O"
          else if kind = "pre" ∨ kind = "upgrade" then a'.work.log ++ "P" else a'.work.log
        r := r.check n line impl s!"{v} cs={kv iws "cs"} xo={kv iws "xo"} | exec={st.execStr a'.exec} rs={rs} ph={phStr plog}"
        r := r.bump s!"process_{verdict}"
        r := r.bump s!"process_from_{execKind a.exec}"
        r := r.bump s!"exec_after_process_{execKind a'.exec}"
        r := r.bump s!"process_path_{if skip then "cached" else "executed"}"
        -- monitors on the implementation's verdict
        let wf := bi.blk.items.all fun it => match it with | .eci _ _ w => w | _ => true
        let tags := (if !wf then ["eci-fallback"] else []) ++ (if cs.contains '0' then ["unconstructible"] else [])
        if bi.src = "prepare" ∧ verdict ≠ "accept" then
          r := r.addMonitor "honest_accepted" n line s!"proposal produced by prepare_proposal was rejected: {verdict} tags={",".intercalate tags} {blockTags st bi}"
        if monitoredMutations.contains bi.src then
          r := r.bump s!"mutation_{bi.src}_{(verdict.splitOn ":").headD ""}"
          if verdict = "accept" then
            r := r.addMonitor "mutated_rejected" n line s!"a {bi.src} proposal was accepted: {blockTags st bi}"
    | "abci" :: "finalize" :: _ =>
      let i := natOf (kv ows "i")
      let bid := idOf (kv ows "b")
      match st.blkOf bid with
      | none => r := r.check n line impl "err:noblock"
      | some bi =>
        let a0 := st.insts.getD i (AppState.init {})
        if a0.writeBatch.isSome then
          r := r.check n line impl "err:already-finalized"
        else
          let a := clearLogs a0
          let kind := ((verdict.splitOn ":").getD 1 "")
          let posIds := txPosIds bi.blk
          let cs := (kv iws "cs").toList
          let xo := (kv iws "xo").toList
          let o : Oracle :=
            { preFails := if kind = "pre" then some .pre else if kind = "upgrade" then some .upgrade else none,
              postFails := kind = "post",
              pricesFail := kind = "prices",
              cs := posIds.zip (cs.map (· = '1')),
              outcomes := attempts posIds xo, roots := bi.er, np := bi.np }
          let (_, skip) := match bi.blk.hash with
            | some h => a.exec.checkExecuted h
            | none => (a.exec, false)
          let (a', resp) := step (mkPrims o) a (.finalize bi.blk)
          st := { st with insts := st.insts.setIfInBounds i a' }
          let staged := match a'.writeBatch with | some w => w.log | none => a'.work.log
          -- the price span is created before the failing put: a failed price phase still shows `$`
          let staged := if kind = "prices" ∧ bi.np > 0 then staged ++ "$" else staged
          let staged := if kind = "post" then staged ++ "O"
            else if kind = "pre" ∨ kind = "upgrade" then staged ++ "P" else staged
          let tail := s!"cs={kv iws "cs"} xo={kv iws "xo"} | exec={st.execStr a'.exec} ph="
          match resp with
          | .finalized fr =>
            let codes := ",".intercalate (fr.codes.map toString)
            r := r.check n line impl s!"ok app={kv iws "app"} res={if fr.codes.isEmpty then "-" else codes} vu={kv iws "vu"} cpu={kv iws "cpu"} ev={kv iws "ev"} {tail}{phStr (staged ++ "M")}"
          | .finalizeErr e =>
            r := r.check n line impl s!"err:{e.name} {tail}{phStr staged}"
          | .finalizePanic =>
            r := r.check n line impl s!"panic {tail}{phStr staged}"
          | _ => r := r.addDisagree n line "bad-response"
          r := r.bump s!"finalize_{(verdict.splitOn ":").headD ""}"
          r := r.bump s!"finalize_from_{execKind a.exec}"
          r := r.bump s!"finalize_path_{if skip then "cached" else "executed"}"
          if bi.np > 0 then r := r.bump s!"finalize_with_prices_{if skip then "cached" else "executed"}"
          -- monitor `path_independence`: every instance that finalizes this block reports the same
          let core := if verdict = "ok"
            then s!"ok app={kv iws "app"} res={kv iws "res"} vu={kv iws "vu"} cpu={kv iws "cpu"} ev={kv iws "ev"}"
            else "failed"
          match st.fins.find? (·.1 = bid) with
          | none => st := { st with fins := (bid, core, n) :: st.fins }
          | some (_, first, ln) =>
            r := r.bump "finalize_compared"
            if first ≠ core then
              let tags := if cs.contains '0' then "unconstructible" else ""
              r := r.addMonitor "path_independence" n line s!"FinalizeBlock differs from line {ln}: first=[{first}] this=[{core}] path={if skip then "cached" else "executed"} {tags} {blockTags st bi}"
    | "abci" :: "commit" :: _ =>
      let i := natOf (kv ows "i")
      let a := st.insts.getD i (AppState.init {})
      let (a', resp) := step (mkPrims {}) a .commit
      st := { st with insts := st.insts.setIfInBounds i a' }
      match resp with
      | .committed =>
        r := r.check n line impl s!"ok h={kv iws "h"} app={kv iws "app"} sv={kv iws "sv"} snv={kv iws "snv"} exec={st.execStr a'.exec}"
        let h := natOf (kv iws "h")
        let core := s!"app={kv iws "app"} sv={kv iws "sv"} snv={kv iws "snv"}"
        match st.commits.find? (·.1 = h) with
        | none => st := { st with commits := (h, core) :: st.commits }
        | some (_, first) =>
          r := r.bump "commit_compared"
          if first ≠ core then
            r := r.addMonitor "path_independence" n line s!"committed state differs at height {h}: first=[{first}] this=[{core}]"
      | _ => r := r.check n line impl "err:nobatch"
      r := r.bump "op_commit"
    | _ => r := r.addDisagree n line "bad-op"
  return r

end Driver.AbciArea
