import Driver.Common
import Driver.BatchArea
/- `driver-batch <trace-file>`: replays an implementation trace of area `batch` through the Lean model. -/
def main (args : List String) : IO UInt32 := do
  match args with
  | [path] =>
    let text ← IO.FS.readFile path
    let lines := (text.splitOn "\n").filter (· ≠ "") |>.toArray
    let rep := Driver.BatchArea.run lines
    rep.print
    return 0
  | _ =>
    IO.println "usage: driver-batch <trace>"
    return 2
