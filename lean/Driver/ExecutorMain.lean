import Driver.Common
import Driver.ExecutorArea
/- `driver-executor <trace-file>`: replays an implementation trace of area `executor` through the Lean model. -/
def main (args : List String) : IO UInt32 := do
  match args with
  | [path] =>
    let text ← IO.FS.readFile path
    let lines := (text.splitOn "\n").filter (· ≠ "") |>.toArray
    let rep := Driver.ExecutorArea.run lines
    rep.print
    return 0
  | _ =>
    IO.println "usage: driver-executor <trace>"
    return 2
