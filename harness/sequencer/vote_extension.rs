// In-crate verification harness for the sequencer's vote-extension validation (C15).
// Hooked as `app::vote_extension::verif` (child of the module that owns the private
// `validate_vote_extensions` / `validate_extended_commit_against_last_commit`), feature
// `verif-ve`.  Emits `quorum proposal <height> <rm> <keys> <last> <ext> => ok|err:<kind>` lines
// which lean/Driver/QuorumArea.lean replays through Astria.Quorum.validateProposal.
//   keys = `<addr>:<key>,…`  validators stored in state (address i ↔ key i)
//   last = `<addr>:<power>:<flag c|n|a>,…`                       (the last commit)
//   ext  = `<addr>:<power>:<flag>:<ext 0|1>:<sigtag>,…`          (the proposed extended commit)
//   sigtag: `-` none, `0` 64 garbage bytes, `w` right key over another height, `<k>` key k over
//           the right message
#![allow(clippy::pedantic, clippy::all, dead_code, unused_imports)]

#[path = "/verif/harness/common.rs"]
mod common;

use astria_core::{
    crypto::SigningKey,
    protocol::{
        price_feed::v1::ExtendedCommitInfoWithCurrencyPairMapping,
        transaction::v1::action::ValidatorUpdate,
    },
};
use cnidarium::{
    StateDelta,
    TempStorage,
};
use common::{
    no_panic,
    Rng,
    Trace,
};
use indexmap::IndexMap;
use prost::Message as _;
use tendermint::{
    abci::types::{
        BlockSignatureInfo::Flag,
        CommitInfo,
        ExtendedCommitInfo,
        ExtendedVoteInfo,
        Validator,
        VoteInfo,
    },
    block::BlockIdFlag,
};
use tendermint_proto::v0_38::types::CanonicalVoteExtension;

use super::ProposalHandler;
use crate::{
    address::StateWriteExt as _,
    app::StateWriteExt as _,
    authority::StateWriteExt as _,
    oracles::price_feed::{
        market_map::state_ext::StateWriteExt as _,
        oracle::state_ext::StateWriteExt as _,
    },
};

const CHAIN_ID: &str = "verif-ve";

fn key(id: u64) -> SigningKey {
    let mut seed = [0u8; 32];
    seed[..8].copy_from_slice(&id.to_le_bytes());
    seed[31] = 0x3c;
    SigningKey::from(seed)
}

fn addr(id: u64) -> [u8; 20] {
    *key(id).verification_key().address_bytes()
}

fn flag(s: &str) -> BlockIdFlag {
    match s {
        "c" => BlockIdFlag::Commit,
        "n" => BlockIdFlag::Nil,
        _ => BlockIdFlag::Absent,
    }
}

fn message(height: u64) -> Vec<u8> {
    CanonicalVoteExtension {
        extension: vec![],
        height: i64::try_from(height - 1).unwrap(),
        round: 1,
        chain_id: CHAIN_ID.to_string(),
    }
    .encode_length_delimited_to_vec()
}

fn err_kind(msg: &str) -> &'static str {
    let table: [(&str, &str); 17] = [
        ("voted twice", "voted-twice"),
        ("calculating total voting power overflowed", "total-overflow"),
        ("signature is missing", "missing-signature"),
        ("non-commit vote extension present", "non-commit-extension"),
        ("non-commit extension signature present", "non-commit-signature"),
        ("submitted voting power overflowed", "submitted-overflow"),
        ("not found in validators", "unknown-validator"),
        ("failed to verify signature", "bad-signature"),
        ("failed to create signature", "bad-signature"),
        ("total voting power is zero", "zero-power"),
        ("failed to multiply total voting power", "mul-overflow"),
        ("less than required voting power", "insufficient"),
        ("round does not match", "round-mismatch"),
        ("votes length does not match", "length-mismatch"),
        ("vote address does not match", "address-mismatch"),
        ("vote power does not match", "power-mismatch"),
        ("sig info does not match", "flag-mismatch"),
    ];
    for (needle, kind) in table {
        if msg.contains(needle) {
            return kind;
        }
    }
    "other"
}

async fn proposal(storage: &TempStorage, t: &[&str]) -> String {
    let height: u64 = t[0].parse().unwrap();
    let rounds_match = t[1] == "1";
    // nothing is ever committed: every op sees the empty snapshot through a fresh delta
    let mut state = StateDelta::new(storage.latest_snapshot());
    state
        .put_chain_id_and_revision_number(CHAIN_ID.try_into().unwrap())
        .unwrap();
    state.put_base_prefix("astria".to_string()).unwrap();
    state.put_num_currency_pairs(0).unwrap();
    state
        .put_market_map(astria_core::oracles::price_feed::market_map::v2::MarketMap {
            markets: IndexMap::new(),
        })
        .unwrap();
    if t[2] != "." {
        for e in t[2].split(',') {
            let (a, k) = e.split_once(':').unwrap();
            let a: u64 = a.parse().unwrap();
            let k: u64 = k.parse().unwrap();
            assert_eq!(a, k, "address i is derived from key i");
            state
                .put_validator(&ValidatorUpdate {
                    power: 1,
                    verification_key: key(k).verification_key(),
                    name: "v".parse().unwrap(),
                })
                .unwrap();
        }
    }
    let last_votes: Vec<VoteInfo> = if t[3] == "." {
        vec![]
    } else {
        t[3].split(',')
            .map(|e| {
                let f: Vec<&str> = e.split(':').collect();
                VoteInfo {
                    validator: Validator {
                        address: addr(f[0].parse().unwrap()),
                        power: f[1].parse::<u64>().unwrap().try_into().unwrap(),
                    },
                    sig_info: Flag(flag(f[2])),
                }
            })
            .collect()
    };
    let good = message(height.max(2));
    let wrong = message(height.max(2) + 1);
    let ext_votes: Vec<ExtendedVoteInfo> = if t[4] == "." {
        vec![]
    } else {
        t[4].split(',')
            .map(|e| {
                let f: Vec<&str> = e.split(':').collect();
                let a: u64 = f[0].parse().unwrap();
                let extension_signature = match f[4] {
                    "-" => None,
                    "0" => Some(vec![0x17u8; 64].try_into().unwrap()),
                    "w" => Some(key(a).sign(&wrong).to_bytes().to_vec().try_into().unwrap()),
                    k => Some(
                        key(k.parse().unwrap())
                            .sign(&good)
                            .to_bytes()
                            .to_vec()
                            .try_into()
                            .unwrap(),
                    ),
                };
                // a commit vote carries the canonical (empty price map) extension; `ext=1` on a
                // non-commit vote attaches stray bytes
                let vote_extension: Vec<u8> = if f[3] == "1" && f[2] != "c" { vec![1, 2, 3] } else { vec![] };
                ExtendedVoteInfo {
                    validator: Validator {
                        address: addr(a),
                        power: f[1].parse::<u64>().unwrap().try_into().unwrap(),
                    },
                    sig_info: Flag(flag(f[2])),
                    extension_signature,
                    vote_extension: vote_extension.into(),
                }
            })
            .collect()
    };
    let last_commit = CommitInfo {
        round: 1u16.into(),
        votes: last_votes,
    };
    let ext = ExtendedCommitInfo {
        round: (if rounds_match { 1u16 } else { 2u16 }).into(),
        votes: ext_votes,
    };
    let with_mapping = ExtendedCommitInfoWithCurrencyPairMapping::new(ext, IndexMap::new());
    match ProposalHandler::validate_proposal(&state, height, &last_commit, &with_mapping).await {
        Ok(()) => "ok".to_string(),
        Err(e) => format!("err:{}", err_kind(&format!("{e:#}"))),
    }
}

/// `pricelen <n>`: a vote extension carrying one price of `n` bytes —
///   verify   = the sequencer's own admission check (`verify_vote_extension`, used by
///              VerifyVoteExtension and by every proposal check),
///   finalize = the price computation FinalizeBlock runs on an extended commit that contains it
///              (`calculate_prices_from_vote_extensions` -> `OracleVoteExtension::try_from_raw`).
fn pricelen(n: usize) -> String {
    let raw = astria_core::generated::price_feed::abci::v2::OracleVoteExtension {
        prices: [(0u64, bytes::Bytes::from(vec![1u8; n]))].into_iter().collect(),
    };
    let encoded = raw.encode_to_vec();
    let verify = super::verify_vote_extension(encoded.clone().into(), 1).is_ok();
    let ext = ExtendedCommitInfo {
        round: 1u16.into(),
        votes: vec![ExtendedVoteInfo {
            validator: Validator {
                address: addr(1),
                power: 1u32.into(),
            },
            sig_info: Flag(BlockIdFlag::Commit),
            extension_signature: None,
            vote_extension: encoded.into(),
        }],
    };
    let finalize =
        astria_core::oracles::price_feed::utils::calculate_prices_from_vote_extensions(&ext, &IndexMap::new()).is_ok();
    format!(
        "verify={} finalize={}",
        if verify { "accept" } else { "reject" },
        if finalize { "ok" } else { "err" }
    )
}

const POWERS: [u64; 8] = [1, 2, 3, 5, 10, 1 << 31, 1 << 62, (1 << 63) - 1];

fn gen_op(rng: &mut Rng) -> String {
    let n = rng.range(1, 6);
    let huge = rng.chance(10);
    let vals: Vec<(u64, u64)> = (1..=n)
        .map(|i| (i, if huge { *rng.pick(&POWERS[5..]) } else { *rng.pick(&POWERS[..5]) }))
        .collect();
    let mut keys: Vec<String> = vals.iter().map(|(i, _)| format!("{i}:{i}")).collect();
    let mut last: Vec<(u64, u64, &str)> = vals
        .iter()
        .map(|&(i, p)| (i, p, if rng.chance(78) { "c" } else if rng.chance(60) { "n" } else { "a" }))
        .collect();
    // ext mirrors last; honest proposers sign commit votes
    let mut ext: Vec<(u64, u64, String, u8, String)> = last
        .iter()
        .map(|&(i, p, f)| (i, p, f.to_string(), 0u8, if f == "c" { i.to_string() } else { "-".to_string() }))
        .collect();
    let mut rm = 1;
    let mut height = rng.range(2, 50);
    if rng.chance(45) {
        // one adversarial edit
        let j = rng.below(ext.len() as u64) as usize;
        match rng.below(17) {
            0 => ext[j].4 = "-".into(),
            1 => ext[j].4 = "0".into(),
            2 => ext[j].4 = "w".into(),
            3 => ext[j].4 = ((ext[j].0 % n) + 1).to_string(),
            4 => {
                let d = ext[j].clone();
                ext.push(d);
                let l = last[j];
                last.push(l);
            }
            5 => ext[j].2 = if ext[j].2 == "c" { "n".into() } else { "c".into() },
            6 => ext[j].1 = if ext[j].1 >= (1 << 62) { ext[j].1 - 1 } else { ext[j].1 + 1 },
            7 => {
                if ext.len() > 1 {
                    ext.swap(0, 1);
                }
            }
            8 => {
                ext.pop();
            }
            9 => ext[j].3 = 1,
            10 => {
                if ext[j].2 != "c" {
                    ext[j].4 = ext[j].0.to_string();
                }
            }
            11 => {
                // pruned vote: absent, no extension, no signature (allowed whatever the last commit says)
                ext[j].2 = "a".into();
                ext[j].4 = "-".into();
            }
            12 => rm = 0,
            13 => ext.clear(),
            14 => height = 1,
            15 => {
                keys.remove(j.min(keys.len() - 1));
            }
            _ => {
                // several validators stop signing: drives the 2/3 boundary
                for e in ext.iter_mut().take(j + 1) {
                    e.2 = "a".into();
                    e.4 = "-".into();
                }
            }
        }
    }
    let last_s: Vec<String> = last.iter().map(|(i, p, f)| format!("{i}:{p}:{f}")).collect();
    let ext_s: Vec<String> = ext.iter().map(|(i, p, f, x, s)| format!("{i}:{p}:{f}:{x}:{s}")).collect();
    let dot = |v: Vec<String>| if v.is_empty() { ".".to_string() } else { v.join(",") };
    format!("proposal {height} {rm} {} {} {}", dot(keys), dot(last_s), dot(ext_s))
}

fn gen_ops(rng: &mut Rng, thorough: bool) -> Vec<String> {
    let mut ops = Vec::new();
    // exact 2/3 boundary: k equal validators, j of them sign, the others are absent
    for k in 1..=7u64 {
        for j in 0..=k {
            let keys: Vec<String> = (1..=k).map(|i| format!("{i}:{i}")).collect();
            let last: Vec<String> = (1..=k).map(|i| format!("{i}:1:{}", if i <= j { "c" } else { "a" })).collect();
            let ext: Vec<String> = (1..=k)
                .map(|i| if i <= j { format!("{i}:1:c:0:{i}") } else { format!("{i}:1:a:0:-") })
                .collect();
            ops.push(format!("proposal 5 1 {} {} {}", keys.join(","), last.join(","), ext.join(",")));
        }
    }
    // admission vs. use of price bytes, every length around both bounds
    for n in (0..=40usize).chain([64, 255, 256, 1000]) {
        ops.push(format!("pricelen {n}"));
    }
    let n = if thorough { 20_000 } else { 1500 };
    for _ in 0..n {
        ops.push(gen_op(rng));
    }
    ops
}

#[test]
fn driver() {
    common::silence_panics();
    let rt = tokio::runtime::Builder::new_current_thread().enable_all().build().unwrap();
    let mut rng = Rng::from_env();
    let mut trace = Trace::from_env();
    let storage = rt.block_on(TempStorage::new()).unwrap();
    let ops = match common::replay_lines() {
        Some(lines) => lines,
        None => {
            let mut v = common::corpus_lines();
            v.extend(gen_ops(&mut rng, common::is_thorough()));
            v
        }
    };
    for op in ops {
        let op = op.strip_prefix("quorum ").unwrap_or(&op).to_string();
        let t: Vec<&str> = op.split(' ').collect();
        let res = if t[0] == "pricelen" {
            no_panic(|| pricelen(t[1].parse().unwrap())).unwrap_or_else(|| "panic".to_string())
        } else {
            rt.block_on(proposal(&storage, &t[1..]))
        };
        trace.line(&format!("quorum {op} => {res}"));
    }
    trace.finish();
}
