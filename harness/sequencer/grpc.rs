// In-crate verification harness for area `block`, sequencer side (property C07: what the
// sequencer commits to, stores and serves).
//
// Hooked as `grpc::sequencer::verif` of astria-sequencer (feature `verif-grpc`, cfg(test)).
//
// What is run (always the REAL code):
//   * `proposal::commitment::generate_rollup_datas_commitment::<true>` on real
//     `CheckedTransaction`s (several transactions, several actions each, transfers in between)
//     and a real deposit map                                          (`block commit …`);
//   * `SequencerBlockBuilder::try_build` → `StateWriteExt::put_sequencer_block` into a cnidarium
//     storage → commit → the gRPC handler `get_sequencer_block`        (`block reset …`);
//   * the gRPC handler `get_filtered_sequencer_block` for every subset of at most 4 ids of
//     (present ∪ absent), in several orders, with repetitions          (`block grpcfilter …`);
//   * the client-side `try_from_raw` of everything that was served     (`block full|filtered …`).
//
// Line protocol: see /verif/lean/Driver/BlockArea.lean.
#![allow(clippy::pedantic, clippy::all, dead_code, unused_imports)]

#[path = "/verif/harness/common.rs"]
mod common;
#[path = "/verif/harness/block_codec.rs"]
mod codec;

use std::{
    collections::HashMap,
    sync::Arc,
};

use astria_core::{
    generated::astria::{
        primitive::v1 as rawp,
        sequencerblock::v1 as raw,
    },
    primitive::v1::RollupId,
    protocol::transaction::v1::action::{
        RollupDataSubmission,
        Transfer,
    },
    sequencerblock::v1::{
        block::{
            Deposit,
            FilteredSequencerBlock,
        },
        SequencerBlock,
    },
    Protobuf as _,
};
use bytes::Bytes;
use cnidarium::StateDelta;
use codec::*;
use common::{
    hex,
    no_panic,
    unhex,
    Rng,
    Trace,
};
use tonic::Request;

use super::{
    GetFilteredSequencerBlockRequest,
    GetSequencerBlockRequest,
    SequencerServer,
    SequencerService as _,
};
use crate::{
    app::StateWriteExt as _,
    grpc::StateWriteExt as _,
    mempool::Mempool,
    proposal::commitment::{
        generate_rollup_datas_commitment,
        GeneratedCommitments,
    },
    test_utils::{
        astria_address,
        nria,
        Fixture,
        ALICE,
        BOB,
    },
};

struct Session {
    server: Option<Arc<SequencerServer>>,
    _storage: Option<cnidarium::TempStorage>,
    height: u64,
}

struct Exec {
    rt: tokio::runtime::Runtime,
    fixture: Option<Fixture>,
    session: Session,
}

fn res_full(r: &raw::SequencerBlock) -> String {
    let input = r.clone();
    match no_panic(move || SequencerBlock::try_from_raw(input)) {
        None => "panic".to_string(),
        Some(Err(e)) => format!("err:{}", err_kind(&format!("{e:?}"))),
        Some(Ok(b)) => {
            let back = b.into_raw();
            if &back == r {
                "ok same".to_string()
            } else {
                format!("ok {}", block_s(&back))
            }
        }
    }
}

fn res_filtered(r: &raw::FilteredSequencerBlock) -> String {
    let input = r.clone();
    match no_panic(move || FilteredSequencerBlock::try_from_raw(input)) {
        None => "panic".to_string(),
        Some(Err(e)) => format!("err:{}", err_kind(&format!("{e:?}"))),
        Some(Ok(b)) => {
            let back = b.into_raw();
            if &back == r {
                "ok same".to_string()
            } else {
                format!("ok {}", filtered_s(&back))
            }
        }
    }
}

impl Exec {
    fn exec(&mut self, op: &str) -> String {
        let t: Vec<&str> = op.split(' ').filter(|x| !x.is_empty()).collect();
        assert_eq!(t[0], "block");
        let res = match t[1] {
            "reset" => {
                let spec = spec_p(t[2]);
                let s2 = spec.clone();
                match no_panic(move || build(&s2)) {
                    None => {
                        self.session.server = None;
                        "panic".to_string()
                    }
                    Some(Err(k)) => {
                        self.session.server = None;
                        format!("err:{k}")
                    }
                    Some(Ok(block)) => {
                        // store, commit, serve
                        let height = u64::from(spec.height);
                        let (storage, server) = self.rt.block_on(async {
                            let storage = cnidarium::TempStorage::new().await.unwrap();
                            let metrics = Box::leak(Box::new(telemetry::Metrics::noop_metrics(&()).unwrap()));
                            let mempool = Mempool::new(metrics, 100, 100);
                            let mut state_tx = StateDelta::new(storage.latest_snapshot());
                            state_tx.put_block_height(height).unwrap();
                            state_tx.put_sequencer_block(block).unwrap();
                            storage.commit(state_tx).await.unwrap();
                            let server = Arc::new(SequencerServer::new(
                                (*storage).clone(),
                                mempool,
                                astria_core::upgrades::v1::Upgrades::default(),
                            ));
                            (storage, server)
                        });
                        let served = self.rt.block_on(server.clone().get_sequencer_block(Request::new(GetSequencerBlockRequest {
                            height,
                        })));
                        self.session = Session {
                            server: Some(server),
                            _storage: Some(storage),
                            height,
                        };
                        match served {
                            Ok(r) => format!("ok {}", block_s(&r.into_inner())),
                            Err(status) => format!("grpc-error:{:?}", status.code()),
                        }
                    }
                }
            }
            "grpcfilter" => match &self.session.server {
                None => "no-block".to_string(),
                Some(server) => {
                    let rollup_ids = ids_p(t[2]);
                    let served = self.rt.block_on(server.clone().get_filtered_sequencer_block(Request::new(
                        GetFilteredSequencerBlockRequest {
                            height: self.session.height,
                            rollup_ids,
                        },
                    )));
                    match served {
                        Ok(r) => filtered_s(&r.into_inner()),
                        Err(status) => format!("grpc-error:{:?}", status.code()),
                    }
                }
            },
            "full" => res_full(&block_p(t[3])),
            "filtered" => res_filtered(&filtered_p(t[3])),
            "commit" => {
                // block commit txs=<n1,n2,…|.> <spec>: the submissions of the spec, split into
                // transactions of n1, n2, … rollup data submissions (a transfer after every second one)
                let sizes: Vec<usize> = match t[2].strip_prefix("txs=") {
                    Some(".") | None => vec![],
                    Some(s) => s.split(',').map(|x| x.parse().unwrap()).collect(),
                };
                let spec = spec_p(t[3]);
                if self.fixture.is_none() {
                    self.fixture = Some(self.rt.block_on(Fixture::default_initialized()));
                }
                let fixture = self.fixture.as_ref().unwrap();
                let mut deposits: HashMap<RollupId, Vec<Deposit>> = HashMap::new();
                for (id, ds) in &spec.deps {
                    deposits.insert(RollupId::new(*id), ds.iter().map(|d| decode_deposit(d)).collect());
                }
                let rt = &self.rt;
                let mut txs = vec![];
                let mut it = spec.subs.iter();
                for (k, n) in sizes.iter().enumerate() {
                    let mut b = fixture.checked_tx_builder().with_signer(if k % 2 == 0 { ALICE.clone() } else { BOB.clone() }).with_nonce((k / 2) as u32);
                    for j in 0..*n {
                        let (id, data) = it.next().expect("sizes sum to the number of submissions");
                        b = b.with_action(RollupDataSubmission {
                            rollup_id: RollupId::new(*id),
                            data: Bytes::from(data.clone()),
                            fee_asset: nria().into(),
                        });
                        if j % 2 == 1 {
                            b = b.with_action(Transfer {
                                to: astria_address(&[7u8; 20]),
                                amount: 1,
                                asset: nria().into(),
                                fee_asset: nria().into(),
                            });
                        }
                    }
                    if *n == 0 {
                        b = b.with_action(Transfer {
                            to: astria_address(&[7u8; 20]),
                            amount: 1,
                            asset: nria().into(),
                            fee_asset: nria().into(),
                        });
                    }
                    txs.push(rt.block_on(b.build()));
                }
                assert!(it.next().is_none(), "sizes sum to the number of submissions");
                let GeneratedCommitments {
                    rollup_datas_root,
                    rollup_ids_root,
                } = generate_rollup_datas_commitment::<true>(&txs, deposits);
                format!("{} {}", hex(&rollup_datas_root), hex(&rollup_ids_root))
            }
            other => format!("bad-op:{other}"),
        };
        format!("{op} => {res}")
    }
}

fn subsets_upto4(pool: &[rawp::RollupId]) -> Vec<Vec<rawp::RollupId>> {
    let n = pool.len();
    let mut out = vec![];
    for mask in 0u32..(1 << n) {
        if mask.count_ones() <= 4 {
            out.push((0..n).filter(|i| mask & (1 << i) != 0).map(|i| pool[i].clone()).collect());
        }
    }
    out
}

fn generate(rng: &mut Rng, ex: &mut Exec, trace: &mut Trace) {
    let sessions = if common::is_thorough() { 150 } else { 30 };
    for n in 0..sessions {
        let mut spec = gen_spec(rng, n, 100 + n as u32);
        // the sequencer refuses empty rollup data submissions (CheckedTransaction::new)
        for (_, d) in spec.subs.iter_mut() {
            if d.is_empty() {
                d.push(0);
            }
        }
        let (r1, r2) = honest_roots(&spec.subs, &spec.deps);
        spec.r1 = r1;
        spec.r2 = r2;

        // ---- the proposer's commitments ----
        let mut sizes: Vec<usize> = vec![];
        let mut left = spec.subs.len();
        while left > 0 {
            let k = (rng.range(0, 3) as usize).min(left);
            sizes.push(k);
            left -= k;
        }
        if rng.chance(30) {
            sizes.push(0);
        }
        let sizes_s = if sizes.is_empty() {
            ".".to_string()
        } else {
            sizes.iter().map(|x| x.to_string()).collect::<Vec<_>>().join(",")
        };
        trace.line(&ex.exec(&format!("block commit txs={sizes_s} {}", spec_s(&spec))));

        // ---- store and serve ----
        let line = ex.exec(&format!("block reset {}", spec_s(&spec)));
        let served = line.split(" => ").nth(1).unwrap().to_string();
        trace.line(&line);
        let Some(dump) = served.strip_prefix("ok ") else { continue };
        let honest = block_p(dump);
        trace.line(&ex.exec(&format!("block full served {}", block_s(&honest))));

        let mut pool: Vec<rawp::RollupId> = honest.rollup_transactions.iter().take(5).map(|r| r.rollup_id.clone().unwrap()).collect();
        pool.push(rawp::RollupId {
            inner: Bytes::from(vec![0xee; 32]),
        });
        for (k, sub) in subsets_upto4(&pool).iter().enumerate() {
            let mut req = sub.clone();
            if k % 3 == 1 {
                req.reverse();
            }
            if k % 7 == 3 && !req.is_empty() {
                req.push(req[0].clone()); // requested twice
            }
            let line = ex.exec(&format!("block grpcfilter {}", ids_s(&req)));
            let dump = line.split(" => ").nth(1).unwrap().to_string();
            trace.line(&line);
            if !dump.starts_with("grpc-error") {
                trace.line(&ex.exec(&format!("block filtered served {dump}")));
            }
        }
        // malformed request
        trace.line(&ex.exec(&format!("block grpcfilter {}", hex(&[1u8; 31]))));
    }
}

#[test]
fn driver() {
    if std::env::var("VERIF_SHOW_PANICS").is_err() {
        common::silence_panics();
    }
    let mut trace = Trace::from_env();
    let mut rng = Rng::from_env();
    let mut ex = Exec {
        rt: tokio::runtime::Builder::new_multi_thread().worker_threads(2).enable_all().build().unwrap(),
        fixture: None,
        session: Session {
            server: None,
            _storage: None,
            height: 0,
        },
    };
    if let Some(ops) = common::replay_lines() {
        for op in ops {
            trace.line(&ex.exec(&op));
        }
    } else {
        for op in common::corpus_lines() {
            trace.line(&ex.exec(&op));
        }
        generate(&mut rng, &mut ex, &mut trace);
    }
    trace.finish();
}
