// In-crate verification harness for the app-side mempool (property C13).
// Child module `mempool::verif` of crates/astria-sequencer/src/mempool/mod.rs (cargo feature
// `verif-mempool`, cfg(test)); it drives the REAL `Mempool` with real signed transactions and
// dumps its complete private state plus the answers of its public queries after every operation.
//
// Line protocol (area `mempool`), `t<k>` = k-th transaction created in the session:
//   reset <parked_max> <results_max>
//   mk t<k> <acct> <nonce> <kind> <fee_asset> <xfer_asset|-> <xfer_amount>        => <group>
//   insert t<k> <cur_nonce> <b0>/<b1>/<b2> <c0>/<c1>/<c2> <at_ms>                  => pending|parked|err:<kind> | <dump>
//   remove t<k> <reason>                                                           => ok | <dump>
//   uncache t<k>                                                                   => ok | <dump>
//   chain <acct> <nonce> <b0>/<b1>/<b2>                                            => ok
//   fees <transfer> <init_bridge> <fee_asset_change> <sudo_change> <allowed bits>  => ok
//   maintain <recost> <height> <t:code,..|-> <at_ms>                               => ok | <dump>
// `_` in a balance/cost vector = the asset is missing from the map handed to the mempool.
#![allow(clippy::pedantic, clippy::all, dead_code, unused_imports)]

#[path = "/verif/harness/common.rs"]
mod common;

use std::{
    collections::{
        BTreeMap,
        HashMap,
    },
    sync::Arc,
};

use astria_core::{
    crypto::SigningKey,
    primitive::v1::{
        asset::{
            Denom,
            IbcPrefixed,
        },
        RollupId,
        TransactionId,
    },
    protocol::{
        fees::v1::FeeComponents,
        transaction::v1::action::{
            FeeAssetChange,
            InitBridgeAccount,
            SudoAddressChange,
            Transfer,
        },
    },
};
use cnidarium::{
    Snapshot,
    StateDelta,
};
use common::{
    Rng,
    Trace,
};
use tendermint::abci::types::ExecTxResult;
use tokio::time::{
    Duration,
    Instant,
};

use super::{
    transactions_container::{
        ParkedTransactions,
        ParkedTransactionsForAccount,
        PendingTransactions,
        PendingTransactionsForAccount,
        TimemarkedTransaction,
        TransactionsContainer,
        TransactionsForAccount,
    },
    InsertionError,
    InsertionStatus,
    Mempool,
    MempoolInner,
    RemovalReason,
    TransactionStatus,
    MAX_PARKED_TXS_PER_ACCOUNT,
};
use crate::{
    accounts::{
        AddressBytes as _,
        StateWriteExt as _,
    },
    authority::StateWriteExt as _,
    checked_transaction::CheckedTransaction,
    fees::StateWriteExt as _,
    test_utils::{
        astria_address,
        denom_0,
        denom_1,
        denom_2,
        Fixture,
        ALICE,
        BOB,
        CAROL,
        IBC_SUDO,
        SUDO,
    },
};

const N_ACCTS: usize = 6;
const N_ASSETS: usize = 3;
const PROBE: u128 = 1 << 120;

type Vec3 = [Option<u128>; N_ASSETS];

fn keys() -> Vec<SigningKey> {
    vec![
        ALICE.clone(),
        BOB.clone(),
        CAROL.clone(),
        SUDO.clone(),
        IBC_SUDO.clone(),
        SigningKey::from([0x5a; 32]),
    ]
}

fn denoms() -> [Denom; N_ASSETS] {
    [denom_0(), denom_1(), denom_2()]
}

fn ibc(i: usize) -> IbcPrefixed {
    denoms()[i].to_ibc_prefixed()
}

fn to_map(v: &Vec3) -> HashMap<IbcPrefixed, u128> {
    let mut m = HashMap::new();
    for i in 0..N_ASSETS {
        if let Some(x) = v[i] {
            m.insert(ibc(i), x);
        }
    }
    m
}

fn fmt_vec3(v: &Vec3) -> String {
    v.iter()
        .map(|x| x.map_or("_".to_string(), |x| x.to_string()))
        .collect::<Vec<_>>()
        .join("/")
}

fn parse_vec3(s: &str) -> Vec3 {
    let p: Vec<&str> = s.split('/').collect();
    let mut out = [None; N_ASSETS];
    for i in 0..N_ASSETS {
        out[i] = if p[i] == "_" { None } else { Some(p[i].parse().unwrap()) };
    }
    out
}

struct TxInfo {
    acct: usize,
    nonce: u32,
    kind: usize,
    fee_asset: usize,
    xfer: Option<(usize, u128)>,
    tx: Arc<CheckedTransaction>,
}

struct Session {
    mempool: Mempool,
    chain: StateDelta<Snapshot>,
    t0: Instant,
    txs: Vec<TxInfo>,
    labels: HashMap<TransactionId, usize>,
    // harness-side knowledge of the chain state (generation only)
    nonces: [u32; N_ACCTS],
    bals: [[u128; N_ASSETS]; N_ACCTS],
    bal_put: [[bool; N_ASSETS]; N_ACCTS],
    fees: [Option<u128>; 4],
    allowed: [bool; N_ASSETS],
    pmax: usize,
    rmax: usize,
    height: u64,
    now_ms: u64,
    // times at which something expires exactly (TX_TTL after an accepted insert, the result
    // retention after a block with results): generation aims maintenance at them
    boundaries: Vec<u64>,
}

struct Env {
    build: Fixture,
    chain_fx: Fixture,
    keys: Vec<SigningKey>,
}

fn err_kind(e: &InsertionError) -> &'static str {
    match e {
        InsertionError::AlreadyPresent => "already-present",
        InsertionError::NonceTooLow => "nonce-too-low",
        InsertionError::NonceTaken => "nonce-taken",
        InsertionError::NonceGap => "nonce-gap",
        InsertionError::AccountSizeLimit => "account-size-limit",
        InsertionError::AccountBalanceTooLow => "balance-too-low",
        InsertionError::ParkedSizeLimit => "parked-size-limit",
    }
}

fn fmt_reason(r: &RemovalReason) -> String {
    match r {
        RemovalReason::Expired => "exp".to_string(),
        RemovalReason::NonceStale => "stale".to_string(),
        RemovalReason::LowerNonceInvalidated => "lower".to_string(),
        RemovalReason::FailedExecution(s) => format!("fail{s}"),
        RemovalReason::InternalError => "int".to_string(),
        RemovalReason::IncludedInBlock {
            height,
            result,
        } => format!("inc{height}/{}", result.code.value()),
    }
}

fn parse_reason(s: &str) -> RemovalReason {
    match s {
        "exp" => RemovalReason::Expired,
        "stale" => RemovalReason::NonceStale,
        "lower" => RemovalReason::LowerNonceInvalidated,
        "int" => RemovalReason::InternalError,
        _ => RemovalReason::FailedExecution(s.strip_prefix("fail").unwrap().to_string()),
    }
}

fn label(s: &Session, id: &TransactionId) -> String {
    match s.labels.get(id) {
        Some(k) => format!("t{k}"),
        None => format!("u{}", common::hex(&id.as_bytes()[..4])),
    }
}

fn label_num(s: &Session, id: &TransactionId) -> u64 {
    s.labels.get(id).map_or(u64::MAX, |k| *k as u64)
}

fn probe_costs(ttx: &TimemarkedTransaction) -> String {
    let mut m: HashMap<IbcPrefixed, u128> = (0..N_ASSETS).map(|i| (ibc(i), PROBE)).collect();
    if ttx.deduct_costs(&mut m).is_err() {
        return "?".to_string();
    }
    (0..N_ASSETS)
        .map(|i| (PROBE - m[&ibc(i)]).to_string())
        .collect::<Vec<_>>()
        .join("/")
}

fn acct_of(env: &Env, bytes: &[u8; 20]) -> usize {
    env.keys
        .iter()
        .position(|k| &k.address_bytes() == bytes)
        .unwrap_or(99)
}

fn dump_container<'a, I>(env: &Env, s: &Session, accounts: I) -> String
where
    I: Iterator<Item = (&'a [u8; 20], &'a BTreeMap<u32, TimemarkedTransaction>)>,
{
    let mut rows: Vec<(usize, u32, String)> = Vec::new();
    for (addr, txs) in accounts {
        let a = acct_of(env, addr);
        for (nonce, ttx) in txs {
            rows.push((
                a,
                *nonce,
                format!("{a}:{nonce}:{}:{}", label(s, ttx.id()), probe_costs(ttx)),
            ));
        }
    }
    rows.sort();
    if rows.is_empty() {
        "-".to_string()
    } else {
        rows.into_iter().map(|r| r.2).collect::<Vec<_>>().join(",")
    }
}

fn join_or_dash(v: Vec<String>) -> String {
    if v.is_empty() {
        "-".to_string()
    } else {
        v.join(",")
    }
}

async fn dump(env: &Env, s: &Session) -> String {
    let mut out = String::new();
    {
        let inner = s.mempool.inner.read().await;
        let pend = <PendingTransactions as TransactionsContainer<PendingTransactionsForAccount>>::txs(
            &inner.pending,
        );
        let p = dump_container(
            env,
            s,
            pend.iter()
                .map(|(a, q)| (a, <PendingTransactionsForAccount as TransactionsForAccount>::txs(q))),
        );
        let park = <ParkedTransactions<MAX_PARKED_TXS_PER_ACCOUNT> as TransactionsContainer<
            ParkedTransactionsForAccount<MAX_PARKED_TXS_PER_ACCOUNT>,
        >>::txs(&inner.parked);
        let k = dump_container(
            env,
            s,
            park.iter().map(|(a, q)| {
                (
                    a,
                    <ParkedTransactionsForAccount<MAX_PARKED_TXS_PER_ACCOUNT> as TransactionsForAccount>::txs(q),
                )
            }),
        );
        let mut c: Vec<(u64, String)> = inner
            .contained_txs
            .iter()
            .map(|id| (label_num(s, id), label(s, id)))
            .collect();
        c.sort();
        let mut r: Vec<(u64, String)> = inner
            .comet_bft_removal_cache
            .cache
            .iter()
            .map(|(id, reason)| (label_num(s, id), format!("{}:{}", label(s, id), fmt_reason(reason))))
            .collect();
        r.sort();
        let mut x = Vec::new();
        for (k, info) in s.txs.iter().enumerate() {
            if let Some(res) = inner.recent_execution_results.get(info.tx.id()) {
                x.push(format!("t{k}:{}/{}", res.block_height(), res.result().code.value()));
            }
        }
        out.push_str(&format!(
            "P={p} K={k} C={} R={} QL={} X={} XL={}",
            join_or_dash(c.into_iter().map(|e| e.1).collect()),
            join_or_dash(r.into_iter().map(|e| e.1).collect()),
            inner.comet_bft_removal_cache.remove_queue.len(),
            join_or_dash(x),
            inner.recent_execution_results.len(),
        ));
    }
    // public queries
    let bq: Vec<String> = s
        .mempool
        .builder_queue()
        .await
        .iter()
        .map(|tx| label(s, tx.id()))
        .collect();
    let mut pn = Vec::new();
    for (a, k) in env.keys.iter().enumerate() {
        if let Some(n) = s.mempool.pending_nonce(&k.address_bytes()).await {
            pn.push(format!("{a}:{n}"));
        }
    }
    let mut st = Vec::new();
    for (k, info) in s.txs.iter().enumerate() {
        let code = match s.mempool.transaction_status(info.tx.id()).await {
            None => "-".to_string(),
            Some(TransactionStatus::Pending) => "P".to_string(),
            Some(TransactionStatus::Parked) => "K".to_string(),
            Some(TransactionStatus::Removed(r)) => fmt_reason(&r),
        };
        st.push(format!("t{k}:{code}"));
    }
    out.push_str(&format!(
        " bq={} pn={} st={} len={}",
        join_or_dash(bq),
        join_or_dash(pn),
        join_or_dash(st),
        s.mempool.len().await
    ));
    out
}

async fn advance_to(s: &mut Session, at: u64) -> u64 {
    let cur = Instant::now().duration_since(s.t0).as_millis() as u64;
    if at > cur {
        tokio::time::advance(Duration::from_millis(at - cur)).await;
    }
    let now = Instant::now().duration_since(s.t0).as_millis() as u64;
    s.now_ms = now;
    now
}

async fn make_tx(env: &mut Env, k: usize, acct: usize, nonce: u32, kind: usize, fee_asset: usize, xfer: Option<(usize, u128)>) -> Arc<CheckedTransaction> {
    let mut seed = [0u8; 20];
    seed[..8].copy_from_slice(&(k as u64).to_be_bytes());
    seed[8] = 0x77;
    let signer = env.keys[acct].clone();
    if kind >= 2 {
        // sudo actions are checked against the sudo address at construction
        env.build
            .state_mut()
            .put_sudo_address(signer.address_bytes())
            .unwrap();
    }
    let b = env
        .build
        .checked_tx_builder()
        .with_signer(signer)
        .with_nonce(nonce);
    let b = match kind {
        0 => {
            let (asset, amount) = xfer.unwrap_or((0, 0));
            b.with_action(Transfer {
                to: astria_address(&seed),
                amount,
                asset: denoms()[asset].clone(),
                fee_asset: denoms()[fee_asset].clone(),
            })
        }
        1 => {
            let mut rid = [0u8; 32];
            rid[..20].copy_from_slice(&seed);
            b.with_action(InitBridgeAccount {
                rollup_id: RollupId::new(rid),
                asset: denom_0(),
                fee_asset: denoms()[fee_asset].clone(),
                sudo_address: None,
                withdrawer_address: None,
            })
        }
        2 => b.with_action(FeeAssetChange::Addition(format!("verif{k}").parse().unwrap())),
        _ => b.with_action(SudoAddressChange {
            new_address: astria_address(&seed),
        }),
    };
    b.build().await
}

async fn exec(env: &mut Env, sess: &mut Option<Session>, op: &str) -> String {
    let t: Vec<&str> = op.split(' ').collect();
    if t[0] == "reset" {
        let pmax: usize = t[1].parse().unwrap();
        let rmax: usize = t[2].parse().unwrap();
        let mempool = Mempool::new(env.build.metrics(), pmax, rmax);
        let chain = StateDelta::new(env.chain_fx.storage().latest_snapshot());
        let s = Session {
            mempool,
            chain,
            t0: Instant::now(),
            txs: Vec::new(),
            labels: HashMap::new(),
            nonces: [0; N_ACCTS],
            bals: [[0; N_ASSETS]; N_ACCTS],
            bal_put: [[false; N_ASSETS]; N_ACCTS],
            fees: [None; 4],
            allowed: [true, false, false],
            pmax,
            rmax,
            height: 10,
            now_ms: 0,
            boundaries: Vec::new(),
        };
        let d = dump(env, &s).await;
        *sess = Some(s);
        return format!("ok | {d}");
    }
    let s = sess.as_mut().expect("reset first");
    let tx_of = |s: &Session, tok: &str| -> usize {
        let k: usize = tok[1..].parse().unwrap();
        assert!(k < s.txs.len(), "unknown tx label {tok}");
        k
    };
    match t[0] {
        "mk" => {
            let k: usize = t[1][1..].parse().unwrap();
            assert_eq!(k, s.txs.len(), "labels are consecutive");
            let acct: usize = t[2].parse().unwrap();
            let nonce: u32 = t[3].parse().unwrap();
            let kind: usize = t[4].parse().unwrap();
            let fee_asset: usize = t[5].parse().unwrap();
            let xfer = if t[6] == "-" {
                None
            } else {
                Some((t[6].parse().unwrap(), t[7].parse().unwrap()))
            };
            let tx = make_tx(env, k, acct, nonce, kind, fee_asset, xfer).await;
            let g = tx.group() as u8;
            s.labels.insert(*tx.id(), k);
            s.txs.push(TxInfo {
                acct,
                nonce,
                kind,
                fee_asset,
                xfer,
                tx,
            });
            format!("{g}")
        }
        "insert" => {
            let k = tx_of(s, t[1]);
            let cur: u32 = t[2].parse().unwrap();
            let bal = to_map(&parse_vec3(t[3]));
            let costs = to_map(&parse_vec3(t[4]));
            let at: u64 = t[5].parse().unwrap();
            let now = advance_to(s, at).await;
            assert_eq!(now, at, "clock ran ahead of the trace");
            let tx = s.txs[k].tx.clone();
            let res = match s.mempool.insert(tx, cur, &bal, costs).await {
                Ok(InsertionStatus::AddedToPending) => "pending".to_string(),
                Ok(InsertionStatus::AddedToParked) => "parked".to_string(),
                Err(e) => format!("err:{}", err_kind(&e)),
            };
            if !res.starts_with("err") && s.boundaries.len() < 64 {
                s.boundaries.push(at + 240_000);
            }
            format!("{res} | {}", dump(env, s).await)
        }
        "remove" => {
            let k = tx_of(s, t[1]);
            let tx = s.txs[k].tx.clone();
            s.mempool.remove_tx_invalid(tx, parse_reason(t[2])).await;
            format!("ok | {}", dump(env, s).await)
        }
        "uncache" => {
            let k = tx_of(s, t[1]);
            let id = *s.txs[k].tx.id();
            s.mempool.remove_from_removal_cache(&id).await;
            format!("ok | {}", dump(env, s).await)
        }
        "chain" => {
            let a: usize = t[1].parse().unwrap();
            let n: u32 = t[2].parse().unwrap();
            let b = parse_vec3(t[3]);
            let addr = env.keys[a].address_bytes();
            s.chain.put_account_nonce(&addr, n).unwrap();
            s.nonces[a] = n;
            for i in 0..N_ASSETS {
                if let Some(x) = b[i] {
                    s.chain.put_account_balance(&addr, &ibc(i), x).unwrap();
                    s.bals[a][i] = x;
                    s.bal_put[a][i] = true;
                }
            }
            "ok".to_string()
        }
        "fees" => {
            for kind in 0..4 {
                if t[1 + kind] == "-" {
                    continue;
                }
                let base: u128 = t[1 + kind].parse().unwrap();
                match kind {
                    0 => s.chain.put_fees(FeeComponents::<Transfer>::new(base, 0)).unwrap(),
                    1 => s
                        .chain
                        .put_fees(FeeComponents::<InitBridgeAccount>::new(base, 0))
                        .unwrap(),
                    2 => s
                        .chain
                        .put_fees(FeeComponents::<FeeAssetChange>::new(base, 0))
                        .unwrap(),
                    _ => s
                        .chain
                        .put_fees(FeeComponents::<SudoAddressChange>::new(base, 0))
                        .unwrap(),
                }
                s.fees[kind] = Some(base);
            }
            for (i, c) in t[5].chars().enumerate() {
                if c == '1' {
                    s.chain.put_allowed_fee_asset(&ibc(i)).unwrap();
                    s.allowed[i] = true;
                } else {
                    s.chain.delete_allowed_fee_asset(&ibc(i));
                    s.allowed[i] = false;
                }
            }
            "ok".to_string()
        }
        "maintain" => {
            let recost = t[1] == "1";
            let height: u64 = t[2].parse().unwrap();
            let mut results: HashMap<TransactionId, Arc<ExecTxResult>> = HashMap::new();
            if t[3] != "-" {
                for e in t[3].split(',') {
                    let (l, c) = e.split_once(':').unwrap();
                    let k = tx_of(s, l);
                    let code: u32 = c.parse().unwrap();
                    results.insert(
                        *s.txs[k].tx.id(),
                        Arc::new(ExecTxResult {
                            code: code.into(),
                            ..ExecTxResult::default()
                        }),
                    );
                }
            }
            let at: u64 = t[4].parse().unwrap();
            let now = advance_to(s, at).await;
            assert_eq!(now, at, "clock ran ahead of the trace");
            s.height = height;
            if !results.is_empty() && s.boundaries.len() < 64 {
                s.boundaries.push(at + 60_000);
            }
            s.mempool
                .run_maintenance(&s.chain, recost, results, height)
                .await;
            format!("ok | {}", dump(env, s).await)
        }
        _ => panic!("unknown op {op}"),
    }
}

// ---------------------------------------------------------------------------------------
// generation (state-aware: looks at the real mempool through its queries to aim the next op)

fn model_recost(s: &Session, kind: usize, fee_asset: usize, xfer: Option<(usize, u128)>) -> Option<[u128; N_ASSETS]> {
    let base = s.fees[kind]?;
    let mut c = [0u128; N_ASSETS];
    if kind < 2 {
        if !s.allowed[fee_asset] {
            return None;
        }
        c[fee_asset] += base;
    }
    if let Some((a, m)) = xfer {
        c[a] += m;
    }
    Some(c)
}

fn gen_vec(rng: &mut Rng, v: [u128; N_ASSETS], may_omit: [bool; N_ASSETS]) -> Vec3 {
    let mut out = [None; N_ASSETS];
    for i in 0..N_ASSETS {
        out[i] = if v[i] == 0 && may_omit[i] && rng.chance(60) { None } else { Some(v[i]) };
    }
    out
}

struct Gen {
    next_at: u64,
}

async fn pooled(s: &Session) -> (Vec<usize>, Vec<usize>) {
    let mut p = Vec::new();
    let mut k = Vec::new();
    for (i, info) in s.txs.iter().enumerate() {
        match s.mempool.transaction_status(info.tx.id()).await {
            Some(TransactionStatus::Pending) => p.push(i),
            Some(TransactionStatus::Parked) => k.push(i),
            _ => {}
        }
    }
    (p, k)
}

fn chain_line(s: &Session, a: usize, nonce: u32, bal: [u128; N_ASSETS], rng: &mut Rng) -> String {
    let mut v = [None; N_ASSETS];
    for i in 0..N_ASSETS {
        // asset 0 always explicit (the genesis accounts hold nria in the snapshot)
        v[i] = if i > 0 && bal[i] == 0 && !s.bal_put[a][i] && rng.chance(70) {
            None
        } else {
            Some(bal[i])
        };
    }
    format!("chain {a} {nonce} {}", fmt_vec3(&v))
}

async fn gen_insert(env: &Env, s: &Session, rng: &mut Rng, g: &mut Gen, ops: &mut Vec<String>) {
    let (pend, park) = pooled(s).await;
    let a = if rng.chance(70) { rng.below(3) as usize } else { rng.below(N_ACCTS as u64) as usize };
    let cur = s.nonces[a];
    let pn = s
        .mempool
        .pending_nonce(&env.keys[a].address_bytes())
        .await
        .unwrap_or(cur)
        .max(cur);
    let c = rng.below(100);
    // duplicate of a tracked id (only where the documented precondition cannot be broken:
    // the id is ready, or it is parked and the ready queue cannot take it)
    if c < 4 && !pend.is_empty() {
        let k = *rng.pick(&pend);
        let i = &s.txs[k];
        g.next_at += rng.range(1, 4);
        ops.push(format!(
            "insert t{k} {} {} {} {}",
            s.nonces[i.acct],
            fmt_vec3(&gen_vec(rng, s.bals[i.acct], [false, true, true])),
            fmt_vec3(&[Some(1), None, None]),
            g.next_at
        ));
        return;
    }
    if c < 7 && !park.is_empty() {
        let k = *rng.pick(&park);
        let i = &s.txs[k];
        let cur_i = s.nonces[i.acct];
        let prev_ready = pend
            .iter()
            .any(|p| s.txs[*p].acct == i.acct && s.txs[*p].nonce + 1 == i.nonce);
        let same_ready = pend
            .iter()
            .any(|p| s.txs[*p].acct == i.acct && s.txs[*p].nonce == i.nonce);
        if i.nonce != cur_i && !prev_ready && !same_ready && i.nonce > cur_i {
            g.next_at += rng.range(1, 4);
            ops.push(format!(
                "insert t{k} {cur_i} {} {} {}",
                fmt_vec3(&gen_vec(rng, s.bals[i.acct], [false, true, true])),
                fmt_vec3(&[Some(1), None, None]),
                g.next_at
            ));
            return;
        }
    }
    if (7..10).contains(&c) {
        // re-submission of a transaction that is no longer tracked (removed earlier, or never
        // accepted): allowed by the precondition, exercises stale removal-cache entries
        let gone: Vec<usize> = (0..s.txs.len())
            .filter(|k| !pend.contains(k) && !park.contains(k) && s.txs[*k].nonce >= s.nonces[s.txs[*k].acct])
            .collect();
        if !gone.is_empty() {
            let k = *rng.pick(&gone);
            let i = &s.txs[k];
            let mut costs = [0u128; N_ASSETS];
            if let Some(c) = model_recost(s, i.kind, i.fee_asset, i.xfer) {
                costs = c;
            }
            g.next_at += rng.range(1, 4);
            ops.push(format!(
                "insert t{k} {} {} {} {}",
                s.nonces[i.acct],
                fmt_vec3(&gen_vec(rng, s.bals[i.acct], [false, true, true])),
                fmt_vec3(&gen_vec(rng, costs, [true, true, true])),
                g.next_at
            ));
            return;
        }
    }
    let nonce: u32 = if c < 55 {
        pn
    } else if c < 72 {
        pn + rng.range(1, 4) as u32
    } else if c < 78 {
        cur
    } else if c < 83 {
        cur.saturating_sub(rng.range(1, 2) as u32)
    } else if c < 93 {
        // replacement attempt / nonce already used by a tracked tx of this account
        let mine: Vec<usize> = pend
            .iter()
            .chain(park.iter())
            .copied()
            .filter(|k| s.txs[*k].acct == a)
            .collect();
        if mine.is_empty() { pn } else { s.txs[*rng.pick(&mine)].nonce }
    } else {
        pn + rng.range(4, 20) as u32
    };
    let kind = match rng.below(100) {
        0..=64 => 0,
        65..=79 => 1,
        80..=89 => 2,
        _ => 3,
    };
    let fee_asset = if rng.chance(75) { 0 } else { rng.below(N_ASSETS as u64) as usize };
    let scale = (s.bals[a][0].max(s.bals[a][1]) / 3).max(4) as u64;
    let xfer = if kind == 0 {
        let xa = match rng.below(100) {
            0..=49 => 0,
            50..=84 => 1,
            _ => 2,
        };
        Some((xa, rng.below(scale + 1) as u128))
    } else {
        None
    };
    let k = s.txs.len();
    ops.push(format!(
        "mk t{k} {a} {nonce} {kind} {fee_asset} {}",
        match xfer {
            Some((x, m)) => format!("{x} {m}"),
            None => "- 0".to_string(),
        }
    ));
    // costs handed over by the caller: what the chain would charge, or arbitrary
    let mut costs = [0u128; N_ASSETS];
    match model_recost(s, kind, fee_asset, xfer) {
        Some(c) if rng.chance(65) => costs = c,
        _ => {
            for i in 0..N_ASSETS {
                costs[i] = match rng.below(10) {
                    _ if i == 2 && s.bals[a][2] == 0 && rng.chance(70) => 0,
                    0..=3 => 0,
                    4..=7 => rng.below(scale + 1) as u128,
                    8 => s.bals[a][i],
                    _ => s.bals[a][i] + 1,
                };
            }
        }
    }
    // balances shown: the chain's, or something else
    let mut bal = s.bals[a];
    if rng.chance(15) {
        for i in 0..N_ASSETS {
            bal[i] = match rng.below(4) {
                0 => bal[i] / 2,
                1 => bal[i] + rng.below(50) as u128,
                2 => 0,
                _ => bal[i],
            };
        }
    }
    g.next_at += rng.range(1, 4);
    ops.push(format!(
        "insert t{k} {cur} {} {} {}",
        fmt_vec3(&gen_vec(rng, bal, [true, true, true])),
        fmt_vec3(&gen_vec(rng, costs, [true, true, true])),
        g.next_at
    ));
}

fn gen_at(s: &Session, rng: &mut Rng, g: &mut Gen) -> u64 {
    // aim exactly at / one millisecond past the expiry of a transaction or of a cached result
    if rng.chance(8) {
        let mut cands: Vec<u64> = Vec::new();
        for t in &s.boundaries {
            cands.push(*t);
            cands.push(*t + 1);
        }
        cands.retain(|t| *t >= g.next_at);
        if !cands.is_empty() {
            g.next_at = *rng.pick(&cands);
            return g.next_at;
        }
    }
    g.next_at += match rng.below(100) {
        0..=69 => rng.range(0, 50),
        70..=84 => rng.range(500, 5_000),
        85..=91 => 30_000,
        92..=95 => 61_000,
        96..=97 => 120_001,
        _ => 240_001,
    };
    g.next_at
}

async fn gen_block(env: &Env, s: &Session, rng: &mut Rng, g: &mut Gen, ops: &mut Vec<String>) {
    let q = s.mempool.builder_queue().await;
    let max = if s.rmax < 50 { 1 } else { 6 };
    let n = rng.below((q.len().min(max) + 1) as u64) as usize;
    let mut nonces = s.nonces;
    let mut bals = s.bals;
    let mut touched = [false; N_ACCTS];
    let mut dead = [false; N_ACCTS];
    let mut results = Vec::new();
    for tx in q.iter().take(n) {
        let Some(k) = s.labels.get(tx.id()).copied() else { continue };
        let i = &s.txs[k];
        if dead[i.acct] || nonces[i.acct] != i.nonce {
            continue;
        }
        if rng.chance(12) {
            // fails execution while the block is built: the proposer removes it
            ops.push(format!("remove t{k} fail{}", rng.below(3)));
            dead[i.acct] = true;
            continue;
        }
        nonces[i.acct] += 1;
        touched[i.acct] = true;
        for x in 0..N_ASSETS {
            if rng.chance(60) {
                bals[i.acct][x] = bals[i.acct][x].saturating_sub(rng.below((bals[i.acct][x] / 4 + 2) as u64) as u128);
            }
        }
        results.push(format!("t{k}:{}", if rng.chance(85) { 0 } else { rng.range(1, 3) }));
    }
    if rng.chance(6) && !s.txs.is_empty() {
        // a result for a transaction this mempool does not hold
        let k = rng.below(s.txs.len() as u64) as usize;
        if !results.iter().any(|r| r.starts_with(&format!("t{k}:"))) && (s.rmax >= 50 || results.is_empty()) {
            results.push(format!("t{k}:0"));
        }
    }
    for a in 0..N_ACCTS {
        if touched[a] {
            ops.push(chain_line(s, a, nonces[a], bals[a], rng));
        }
    }
    let at = gen_at(s, rng, g);
    ops.push(format!(
        "maintain {} {} {} {at}",
        u8::from(rng.chance(15)),
        s.height + 1,
        join_or_dash(results)
    ));
}

fn gen_fees(s: &Session, rng: &mut Rng) -> String {
    let mut f = Vec::new();
    for kind in 0..4 {
        f.push(match s.fees[kind] {
            None if rng.chance(50) => "-".to_string(),
            _ => match kind {
                0 | 1 => rng.below(25).to_string(),
                _ => rng.below(3).to_string(),
            },
        });
    }
    let allowed: String = (0..N_ASSETS)
        .map(|i| {
            let keep = if rng.chance(75) { s.allowed[i] } else { rng.chance(60) };
            if keep { '1' } else { '0' }
        })
        .collect();
    format!("fees {} {allowed}", f.join(" "))
}

async fn gen_step(env: &Env, s: &Session, rng: &mut Rng, g: &mut Gen) -> Vec<String> {
    let mut ops = Vec::new();
    let c = rng.below(100);
    let (pend, park) = pooled(s).await;
    if c < 52 {
        gen_insert(env, s, rng, g, &mut ops).await;
    } else if c < 56 && s.pmax >= 16 {
        // flood one account's parked queue with gapped nonces (per-account limit), or fill the gap
        // below a parked run (promotion cascade)
        let a = rng.below(N_ACCTS as u64) as usize;
        let cur = s.nonces[a];
        let pn = s
            .mempool
            .pending_nonce(&env.keys[a].address_bytes())
            .await
            .unwrap_or(cur)
            .max(cur);
        let mine: Vec<u32> = park.iter().filter(|k| s.txs[**k].acct == a).map(|k| s.txs[*k].nonce).collect();
        if !mine.is_empty() && rng.chance(40) {
            // fill the gap: every nonce from the ready end up to the first parked one
            let first = *mine.iter().min().unwrap();
            let mut k = s.txs.len();
            for nonce in pn..first.min(pn + 4) {
                ops.push(format!("mk t{k} {a} {nonce} 0 0 0 0"));
                g.next_at += 1;
                ops.push(format!(
                    "insert t{k} {cur} {} {} {}",
                    fmt_vec3(&gen_vec(rng, s.bals[a], [false, true, true])),
                    fmt_vec3(&[Some(rng.below(3) as u128), None, None]),
                    g.next_at
                ));
                k += 1;
            }
        } else {
            let n = rng.range(3, 17);
            let start = pn + rng.range(1, 3) as u32;
            let mut k = s.txs.len();
            for j in 0..n {
                let nonce = start + j as u32;
                ops.push(format!("mk t{k} {a} {nonce} {} 0 - 0", rng.range(1, 3)));
                g.next_at += 1;
                ops.push(format!(
                    "insert t{k} {cur} {} {} {}",
                    fmt_vec3(&gen_vec(rng, s.bals[a], [false, true, true])),
                    fmt_vec3(&[Some(rng.below(4) as u128), None, None]),
                    g.next_at
                ));
                k += 1;
            }
        }
    } else if c < 64 {
        // remove_tx_invalid
        let all: Vec<usize> = pend.iter().chain(park.iter()).copied().collect();
        let k = if !all.is_empty() && rng.chance(80) {
            *rng.pick(&all)
        } else if !s.txs.is_empty() {
            rng.below(s.txs.len() as u64) as usize
        } else {
            return ops;
        };
        let reason = match rng.below(10) {
            0 => "exp".to_string(),
            1 => "int".to_string(),
            _ => format!("fail{}", rng.below(3)),
        };
        ops.push(format!("remove t{k} {reason}"));
    } else if c < 76 {
        gen_block(env, s, rng, g, &mut ops).await;
    } else if c < 86 {
        // chain state moves without us: balance change and/or nonce bump, then maintenance
        let n = rng.range(1, 2);
        for _ in 0..n {
            let a = rng.below(N_ACCTS as u64) as usize;
            let mut bal = s.bals[a];
            let mut nonce = s.nonces[a];
            if rng.chance(75) {
                for i in 0..N_ASSETS {
                    bal[i] = match rng.below(8) {
                        0 => 0,
                        1 => bal[i] / 2,
                        2 => bal[i].saturating_sub(rng.below(20) as u128),
                        3 => bal[i] + rng.below(40) as u128,
                        4 => bal[i] * 2 + 10,
                        _ => bal[i],
                    };
                }
            }
            if rng.chance(35) {
                nonce += rng.range(1, 3) as u32;
            }
            ops.push(chain_line(s, a, nonce, bal, rng));
        }
        if rng.chance(75) {
            let at = gen_at(s, rng, g);
            ops.push(format!("maintain {} {} - {at}", u8::from(rng.chance(20)), s.height + 1));
        }
    } else if c < 90 {
        ops.push(gen_fees(s, rng));
        let at = gen_at(s, rng, g);
        ops.push(format!("maintain 1 {} - {at}", s.height + 1));
    } else if c < 97 {
        let at = gen_at(s, rng, g);
        ops.push(format!("maintain {} {} - {at}", u8::from(rng.chance(30)), s.height + 1));
    } else if !s.txs.is_empty() {
        ops.push(format!("uncache t{}", rng.below(s.txs.len() as u64)));
    }
    ops
}

fn session_header(rng: &mut Rng, idx: u64) -> (String, Vec<String>) {
    let pmax = match idx % 9 {
        0 => 0,
        1 => 1,
        2 => rng.range(2, 4),
        3 => rng.range(5, 9),
        4 => 16,
        5 => 20,
        6 => 91,
        _ => 200,
    };
    let rmax = match idx % 5 {
        0 => rng.range(1, 3),
        1 => 100,
        _ => 10_000,
    };
    let mut init = Vec::new();
    // initial fee table
    let mut f = Vec::new();
    for kind in 0..4 {
        f.push(if rng.chance(80) {
            match kind {
                0 | 1 => rng.below(20).to_string(),
                _ => "0".to_string(),
            }
        } else {
            "-".to_string()
        });
    }
    let allowed: String = (0..N_ASSETS).map(|i| if i == 0 || rng.chance(40) { '1' } else { '0' }).collect();
    init.push(format!("fees {} {allowed}", f.join(" ")));
    (format!("reset {pmax} {rmax}"), init)
}

async fn run(env: &mut Env, rng: &mut Rng, trace: &mut Trace) {
    let mut sess: Option<Session> = None;
    let emit = |trace: &mut Trace, op: &str, res: &str| trace.line(&format!("mempool {op} => {res}"));
    if let Some(lines) = common::replay_lines() {
        for op in lines {
            let op = op.strip_prefix("mempool ").unwrap_or(&op).to_string();
            let res = exec(env, &mut sess, &op).await;
            emit(trace, &op, &res);
        }
        return;
    }
    for op in common::corpus_lines() {
        let op = op.strip_prefix("mempool ").unwrap_or(&op).to_string();
        let res = exec(env, &mut sess, &op).await;
        emit(trace, &op, &res);
    }
    let sessions: u64 = if common::is_thorough() { 1500 } else { 160 };
    for idx in 0..sessions {
        let (reset, init) = session_header(rng, idx);
        let res = exec(env, &mut sess, &reset).await;
        emit(trace, &reset, &res);
        for op in init {
            let res = exec(env, &mut sess, &op).await;
            emit(trace, &op, &res);
        }
        // initial chain state of every account
        for a in 0..N_ACCTS {
            let rich = rng.chance(70);
            let mut bal = [0u128; N_ASSETS];
            for i in 0..N_ASSETS {
                bal[i] = if i == 2 && rng.chance(60) {
                    0
                } else if rich {
                    rng.range(20, 200) as u128
                } else {
                    rng.below(12) as u128
                };
            }
            let nonce = if rng.chance(50) { 0 } else { rng.below(6) as u32 };
            let op = chain_line(sess.as_ref().unwrap(), a, nonce, bal, rng);
            let res = exec(env, &mut sess, &op).await;
            emit(trace, &op, &res);
        }
        let mut g = Gen {
            next_at: 0,
        };
        let steps = if common::is_thorough() { rng.range(30, 140) } else { rng.range(25, 90) };
        for _ in 0..steps {
            let ops = gen_step(env, sess.as_ref().unwrap(), rng, &mut g).await;
            for op in ops {
                let res = exec(env, &mut sess, &op).await;
                emit(trace, &op, &res);
            }
        }
        // settle: a final maintenance so that every session ends on a validated state
        let at = g.next_at + 1;
        let h = sess.as_ref().unwrap().height + 1;
        let op = format!("maintain 0 {h} - {at}");
        let res = exec(env, &mut sess, &op).await;
        emit(trace, &op, &res);
    }
}

#[test]
fn driver() {
    let mut rng = Rng::from_env();
    let mut trace = Trace::from_env();
    let rt = tokio::runtime::Builder::new_current_thread()
        .enable_all()
        .start_paused(true)
        .build()
        .unwrap();
    rt.block_on(async {
        let build = Fixture::default_initialized().await;
        let mut chain_fx = Fixture::uninitialized(None).await;
        chain_fx.chain_initializer().with_no_fees().init().await;
        let mut env = Env {
            build,
            chain_fx,
            keys: keys(),
        };
        run(&mut env, &mut rng, &mut trace).await;
    });
    trace.finish();
}
