// In-crate verification harness for the sequencer ledger (C01 C02 C03 C04 C14 C18).
// Hooked as `app::verif_ledger` (child of `app`): reaches App's private block/transaction
// pipeline (`begin_block`, `execute_transaction`, `end_block`, `prepare_commit`, `commit`) and
// every pub(crate) state extension trait.  Compiled only with `--features verif-ledger` under
// cfg(test).
//
// Line protocol (area `ledger`), one op per line, `=> <result> | <dump>`:
//   reset <std|legacy>
//   begin                               (opens the next block: App::begin_block)
//   tx <signer> <nonce> <acts>          (construct against the current state, then execute)
//   ctor <id> <signer> <nonce> <acts>   (construct only, keep under <id>)
//   exec <id>                           (execute a kept transaction)
//   recv <dstchan> <srcchan> <denom> <amount> <receiver> <memo>
//   timeout <srcchan> <denom> <amount> <sender> <memo>
//   ack <ok|err> <srcchan> <denom> <amount> <sender> <memo>
//   end                                 (App::end_block + commit)
// <acts> = `;`-separated actions, fields `,`-separated (see `parse_action`).
#![allow(clippy::pedantic, clippy::all, dead_code, unused_imports)]

#[path = "/verif/harness/common.rs"]
mod common;

use std::{
    collections::{
        BTreeMap,
        HashMap,
    },
    sync::Arc,
};

use astria_core::{
    crypto::SigningKey,
    primitive::v1::{
        asset::{
            Denom,
            IbcPrefixed,
        },
        Address,
        RollupId,
        TransactionId,
    },
    protocol::{
        fees::v1::FeeComponents,
        transaction::v1::{
            action::{
                self,
                BridgeLock,
                BridgeSudoChange,
                BridgeTransfer,
                BridgeUnlock,
                FeeAssetChange,
                FeeChange,
                IbcRelayerChange,
                IbcSudoChange,
                Ics20Withdrawal,
                InitBridgeAccount,
                RollupDataSubmission,
                SudoAddressChange,
                Transfer,
                ValidatorUpdate,
            },
            Action,
            TransactionBody,
        },
    },
    Protobuf as _,
};
use bytes::Bytes;
use cnidarium::{
    ArcStateDeltaExt as _,
    StateDelta,
    StateRead,
    StateWrite,
};
use common::{
    Rng,
    Trace,
};
use futures::TryStreamExt as _;
use ibc_types::core::{
    channel::{
        channel::{
            Counterparty as ChanCounterparty,
            Order,
            State as ChanState,
        },
        msgs::{
            MsgAcknowledgement,
            MsgRecvPacket,
            MsgTimeout,
        },
        packet::Sequence,
        ChannelEnd,
        ChannelId,
        Packet,
        PortId,
        TimeoutHeight,
        Version as ChanVersion,
    },
    client::Height as IbcHeight,
    commitment::MerkleProof,
    connection::{
        ConnectionEnd,
        ConnectionId,
        Counterparty as ConnCounterparty,
        State as ConnState,
        Version as ConnVersion,
    },
};
use penumbra_ibc::component::{
    app_handler::AppHandlerExecute as _,
    ChannelStateWriteExt as _,
    ConnectionStateWriteExt as _,
};
use penumbra_proto::core::component::ibc::v1::FungibleTokenPacketData;
use prost::Message as _;
use tendermint::abci;

use super::App;
use crate::{
    accounts::{
        StateReadExt as _,
        StateWriteExt as _,
    },
    assets::{
        StateReadExt as _,
        StateWriteExt as _,
    },
    authority::{
        StateReadExt as _,
        StateWriteExt as _,
    },
    bridge::{
        StateReadExt as _,
        StateWriteExt as _,
    },
    checked_actions::use_pre_aspen_validator_updates,
    checked_transaction::CheckedTransaction,
    fees::{
        StateReadExt as _,
        StateWriteExt as _,
    },
    ibc::{
        ics20_transfer::Ics20Transfer,
        StateReadExt as _,
        StateWriteExt as _,
    },
    test_utils::{
        astria_address,
        dummy_ibc_client_state,
        Fixture,
        ALICE,
        BOB,
        CAROL,
        IBC_SUDO,
        SUDO,
    },
};

const NRIA: &str = "nria";
const UTIA: &str = "transfer/channel-0/utia"; // sink-zone asset, allowed fee asset
const XTOK: &str = "xtok"; // sequencer-origin asset, not a fee asset
const UOSMO: &str = "transfer/channel-1/uosmo"; // sink-zone asset via channel-1, not a fee asset
// arrived (at some earlier time) over a channel whose id has the id of channel-1 as a string
// prefix: "leading channel" tests must compare whole path segments
const UATOM: &str = "transfer/channel-10/uatom";
const ASSETS: [&str; 5] = [NRIA, UTIA, XTOK, UOSMO, UATOM];
/// every asset name that can come into existence (received foreign assets get the receiving
/// channel's prefix)
const ALL_ASSETS: [&str; 11] = [
    NRIA,
    XTOK,
    UATOM,
    "transfer/channel-0/transfer/channel-1001/nria",
    "transfer/channel-1/transfer/channel-1011/nria",
    "transfer/channel-0/transfer/channel-1001/xtok",
    "transfer/channel-1/transfer/channel-1011/xtok",
    "transfer/channel-0/utia",
    "transfer/channel-1/utia",
    "transfer/channel-0/uosmo",
    "transfer/channel-1/uosmo",
];

fn key_from_tag(tag: u8) -> SigningKey {
    let mut seed = [0u8; 32];
    seed[0] = tag;
    seed[31] = 0xa7;
    SigningKey::from(seed)
}

struct World {
    fixture: Fixture,
    keys: BTreeMap<String, SigningKey>,
    addr_name: HashMap<[u8; 20], String>,
    name_addr: BTreeMap<String, [u8; 20]>,
    asset_name: HashMap<IbcPrefixed, String>,
    val_keys: BTreeMap<String, SigningKey>,
    height: u64,
    kept: HashMap<String, Arc<CheckedTransaction>>,
    seq: u64,
    event_ids: Vec<String>,
    legacy: bool,
    variant: String,
}

fn denom(s: &str) -> Denom {
    s.parse().unwrap()
}

impl World {
    async fn new(variant: &str) -> Self {
        let legacy = variant == "legacy";
        let mut keys = BTreeMap::new();
        keys.insert("a0".to_string(), ALICE.clone());
        keys.insert("a1".to_string(), key_from_tag(11));
        keys.insert("a2".to_string(), CAROL.clone());
        keys.insert("a3".to_string(), key_from_tag(13));
        keys.insert("a4".to_string(), key_from_tag(14));
        keys.insert("b0".to_string(), key_from_tag(20));
        keys.insert("b1".to_string(), key_from_tag(21));
        keys.insert("s".to_string(), SUDO.clone());
        keys.insert("i".to_string(), IBC_SUDO.clone());
        let mut addr_name = HashMap::new();
        let mut name_addr = BTreeMap::new();
        for (n, k) in &keys {
            addr_name.insert(*k.verification_key().address_bytes(), n.clone());
            name_addr.insert(n.clone(), *k.verification_key().address_bytes());
        }
        // key-less recipients
        for (n, b) in [("r0", 0xe0u8), ("r1", 0xe1u8)] {
            addr_name.insert([b; 20], n.to_string());
            name_addr.insert(n.to_string(), [b; 20]);
        }
        let mut val_keys = BTreeMap::new();
        val_keys.insert("va".to_string(), ALICE.clone());
        val_keys.insert("vb".to_string(), BOB.clone());
        val_keys.insert("vc".to_string(), CAROL.clone());
        for i in 0..4u8 {
            val_keys.insert(format!("v{i}"), key_from_tag(40 + i));
        }
        let mut asset_name = HashMap::new();
        for a in ALL_ASSETS {
            asset_name.insert(denom(a).to_ibc_prefixed(), a.to_string());
        }

        let upg = variant == "upg";
        let upgrades = if upg {
            // Aspen (validator storage migration, price feed genesis) at height 4, Blackburn at 6:
            // blocks 1–3 run on the pre-Aspen storage, the harness crosses both upgrades
            Some(
                astria_core::upgrades::test_utils::UpgradesBuilder::new()
                    .set_aspen(Some(4))
                    .set_blackburn(Some(6))
                    .build(),
            )
        } else {
            None
        };
        let mut fixture = Fixture::uninitialized(upgrades).await;
        let big: u128 = 1_000_000_000_000_000_000_000; // 10^21
        let accounts: Vec<(Address, u128)> = ["a0", "a1", "a2", "a3", "a4", "b0", "b1", "s", "i"]
            .iter()
            .map(|n| (astria_address(&name_addr[*n]), big))
            .collect();
        let init = fixture.chain_initializer().with_genesis_accounts(accounts);
        let init = if legacy || upg {
            // pre-Aspen storage keeps the whole validator set in one value
            init.with_genesis_validators(vec![
                (ALICE.verification_key(), 10),
                (BOB.verification_key(), 10),
            ])
        } else {
            init
        };
        init.init().await;
        let mut height = if upg { 0 } else { 1 };
        if !legacy && !upg {
            let next = fixture.run_until_blackburn_applied().await;
            height = next.value() - 1;
        }
        let mut w = World {
            fixture,
            keys,
            addr_name,
            name_addr,
            asset_name,
            val_keys,
            height,
            kept: HashMap::new(),
            seq: 1,
            event_ids: vec![],
            legacy,
            variant: variant.to_string(),
        };
        w.seed_state().await;
        w
    }

    /// Direct state writes that no transaction could produce cheaply: balances of the non-native
    /// assets, the second fee asset, the IBC asset registry and two open ICS20 channels.
    async fn seed_state(&mut self) {
        let addrs: Vec<[u8; 20]> = ["a0", "a1", "a2", "a3"].iter().map(|n| self.name_addr[*n]).collect();
        let state = self.fixture.state_mut();
        for a in [UTIA, XTOK, UOSMO, UATOM] {
            for addr in &addrs {
                state
                    .put_account_balance(addr, &denom(a), 5_000_000_000_000u128)
                    .unwrap();
            }
        }
        // whales in XTOK (overflow cases): r1 close to u128::MAX, a4 exactly u128::MAX
        state
            .put_account_balance(&[0xe1u8; 20], &denom(XTOK), u128::MAX - 1000)
            .unwrap();
        let a4 = self.name_addr["a4"];
        self.fixture
            .state_mut()
            .put_account_balance(&a4, &denom(XTOK), u128::MAX)
            .unwrap();
        let state = self.fixture.state_mut();
        state.put_allowed_fee_asset(&denom(UTIA)).unwrap();
        for a in [UTIA, UOSMO, UATOM] {
            let Denom::TracePrefixed(t) = denom(a) else { unreachable!() };
            state.put_ibc_asset(t).unwrap();
        }
        // IBC plumbing for `send_packet_check` / `write_acknowledgement`
        let client_id = ibc_types::core::client::ClientId::default();
        self.fixture
            .init_active_ibc_client(&client_id, dummy_ibc_client_state(3))
            .await;
        let state = self.fixture.state_mut();
        let conn_id = ConnectionId::new(0);
        let connection = ConnectionEnd {
            state: ConnState::Open,
            client_id: client_id.clone(),
            counterparty: ConnCounterparty {
                client_id: client_id.clone(),
                connection_id: Some(ConnectionId::new(0)),
                prefix: ibc_types::core::commitment::MerklePrefix {
                    key_prefix: b"ibc".to_vec(),
                },
            },
            versions: vec![ConnVersion::default()],
            delay_period: std::time::Duration::from_secs(0),
        };
        state.put_new_connection(&conn_id, connection).await.unwrap();
        for ch in 0..2u64 {
            let channel = ChannelEnd {
                state: ChanState::Open,
                ordering: Order::Unordered,
                remote: ChanCounterparty {
                    port_id: PortId::transfer(),
                    channel_id: Some(ChannelId::new(100 + ch)),
                },
                connection_hops: vec![conn_id.clone()],
                version: ChanVersion::new("ics20-1".to_string()),
                upgrade_sequence: 0,
            };
            state.put_channel(&ChannelId::new(ch), &PortId::transfer(), channel);
        }
    }

    fn addr(&self, name: &str) -> Address {
        astria_address(&self.name_addr[name])
    }

    fn name_of(&self, addr: &[u8; 20]) -> String {
        self.addr_name
            .get(addr)
            .cloned()
            .unwrap_or_else(|| format!("x{}", common::hex(addr)))
    }

    fn asset_of(&self, asset: &IbcPrefixed) -> String {
        self.asset_name
            .get(asset)
            .cloned()
            .unwrap_or_else(|| format!("h{}", common::hex(asset.as_bytes())))
    }

    fn opt_addr(&self, s: &str) -> Option<Address> {
        if s == "-" {
            None
        } else {
            Some(self.addr(s))
        }
    }

    /// `<kind>,<fields…>`
    fn parse_action(&self, s: &str) -> Action {
        let f: Vec<&str> = s.split(',').collect();
        match f[0] {
            // transfer,<to>,<asset>,<amount>,<feeasset>
            "transfer" => Action::Transfer(Transfer {
                to: self.addr(f[1]),
                asset: denom(f[2]),
                amount: f[3].parse().unwrap(),
                fee_asset: denom(f[4]),
            }),
            // rollup,<len>,<feeasset>
            "rollup" => Action::RollupDataSubmission(RollupDataSubmission {
                rollup_id: RollupId::new([1; 32]),
                data: Bytes::from(vec![7u8; f[1].parse().unwrap()]),
                fee_asset: denom(f[2]),
            }),
            // lock,<to>,<asset>,<amount>,<feeasset>,<destlen>
            "lock" => Action::BridgeLock(BridgeLock {
                to: self.addr(f[1]),
                asset: denom(f[2]),
                amount: f[3].parse().unwrap(),
                fee_asset: denom(f[4]),
                destination_chain_address: "d".repeat(f[5].parse().unwrap()),
            }),
            // unlock,<to>,<bridge>,<amount>,<feeasset>,<eventid>,<blocknum>
            "unlock" => Action::BridgeUnlock(BridgeUnlock {
                to: self.addr(f[1]),
                bridge_address: self.addr(f[2]),
                amount: f[3].parse().unwrap(),
                fee_asset: denom(f[4]),
                rollup_withdrawal_event_id: f[5].to_string(),
                rollup_block_number: f[6].parse().unwrap(),
                memo: String::new(),
            }),
            // btransfer,<to>,<bridge>,<amount>,<feeasset>,<eventid>,<blocknum>,<destlen>
            "btransfer" => Action::BridgeTransfer(BridgeTransfer {
                to: self.addr(f[1]),
                bridge_address: self.addr(f[2]),
                amount: f[3].parse().unwrap(),
                fee_asset: denom(f[4]),
                rollup_withdrawal_event_id: f[5].to_string(),
                rollup_block_number: f[6].parse().unwrap(),
                destination_chain_address: "d".repeat(f[7].parse().unwrap()),
            }),
            // initbridge,<rollup 1|2>,<asset>,<feeasset>,<sudo|->,<withdrawer|->
            "initbridge" => Action::InitBridgeAccount(InitBridgeAccount {
                rollup_id: RollupId::new([f[1].parse().unwrap(); 32]),
                asset: denom(f[2]),
                fee_asset: denom(f[3]),
                sudo_address: self.opt_addr(f[4]),
                withdrawer_address: self.opt_addr(f[5]),
            }),
            // bsudo,<bridge>,<newsudo|->,<newwithdrawer|->,<feeasset>,<disable 0|1>
            "bsudo" => Action::BridgeSudoChange(BridgeSudoChange {
                bridge_address: self.addr(f[1]),
                new_sudo_address: self.opt_addr(f[2]),
                new_withdrawer_address: self.opt_addr(f[3]),
                fee_asset: denom(f[4]),
                disable_deposits: f[5] == "1",
            }),
            "sudo" => Action::SudoAddressChange(SudoAddressChange {
                new_address: self.addr(f[1]),
            }),
            "ibcsudo" => Action::IbcSudoChange(IbcSudoChange {
                new_address: self.addr(f[1]),
            }),
            // relayer,<add|del>,<addr>
            "relayer" => Action::IbcRelayerChange(if f[1] == "add" {
                IbcRelayerChange::Addition(self.addr(f[2]))
            } else {
                IbcRelayerChange::Removal(self.addr(f[2]))
            }),
            // fee,<kind>,<base>,<mult>
            "fee" => {
                let b: u128 = f[2].parse().unwrap();
                let m: u128 = f[3].parse().unwrap();
                Action::FeeChange(match f[1] {
                    "transfer" => FeeChange::Transfer(FeeComponents::new(b, m)),
                    "rollup" => FeeChange::RollupDataSubmission(FeeComponents::new(b, m)),
                    "ics20" => FeeChange::Ics20Withdrawal(FeeComponents::new(b, m)),
                    "initbridge" => FeeChange::InitBridgeAccount(FeeComponents::new(b, m)),
                    "lock" => FeeChange::BridgeLock(FeeComponents::new(b, m)),
                    "unlock" => FeeChange::BridgeUnlock(FeeComponents::new(b, m)),
                    "btransfer" => FeeChange::BridgeTransfer(FeeComponents::new(b, m)),
                    "bsudo" => FeeChange::BridgeSudoChange(FeeComponents::new(b, m)),
                    k => panic!("unknown fee kind {k}"),
                })
            }
            // feeasset,<add|del>,<asset>
            "feeasset" => Action::FeeAssetChange(if f[1] == "add" {
                FeeAssetChange::Addition(denom(f[2]))
            } else {
                FeeAssetChange::Removal(denom(f[2]))
            }),
            // val,<key>,<power>
            "val" => Action::ValidatorUpdate(ValidatorUpdate {
                power: f[2].parse().unwrap(),
                verification_key: self.val_keys[f[1]].verification_key(),
                name: f[1].parse().unwrap(),
            }),
            // ics20,<amount>,<denom>,<channel>,<feeasset>,<bridge|->,<eventid|->,<blocknum>,<returnaddr>
            "ics20" => {
                let bridge = self.opt_addr(f[5]);
                let memo = if bridge.is_some() {
                    serde_json::to_string(&astria_core::protocol::memos::v1::Ics20WithdrawalFromRollup {
                        rollup_block_number: f[7].parse().unwrap(),
                        rollup_withdrawal_event_id: f[6].to_string(),
                        rollup_return_address: "rollup-return".to_string(),
                        memo: String::new(),
                    })
                    .unwrap()
                } else {
                    String::new()
                };
                Action::Ics20Withdrawal(Ics20Withdrawal {
                    amount: f[1].parse().unwrap(),
                    denom: denom(f[2]),
                    destination_chain_address: "counterparty-addr".to_string(),
                    return_address: self.addr(f[8]),
                    timeout_height: IbcHeight::new(2, 1_000_000).unwrap(),
                    timeout_time: u64::MAX - 1,
                    source_channel: format!("channel-{}", f[3]).parse().unwrap(),
                    fee_asset: denom(f[4]),
                    memo,
                    bridge_address: bridge,
                    use_compat_address: false,
                })
            }
            // ibcbad — an IbcRelay action that passes its stateless checks and fails execution (non-fatally
            // after Blackburn): everything its transaction did before it must be rolled back
            "ibcbad" => Action::Ibc(super::tests_app::bad_ibc_relay()),
            // pairs,<add|del>,<P1+P2+…>
            "pairs" => {
                let set: indexmap::IndexSet<astria_core::oracles::price_feed::types::v2::CurrencyPair> =
                    f[2].split('+').map(|p| p.parse().unwrap()).collect();
                Action::CurrencyPairsChange(if f[1] == "add" {
                    action::CurrencyPairsChange::Addition(set)
                } else {
                    action::CurrencyPairsChange::Removal(set)
                })
            }
            // markets,<create|remove|update>,<PAIR:decimals+…>
            "markets" => {
                use astria_core::oracles::price_feed::market_map::v2::{
                    Market,
                    Ticker,
                };
                let markets: Vec<Market> = f[2]
                    .split('+')
                    .map(|m| {
                        let (pair, dec) = m.split_once(':').unwrap();
                        Market {
                            ticker: Ticker {
                                currency_pair: pair.parse().unwrap(),
                                decimals: dec.parse().unwrap(),
                                min_provider_count: 1,
                                enabled: true,
                                metadata_json: String::new(),
                            },
                            provider_configs: vec![],
                        }
                    })
                    .collect();
                Action::MarketsChange(match f[1] {
                    "create" => action::MarketsChange::Creation(markets),
                    "remove" => action::MarketsChange::Removal(markets),
                    _ => action::MarketsChange::Update(markets),
                })
            }
            k => panic!("unknown action kind {k}"),
        }
    }

    async fn construct(&self, signer: &str, nonce: u32, acts: &str) -> Result<Arc<CheckedTransaction>, String> {
        let actions: Vec<Action> = acts.split(';').map(|a| self.parse_action(a)).collect();
        let body = TransactionBody::builder()
            .nonce(nonce)
            .chain_id("test".to_string())
            .actions(actions)
            .try_build()
            .map_err(|e| format!("body:{e}"))?;
        let tx = body.sign(&self.keys[signer]);
        let encoded = Bytes::from(tx.into_raw().encode_to_vec());
        CheckedTransaction::new(encoded, self.fixture.state())
            .await
            .map(Arc::new)
            .map_err(|e| {
                let m = format!("{:#}", astria_eyre::eyre::Report::new(e));
                dbg_err("construct", &m);
                m
            })
    }

    async fn execute(&mut self, tx: Arc<CheckedTransaction>) -> String {
        match self.fixture.app.execute_transaction(tx).await {
            Ok(events) => format!("ok {}", self.events(&events)),
            Err(e) => {
                let s = format!("{e:?}");
                dbg_err("exec", &format!("{:#}", astria_eyre::eyre::Report::new(e)));
                if s.starts_with("InvalidNonce") {
                    "err:nonce -".to_string()
                } else if s.starts_with("NonceOverflowed") {
                    "err:nonce-overflow -".to_string()
                } else {
                    "err:exec -".to_string()
                }
            }
        }
    }

    /// fee and deposit events of one transaction / handler call
    fn events(&self, events: &[abci::Event]) -> String {
        let mut out = Vec::new();
        for e in events {
            let get = |k: &str| -> String {
                e.attributes
                    .iter()
                    .find(|a| a.key_str().ok() == Some(k))
                    .and_then(|a| a.value_str().ok().map(str::to_string))
                    .unwrap_or_default()
            };
            if e.kind == "tx.fees" {
                let asset: IbcPrefixed = get("asset").parse().unwrap();
                out.push(format!(
                    "fee:{}:{}:{}",
                    self.asset_of(&asset),
                    get("feeAmount"),
                    get("positionInTransaction")
                ));
            } else if e.kind == "tx.deposit" {
                out.push(format!("dep:{}", get("amount")));
            }
        }
        if out.is_empty() {
            "-".to_string()
        } else {
            out.join(",")
        }
    }

    fn packet(&mut self, src_chan: &str, dst_chan: &str, data: Vec<u8>, inbound: bool) -> Packet {
        self.seq += 1;
        let (chan_a, chan_b) = if inbound {
            (format!("channel-{src_chan}"), format!("channel-{dst_chan}"))
        } else {
            (format!("channel-{src_chan}"), format!("channel-{dst_chan}"))
        };
        Packet {
            sequence: Sequence(self.seq),
            port_on_a: PortId::transfer(),
            chan_on_a: chan_a.parse().unwrap(),
            port_on_b: PortId::transfer(),
            chan_on_b: chan_b.parse().unwrap(),
            data,
            timeout_height_on_b: TimeoutHeight::Never,
            timeout_timestamp_on_b: ibc_types::timestamp::Timestamp {
                time: None,
            },
        }
    }

    fn memo(&self, kind: &str) -> String {
        match kind {
            "-" => String::new(),
            // deposit memo for a bridge recipient
            "dep" => serde_json::to_string(&astria_core::protocol::memos::v1::Ics20TransferDeposit {
                rollup_deposit_address: "rollup-dest".to_string(),
            })
            .unwrap(),
            "depempty" => serde_json::to_string(&astria_core::protocol::memos::v1::Ics20TransferDeposit {
                rollup_deposit_address: String::new(),
            })
            .unwrap(),
            // memo of a withdrawal that came from a rollup (refund ⇒ deposit back to the rollup)
            "fromrollup" => serde_json::to_string(&astria_core::protocol::memos::v1::Ics20WithdrawalFromRollup {
                rollup_block_number: 1,
                rollup_withdrawal_event_id: "wd".to_string(),
                rollup_return_address: "rollup-return".to_string(),
                memo: String::new(),
            })
            .unwrap(),
            "bad" => "{not json".to_string(),
            k => panic!("unknown memo kind {k}"),
        }
    }

    fn party(&self, s: &str) -> String {
        match s {
            "bad" => "not-an-address".to_string(),
            n => self.addr(n).to_string(),
        }
    }

    /// recv <dstchan> <srcchan> <denom> <amount> <receiver> <memo>
    async fn recv(&mut self, t: &[&str]) -> String {
        let data = FungibleTokenPacketData {
            denom: t[2].to_string(),
            amount: t[3].to_string(),
            sender: "counterparty-sender".to_string(),
            receiver: self.party(t[4]),
            memo: self.memo(t[5]),
        };
        // counterparty channel = 100 + our channel unless given explicitly
        let packet = self.packet(t[1], t[0], serde_json::to_vec(&data).unwrap(), true);
        let msg = MsgRecvPacket {
            packet,
            proof_commitment_on_a: MerkleProof {
                proofs: vec![],
            },
            proof_height_on_a: IbcHeight::new(2, 3).unwrap(),
            signer: String::new(),
        };
        let seq = self.seq;
        let mut state_tx = self
            .fixture
            .app
            .state
            .try_begin_transaction()
            .expect("state Arc should be unique");
        state_tx.ephemeral_put_ibc_context(TransactionId::new([seq as u8; 32]), 0);
        match Ics20Transfer::recv_packet_execute(&mut state_tx, &msg).await {
            Ok(()) => {
                let events = state_tx.apply().1;
                let mut ack = "ack:?".to_string();
                for e in &events {
                    if e.kind == "write_acknowledgement" {
                        for a in &e.attributes {
                            if a.key_str().ok() == Some("packet_ack") {
                                let v = a.value_str().unwrap_or_default();
                                ack = if v.contains("result") { "ack:ok".into() } else { "ack:err".into() };
                            }
                        }
                    }
                }
                format!("{ack} {}", self.events(&events))
            }
            Err(e) => {
                dbg_err("recv", &format!("{e:#}"));
                "err:exec -".to_string()
            }
        }
    }

    /// timeout <srcchan> <denom> <amount> <sender> <memo>  |  ack <ok|err> <srcchan> …
    async fn refund(&mut self, is_ack: Option<bool>, t: &[&str]) -> String {
        let data = FungibleTokenPacketData {
            denom: t[1].to_string(),
            amount: t[2].to_string(),
            sender: self.party(t[3]),
            receiver: "counterparty-receiver".to_string(),
            memo: self.memo(t[4]),
        };
        let dst = (100 + t[0].parse::<u64>().unwrap()).to_string();
        let packet = self.packet(t[0], &dst, serde_json::to_vec(&data).unwrap(), false);
        let seq = self.seq;
        let mut state_tx = self
            .fixture
            .app
            .state
            .try_begin_transaction()
            .expect("state Arc should be unique");
        state_tx.ephemeral_put_ibc_context(TransactionId::new([seq as u8; 32]), 0);
        let proof = MerkleProof {
            proofs: vec![],
        };
        let res = match is_ack {
            None => {
                let msg = MsgTimeout {
                    packet,
                    next_seq_recv_on_b: Sequence(1),
                    proof_unreceived_on_b: proof,
                    proof_height_on_b: IbcHeight::new(2, 3).unwrap(),
                    signer: String::new(),
                };
                Ics20Transfer::timeout_packet_execute(&mut state_tx, &msg).await
            }
            Some(success) => {
                let acknowledgement: Vec<u8> = if success {
                    br#"{"result":"AQ=="}"#.to_vec()
                } else {
                    br#"{"error":"failed"}"#.to_vec()
                };
                let msg = MsgAcknowledgement {
                    packet,
                    acknowledgement,
                    proof_acked_on_b: proof,
                    proof_height_on_b: IbcHeight::new(2, 3).unwrap(),
                    signer: String::new(),
                };
                Ics20Transfer::acknowledge_packet_execute(&mut state_tx, &msg).await
            }
        };
        match res {
            Ok(()) => {
                let events = state_tx.apply().1;
                format!("ok {}", self.events(&events))
            }
            Err(_) => "err:exec -".to_string(),
        }
    }

    async fn begin(&mut self) -> String {
        self.height += 1;
        let time = tendermint::Time::from_unix_timestamp(100, 2 + self.height as u32).unwrap();
        let begin_block = abci::request::BeginBlock {
            hash: tendermint::Hash::default(),
            byzantine_validators: vec![],
            header: tendermint::block::Header {
                app_hash: self.fixture.app.app_hash.clone(),
                chain_id: "test".try_into().unwrap(),
                consensus_hash: tendermint::Hash::default(),
                data_hash: Some(tendermint::Hash::default()),
                evidence_hash: Some(tendermint::Hash::default()),
                height: (self.height as u32).into(),
                last_block_id: None,
                last_commit_hash: Some(tendermint::Hash::default()),
                last_results_hash: Some(tendermint::Hash::default()),
                next_validators_hash: tendermint::Hash::default(),
                proposer_address: [0u8; 20].to_vec().try_into().unwrap(),
                time,
                validators_hash: tendermint::Hash::default(),
                version: tendermint::block::header::Version {
                    app: 0,
                    block: 0,
                },
            },
            last_commit_info: tendermint::abci::types::CommitInfo {
                round: 0u16.into(),
                votes: vec![],
            },
        };
        if self.variant == "upg" {
            // the path finalize_block takes: due upgrades first, then begin_block
            let block_data = super::BlockData {
                misbehavior: vec![],
                height: (self.height as u32).into(),
                time,
                next_validators_hash: tendermint::Hash::default(),
                proposer_address: [0u8; 20].to_vec().try_into().unwrap(),
            };
            return match self.fixture.app.pre_execute_transactions(block_data).await {
                Ok(_) => "ok -".to_string(),
                Err(e) => format!("err:{e:#} -"),
            };
        }
        match self.fixture.app.begin_block(&begin_block).await {
            Ok(_) => "ok -".to_string(),
            Err(e) => format!("err:{e:#} -"),
        }
    }

    async fn end(&mut self) -> String {
        let sudo = self.fixture.state().get_sudo_address().await.unwrap();
        let deposits = self.deposits_dump();
        let res = self.fixture.app.end_block(self.height, &sudo).await;
        let out = match res {
            Ok(end_block) => {
                let mut ups: Vec<String> = end_block
                    .validator_updates
                    .iter()
                    .map(|u| {
                        let addr = tendermint::account::Id::from(u.pub_key);
                        let mut a = [0u8; 20];
                        a.copy_from_slice(addr.as_bytes());
                        format!("{}:{}", self.val_name(&a), u.power.value())
                    })
                    .collect();
                ups.sort();
                format!(
                    "ok vu={} blockdeps={}",
                    if ups.is_empty() { "-".to_string() } else { ups.join(",") },
                    deposits
                )
            }
            Err(e) => format!("err:{e:#} -"),
        };
        let storage = self.fixture.storage();
        self.fixture.app.prepare_commit(storage.clone(), vec![]).await.unwrap();
        self.fixture.app.commit(storage).await.unwrap();
        out
    }

    fn val_name(&self, addr: &[u8; 20]) -> String {
        for (n, k) in &self.val_keys {
            if k.verification_key().address_bytes() == addr {
                return n.clone();
            }
        }
        format!("x{}", common::hex(addr))
    }

    fn deposits_dump(&self) -> String {
        let cached = self.fixture.state().get_cached_block_deposits();
        let mut all: Vec<String> = Vec::new();
        for (rollup, deps) in &cached {
            for (i, d) in deps.iter().enumerate() {
                all.push(format!(
                    "{}:{}:{}:{}:{}:{}:{}",
                    rollup.as_bytes()[0],
                    i,
                    self.name_of(&d.bridge_address.bytes()),
                    self.asset_of(&d.asset.to_ibc_prefixed()),
                    d.amount,
                    d.destination_chain_address.len(),
                    d.source_action_index
                ));
            }
        }
        all.sort();
        if all.is_empty() {
            "-".to_string()
        } else {
            all.join(",")
        }
    }

    async fn dump(&self) -> String {
        let state = self.fixture.state();
        let mut parts: Vec<String> = Vec::new();
        // balances and nonces: raw scan of the `accounts/` prefix so that unknown addresses show up
        let mut bal: Vec<String> = Vec::new();
        let mut nonces: Vec<String> = Vec::new();
        {
            use base64::Engine as _;
            let mut stream = std::pin::pin!(state.prefix_raw("accounts/"));
            let mut keys: Vec<String> = Vec::new();
            while let Some((k, _)) = stream.try_next().await.unwrap() {
                keys.push(k);
            }
            for k in keys {
                let rest = &k["accounts/".len()..];
                let (a64, tail) = rest.split_once('/').unwrap();
                let raw = base64::engine::general_purpose::URL_SAFE.decode(a64).unwrap();
                let mut addr = [0u8; 20];
                addr.copy_from_slice(&raw);
                if tail == "nonce" {
                    let n = state.get_account_nonce(&addr).await.unwrap();
                    if n != 0 {
                        nonces.push(format!("{}:{}", self.name_of(&addr), n));
                    }
                } else if let Some(hexasset) = tail.strip_prefix("balance/") {
                    let asset: IbcPrefixed = hexasset.parse().unwrap();
                    let b = state.get_account_balance(&addr, &asset).await.unwrap();
                    if b != 0 {
                        bal.push(format!("{}:{}:{}", self.name_of(&addr), self.asset_of(&asset), b));
                    }
                }
            }
        }
        bal.sort();
        nonces.sort();
        parts.push(format!("bal={}", join(&bal)));
        parts.push(format!("nonce={}", join(&nonces)));
        // escrow
        let mut esc: Vec<String> = Vec::new();
        for ch in 0..2u64 {
            for a in ALL_ASSETS {
                let v = state
                    .get_ibc_channel_balance(&ChannelId::new(ch), &denom(a))
                    .await
                    .unwrap();
                if v != 0 {
                    esc.push(format!("{ch}:{a}:{v}"));
                }
            }
        }
        esc.sort();
        parts.push(format!("esc={}", join(&esc)));
        // bridge accounts + withdrawal events
        let mut bridges: Vec<String> = Vec::new();
        let mut wd: Vec<String> = Vec::new();
        for (n, addr) in &self.name_addr {
            if let Some(rollup) = state.get_bridge_account_rollup_id(addr).await.unwrap() {
                let asset = state.get_bridge_account_ibc_asset(addr).await.unwrap();
                let sudo = state.get_bridge_account_sudo_address(addr).await.unwrap();
                let wdr = state.get_bridge_account_withdrawer_address(addr).await.unwrap();
                let disabled = state.is_bridge_account_disabled(addr).await.unwrap();
                bridges.push(format!(
                    "{n}:{}:{}:{}:{}:{}",
                    rollup.as_bytes()[0],
                    self.asset_of(&asset),
                    sudo.map_or("-".to_string(), |a| self.name_of(&a)),
                    wdr.map_or("-".to_string(), |a| self.name_of(&a)),
                    u8::from(disabled)
                ));
            }
            for id in &self.event_ids {
                if let Some(blk) = state
                    .get_withdrawal_event_rollup_block_number(addr, id)
                    .await
                    .unwrap()
                {
                    wd.push(format!("{n}:{id}:{blk}"));
                }
            }
        }
        wd.sort();
        bridges.sort();
        parts.push(format!("bridges={}", join(&bridges)));
        parts.push(format!("wd={}", join(&wd)));
        // authorities
        let sudo = state.get_sudo_address().await.unwrap();
        let ibcsudo = state.get_ibc_sudo_address().await.unwrap();
        let mut relayers: Vec<String> = Vec::new();
        for (n, addr) in &self.name_addr {
            if state.is_ibc_relayer(addr).await.unwrap() {
                relayers.push(n.clone());
            }
        }
        parts.push(format!(
            "sudo={} ibcsudo={} relayers={}",
            self.name_of(&sudo),
            self.name_of(&ibcsudo),
            join(&relayers)
        ));
        // fee schedule (the kinds that carry a fee asset) and allowed fee assets
        let mut fees: Vec<String> = Vec::new();
        macro_rules! fee {
            ($name:literal, $t:ty) => {
                if let Some(f) = state.get_fees::<$t>().await.unwrap() {
                    fees.push(format!("{}:{}:{}", $name, f.base(), f.multiplier()));
                }
            };
        }
        fee!("transfer", Transfer);
        fee!("rollup", RollupDataSubmission);
        fee!("ics20", Ics20Withdrawal);
        fee!("initbridge", InitBridgeAccount);
        fee!("lock", BridgeLock);
        fee!("unlock", BridgeUnlock);
        fee!("btransfer", BridgeTransfer);
        fee!("bsudo", BridgeSudoChange);
        fees.sort();
        let mut feeassets: Vec<String> = state
            .allowed_fee_assets()
            .try_collect::<Vec<IbcPrefixed>>()
            .await
            .unwrap()
            .iter()
            .map(|a| self.asset_of(a))
            .collect();
        feeassets.sort();
        parts.push(format!("fees={} feeassets={}", join(&fees), join(&feeassets)));
        // validators
        let mut vals: Vec<String> = Vec::new();
        let cnt: String;
        if use_pre_aspen_validator_updates(state).await.unwrap() {
            let set = state.pre_aspen_get_validator_set().await.unwrap();
            for u in set.updates() {
                vals.push(format!(
                    "{}:{}",
                    self.val_name(u.verification_key.address_bytes()),
                    u.power
                ));
            }
            cnt = "pre".to_string();
        } else {
            for (n, k) in &self.val_keys {
                if let Some(v) = state.get_validator(k.verification_key().address_bytes()).await.unwrap() {
                    vals.push(format!("{n}:{}", v.power));
                }
            }
            cnt = state.get_validator_count().await.unwrap().to_string();
        }
        vals.sort();
        let upd = state.get_block_validator_updates().await.unwrap();
        let mut vupd: Vec<String> = upd
            .updates()
            .map(|u| format!("{}:{}", self.val_name(u.verification_key.address_bytes()), u.power))
            .collect();
        vupd.sort();
        parts.push(format!("vals={} cnt={} vupd={}", join(&vals), cnt, join(&vupd)));
        // oracle: currency pairs and markets (privileged state of the sudo address)
        {
            use crate::oracles::price_feed::{
                market_map::state_ext::StateReadExt as _,
                oracle::state_ext::StateReadExt as _,
            };
            let mut pairs: Vec<String> = Vec::new();
            let mut stream = std::pin::pin!(state.currency_pairs_with_ids());
            while let Some(item) = stream.try_next().await.unwrap() {
                pairs.push(format!("{}:{}", item.currency_pair, item.id));
            }
            pairs.sort();
            let npairs = state.get_num_currency_pairs().await.unwrap();
            let nextid = state.get_next_currency_pair_id().await.unwrap();
            let markets = match state.get_market_map().await.unwrap() {
                None => "none".to_string(),
                Some(mm) => {
                    let mut v: Vec<String> = mm
                        .markets
                        .iter()
                        .map(|(k, m)| format!("{k}:{}", m.ticker.decimals))
                        .collect();
                    v.sort();
                    join(&v)
                }
            };
            parts.push(format!("pairs={} npairs={npairs} nextid={nextid} markets={markets}", join(&pairs)));
        }
        // ephemeral: block fees, cached deposits
        let mut bfees: Vec<String> = state
            .get_block_fees()
            .iter()
            .map(|(a, v)| format!("{}:{}", self.asset_of(a), v))
            .collect();
        bfees.sort();
        parts.push(format!("bfees={} deps={}", join(&bfees), self.deposits_dump()));
        parts.join(" ")
    }

    fn note_event_ids(&mut self, acts: &str) {
        for a in acts.split(';') {
            let f: Vec<&str> = a.split(',').collect();
            let id = match f[0] {
                "unlock" | "btransfer" => Some(f[5]),
                "ics20" => Some(f[6]),
                _ => None,
            };
            if let Some(id) = id {
                if id != "-" && !self.event_ids.iter().any(|e| e == id) {
                    self.event_ids.push(id.to_string());
                }
            }
        }
    }
}

fn dbg_err(what: &str, msg: &str) {
    if std::env::var("VERIF_DEBUG").is_ok() {
        eprintln!("DEBUG {what}: {msg}");
    }
}

fn join(v: &[String]) -> String {
    if v.is_empty() {
        "-".to_string()
    } else {
        v.join(",")
    }
}

async fn run_op(world: &mut Option<World>, op: &str) -> String {
    let t: Vec<&str> = op.split(' ').collect();
    if t[0] == "reset" {
        *world = Some(World::new(t[1]).await);
        let w = world.as_ref().unwrap();
        return format!("ok - | {}", w.dump().await);
    }
    let w = world.as_mut().expect("reset must come first");
    let res = match t[0] {
        "begin" => w.begin().await,
        "end" => w.end().await,
        "tx" => {
            w.note_event_ids(t[3]);
            match w.construct(t[1], t[2].parse().unwrap(), t[3]).await {
                Ok(tx) => w.execute(tx).await,
                Err(_) => "err:construct -".to_string(),
            }
        }
        "ctor" => {
            w.note_event_ids(t[4]);
            match w.construct(t[2], t[3].parse().unwrap(), t[4]).await {
                Ok(tx) => {
                    w.kept.insert(t[1].to_string(), tx);
                    "ok -".to_string()
                }
                Err(_) => "err:construct -".to_string(),
            }
        }
        "exec" => match w.kept.remove(t[1]) {
            Some(tx) => w.execute(tx).await,
            None => "err:unknown-id -".to_string(),
        },
        "recv" => w.recv(&t[1..]).await,
        "timeout" => w.refund(None, &t[1..]).await,
        "ack" => w.refund(Some(t[1] == "ok"), &t[2..]).await,
        _ => panic!("unknown op {op}"),
    };
    format!("{res} | {}", w.dump().await)
}

// ---------------------------------------------------------------------------------------
// generator
// ---------------------------------------------------------------------------------------

const USERS: [&str; 5] = ["a0", "a1", "a2", "a3", "a4"];
const SIGNERS: [&str; 9] = ["a0", "a1", "a2", "a3", "a4", "b0", "b1", "s", "i"];
const RECIPIENTS: [&str; 8] = ["a0", "a1", "a2", "a3", "a4", "r0", "r1", "s"];

/// What the generator knows about the chain: parsed from the implementation's last dump, so
/// that most generated operations are valid against the *current* state.
#[derive(Default, Clone)]
struct View {
    nonces: HashMap<String, u32>,
    bridges: Vec<(String, String, String, String, bool)>, // name, asset, sudo, withdrawer, disabled
    sudo: String,
    ibcsudo: String,
    relayers: Vec<String>,
    feeassets: Vec<String>,
    vals: Vec<String>,
    wd: Vec<(String, String)>,
    esc: Vec<(u64, String, u128)>,
}

fn view_of(dump: &str) -> View {
    let mut v = View::default();
    for part in dump.split(' ') {
        let Some((k, val)) = part.split_once('=') else { continue };
        let items: Vec<&str> = if val == "-" { vec![] } else { val.split(',').collect() };
        match k {
            "nonce" => {
                for it in items {
                    let (a, n) = it.split_once(':').unwrap();
                    v.nonces.insert(a.to_string(), n.parse().unwrap());
                }
            }
            "bridges" => {
                for it in items {
                    let f: Vec<&str> = it.split(':').collect();
                    v.bridges.push((f[0].into(), f[2].into(), f[3].into(), f[4].into(), f[5] == "1"));
                }
            }
            "sudo" => v.sudo = val.to_string(),
            "ibcsudo" => v.ibcsudo = val.to_string(),
            "relayers" => v.relayers = items.iter().map(|s| s.to_string()).collect(),
            "feeassets" => v.feeassets = items.iter().map(|s| s.to_string()).collect(),
            "vals" => v.vals = items.iter().map(|s| s.split(':').next().unwrap().to_string()).collect(),
            "wd" => {
                for it in items {
                    let f: Vec<&str> = it.split(':').collect();
                    v.wd.push((f[0].into(), f[1].into()));
                }
            }
            "esc" => {
                for it in items {
                    let f: Vec<&str> = it.split(':').collect();
                    v.esc.push((f[0].parse().unwrap(), f[1].into(), f[2].parse().unwrap()));
                }
            }
            _ => {}
        }
    }
    v
}

struct Gen {
    rng: Rng,
    view: View,
    event_no: u32,
    kept_no: u32,
    val_bias: bool,
}

fn stat(s: &str) -> &'static str {
    for c in SIGNERS.iter().chain(RECIPIENTS.iter()) {
        if *c == s {
            return c;
        }
    }
    "a0"
}

impl Gen {
    fn amount(&mut self, adversarial: bool) -> u128 {
        if !adversarial {
            return self.rng.range(1, 50_000) as u128;
        }
        match self.rng.below(12) {
            0 => 0,
            1 => 1,
            2 => u128::MAX,
            3 => u128::MAX - 999,
            4 => 5_000_000_000_000,
            5 => 5_000_000_000_001,
            6 => 1_000_000_000_000_000_000_000,
            _ => self.rng.range(1, 2_000_000) as u128,
        }
    }

    fn fee_asset(&mut self, adversarial: bool) -> String {
        if adversarial && self.rng.chance(25) {
            return (*self.rng.pick(&[XTOK, UTIA, NRIA, UOSMO])).to_string();
        }
        if self.view.feeassets.is_empty() {
            NRIA.to_string()
        } else {
            let i = self.rng.below(self.view.feeassets.len() as u64) as usize;
            self.view.feeassets[i].clone()
        }
    }

    fn event_id(&mut self, adversarial: bool) -> String {
        if adversarial && self.event_no > 0 && self.rng.chance(60) {
            format!("e{}", self.rng.below(self.event_no as u64))
        } else {
            self.event_no += 1;
            format!("e{}", self.event_no - 1)
        }
    }

    fn bridge(&mut self, adversarial: bool) -> (String, String, String, String, bool) {
        if self.view.bridges.is_empty() || (adversarial && self.rng.chance(12)) {
            return ((*self.rng.pick(&["a4", "b0", "b1"])).to_string(), NRIA.into(), "a0".into(), "a1".into(), false);
        }
        let i = self.rng.below(self.view.bridges.len() as u64) as usize;
        self.view.bridges[i].clone()
    }

    /// Returns (signer, group, action).
    fn action(&mut self, group: Option<u8>, adversarial: bool) -> (String, u8, String) {
        let user = (*self.rng.pick(&USERS)).to_string();
        let non_bridge_user = {
            let c: Vec<&&str> = USERS.iter().filter(|u| !self.view.bridges.iter().any(|b| b.0 == **u)).collect();
            if c.is_empty() { "a0".to_string() } else { (**self.rng.pick(&c)).to_string() }
        };
        let to = (*self.rng.pick(&RECIPIENTS)).to_string();
        let fa = self.fee_asset(adversarial);
        let sudo = self.view.sudo.clone();
        if group.is_none() && self.val_bias && self.rng.chance(45) {
            let remove = self.rng.chance(35);
            let key = *self.rng.pick(&["va", "vb", "vc", "v0", "v1", "v2"]);
            let power = if remove { 0 } else { *self.rng.pick(&[1u32, 10, 25]) };
            return (sudo, 4, format!("val,{key},{power}"));
        }
        let g = group.unwrap_or_else(|| match self.rng.below(100) {
            0..=3 => 1,
            4..=15 => 2,
            16..=24 => 3,
            _ => 4,
        });
        match g {
            1 => {
                let a = if self.rng.chance(60) {
                    format!("sudo,{}", self.rng.pick(&["s", "a0", "a3"]))
                } else {
                    format!("ibcsudo,{}", self.rng.pick(&["i", "a0", "a2"]))
                };
                (sudo, 1, a)
            }
            2 => match self.rng.below(14) {
                10 | 11 => {
                    let add = self.rng.chance(55);
                    let pool = ["AAA/USD", "BBB/USD", "CCC/USD", "BTC/USD"];
                    let k = self.rng.range(1, 2) as usize;
                    let mut names: Vec<&str> = Vec::new();
                    for _ in 0..k {
                        let n = *self.rng.pick(&pool);
                        if !names.contains(&n) {
                            names.push(n);
                        }
                    }
                    (sudo, 2, format!("pairs,{},{}", if add { "add" } else { "del" }, names.join("+")))
                }
                12 | 13 => {
                    let kind = *self.rng.pick(&["create", "remove", "update"]);
                    let pool = ["AAA/USD", "BBB/USD", "BTC/USD", "ETH/USD"];
                    let n = *self.rng.pick(&pool);
                    (sudo, 2, format!("markets,{kind},{n}:{}", self.rng.range(2, 9)))
                }
                0..=2 => {
                    let add = self.rng.chance(50);
                    let pool = ["i", "a0", "a2", "a3"];
                    let cand: Vec<&&str> = pool
                        .iter()
                        .filter(|x| adversarial || (self.view.relayers.iter().any(|r| r == **x) != add))
                        .collect();
                    let x = if cand.is_empty() { "a3" } else { **self.rng.pick(&cand) };
                    (self.view.ibcsudo.clone(), 2, format!("relayer,{},{x}", if add { "add" } else { "del" }))
                }
                3..=6 => {
                    let kind = *self.rng.pick(&["transfer", "rollup", "ics20", "initbridge", "lock", "unlock", "btransfer", "bsudo"]);
                    let (b, m) = match self.rng.below(10) {
                        0 => (0u128, 0u128),
                        1 if adversarial => (u128::MAX, 1),
                        2 if adversarial => (1, u128::MAX),
                        _ => (self.rng.range(0, 60) as u128, self.rng.range(0, 2000) as u128),
                    };
                    (sudo, 2, format!("fee,{kind},{b},{m}"))
                }
                _ => {
                    let add = self.rng.chance(50);
                    let pool = [NRIA, UTIA, XTOK];
                    let cand: Vec<&&str> = pool
                        .iter()
                        .filter(|x| adversarial || (self.view.feeassets.iter().any(|r| r == **x) != add))
                        .collect();
                    let x = if cand.is_empty() { XTOK } else { **self.rng.pick(&cand) };
                    (sudo, 2, format!("feeasset,{},{x}", if add { "add" } else { "del" }))
                }
            },
            3 => {
                if self.rng.chance(35) {
                    let s = *self.rng.pick(&["a4", "b0", "b1", "a3"]);
                    let sd = *self.rng.pick(&["-", "a0", "a3"]);
                    let wd = *self.rng.pick(&["-", "a1", "a3"]);
                    let asset = if adversarial { *self.rng.pick(&ASSETS) } else { NRIA };
                    (s.to_string(), 3, format!("initbridge,{},{asset},{fa},{sd},{wd}", self.rng.range(1, 2)))
                } else {
                    let b = self.bridge(adversarial);
                    let ns = *self.rng.pick(&["-", "a0", "a2", "a3"]);
                    let nw = *self.rng.pick(&["-", "a1", "a2", "a3"]);
                    (b.2.clone(), 3, format!("bsudo,{},{ns},{nw},{fa},{}", b.0, u8::from(self.rng.chance(25))))
                }
            }
            _ => match self.rng.below(100) {
                0..=29 => {
                    let amt = self.amount(adversarial);
                    (non_bridge_user, 4, format!("transfer,{to},{},{amt},{fa}", self.rng.pick(&ASSETS)))
                }
                30..=37 => (user, 4, format!("rollup,{},{fa}", self.rng.pick(&[1usize, 1, 3, 100, 1000, 0]))),
                38..=52 => {
                    let b = self.bridge(adversarial);
                    let amt = self.amount(adversarial);
                    let asset = if adversarial && self.rng.chance(30) { (*self.rng.pick(&ASSETS)).to_string() } else { b.1.clone() };
                    (non_bridge_user, 4, format!("lock,{},{asset},{amt},{fa},{}", b.0, self.rng.pick(&[0usize, 5, 20])))
                }
                53..=66 => {
                    let b = self.bridge(adversarial);
                    let amt = self.amount(adversarial);
                    let id = self.event_id(adversarial);
                    (b.3.clone(), 4, format!("unlock,{to},{},{amt},{fa},{id},{}", b.0, self.rng.range(1, 9)))
                }
                67..=74 => {
                    let b = self.bridge(adversarial);
                    let others: Vec<String> = self.view.bridges.iter().filter(|x| x.0 != b.0).map(|x| x.0.clone()).collect();
                    let other = if others.is_empty() { "b1".to_string() } else { self.rng.pick(&others).clone() };
                    let amt = self.amount(adversarial);
                    let id = self.event_id(adversarial);
                    (
                        b.3.clone(),
                        4,
                        format!("btransfer,{other},{},{amt},{fa},{id},{},{}", b.0, self.rng.range(1, 9), self.rng.pick(&[1usize, 7])),
                    )
                }
                75..=77 => {
                    let relayer = if self.view.relayers.is_empty() || (adversarial && self.rng.chance(30)) {
                        user.clone()
                    } else {
                        let i = self.rng.below(self.view.relayers.len() as u64) as usize;
                        self.view.relayers[i].clone()
                    };
                    (relayer, 4, "ibcbad".to_string())
                }
                78..=84 => {
                    let remove = self.rng.chance(35);
                    let pool = ["va", "vb", "vc", "v0", "v1", "v2"];
                    let cand: Vec<&&str> = pool
                        .iter()
                        .filter(|k| adversarial || !remove || self.view.vals.iter().any(|v| v == **k))
                        .collect();
                    let key = if cand.is_empty() { "va" } else { **self.rng.pick(&cand) };
                    let power = if remove { 0 } else { *self.rng.pick(&[1u32, 10, 25]) };
                    (sudo, 4, format!("val,{key},{power}"))
                }
                _ => {
                    let amt = self.amount(adversarial);
                    let from_bridge = self.rng.chance(35) && !self.view.bridges.is_empty();
                    let denom = *self.rng.pick(&ASSETS);
                    let ch = self.rng.below(2);
                    if adversarial && self.rng.chance(25) {
                        // a plain (non-bridge) account named as the bridge, signed by somebody else
                        let victim = *self.rng.pick(&["a0", "a1", "a2", "a3", "r0"]);
                        let id = self.event_id(false);
                        return (user, 4, format!("ics20,{amt},{denom},{ch},{fa},{victim},{id},1,{}", self.rng.pick(&USERS)));
                    }
                    if from_bridge {
                        let b = self.bridge(adversarial);
                        let id = self.event_id(adversarial);
                        (
                            b.3.clone(),
                            4,
                            format!("ics20,{amt},{},{ch},{fa},{},{id},{},{}", b.1, b.0, self.rng.range(1, 9), self.rng.pick(&USERS)),
                        )
                    } else {
                        (non_bridge_user.clone(), 4, format!("ics20,{amt},{denom},{ch},{fa},-,-,1,{non_bridge_user}"))
                    }
                }
            },
        }
    }

    /// Privileged actions whose arguments change nothing ("set it to what it is"), signed by an
    /// account that does not hold the privilege, where possible right after the real authority
    /// moved the value the other way: an early-return for no-ops placed before the signer check
    /// is invisible to value-based negative tests.
    fn noop_priv_ops(&mut self, ops: &mut Vec<String>) {
        let fa = self.fee_asset(false);
        let sudo = self.view.sudo.clone();
        let ibcsudo = self.view.ibcsudo.clone();
        let pick_other = |g: &mut Self, holders: &[&str]| -> String {
            let c: Vec<&&str> = SIGNERS.iter().filter(|x| !holders.contains(*x)).collect();
            (**g.rng.pick(&c)).to_string()
        };
        let nonce = |g: &Self, x: &str| *g.view.nonces.get(x).unwrap_or(&0);
        match self.rng.below(7) {
            0..=2 if !self.view.bridges.is_empty() => {
                let b = self.bridge(false);
                let w = pick_other(self, &[b.2.as_str()]);
                let disable_first = SIGNERS.contains(&b.2.as_str()) && self.rng.chance(60);
                if disable_first {
                    ops.push(format!("tx {} {} bsudo,{},-,-,{fa},1", b.2, nonce(self, &b.2), b.0));
                }
                ops.push(format!("tx {w} {} bsudo,{},-,-,{fa},0", nonce(self, &w), b.0));
                let u = pick_other(self, &[b.2.as_str(), w.as_str()]);
                let n = nonce(self, &u);
                ops.push(format!("tx {u} {n} lock,{},{},7,{fa},3", b.0, b.1));
            }
            3 => {
                let w = pick_other(self, &[sudo.as_str()]);
                ops.push(format!("tx {w} {} sudo,{sudo}", nonce(self, &w)));
            }
            4 => {
                let w = pick_other(self, &[sudo.as_str()]);
                ops.push(format!("tx {w} {} ibcsudo,{ibcsudo}", nonce(self, &w)));
            }
            5 => {
                let w = pick_other(self, &[sudo.as_str()]);
                let a = self.view.feeassets.first().cloned().unwrap_or_else(|| NRIA.to_string());
                let v = self.view.vals.first().cloned().unwrap_or_else(|| "va".to_string());
                let act = *self.rng.pick(&["feeasset", "val", "fee"]);
                let act = match act {
                    "feeasset" => format!("feeasset,add,{a}"),
                    "val" => format!("val,{v},10"),
                    _ => "fee,transfer,2,1002".to_string(),
                };
                ops.push(format!("tx {w} {} {act}", nonce(self, &w)));
            }
            _ => {
                let w = pick_other(self, &[ibcsudo.as_str()]);
                let x = self.view.relayers.first().cloned().unwrap_or_else(|| "i".to_string());
                ops.push(format!("tx {w} {} relayer,add,{x}", nonce(self, &w)));
            }
        }
    }

    fn tx_ops(&mut self, ops: &mut Vec<String>) {
        if self.rng.chance(4) {
            return self.noop_priv_ops(ops);
        }
        let adversarial = self.rng.chance(30);
        let (signer0, group, first) = self.action(None, adversarial);
        let n_actions = if group == 1 || group == 3 {
            if adversarial && self.rng.chance(10) { 2 } else { 1 }
        } else {
            match self.rng.below(10) {
                0..=5 => 1,
                6..=7 => 2,
                8 => 3,
                _ => 5,
            }
        };
        let mut acts = if first == "ibcbad" && self.rng.chance(70) {
            let amt = self.amount(false);
            vec![format!("transfer,{},nria,{amt},nria", self.rng.pick(&RECIPIENTS)), first]
        } else {
            vec![first]
        };
        for _ in 1..n_actions {
            let g = if adversarial && self.rng.chance(15) { None } else { Some(group) };
            acts.push(self.action(g, adversarial).2);
        }
        let signer: String = if adversarial && self.rng.chance(40) {
            (*self.rng.pick(&SIGNERS)).to_string()
        } else if SIGNERS.contains(&signer0.as_str()) {
            signer0
        } else {
            "a0".to_string()
        };
        let cur = *self.view.nonces.get(&signer).unwrap_or(&0);
        let nonce = if adversarial && self.rng.chance(25) {
            match self.rng.below(4) {
                0 => cur.saturating_sub(1),
                1 => cur + 1,
                2 => cur + 5,
                _ => 0,
            }
        } else {
            cur
        };
        let acts = acts.join(";");
        if self.rng.chance(20) {
            // construct now, execute later (after other operations changed the state)
            self.kept_no += 1;
            let id = format!("k{}", self.kept_no);
            ops.push(format!("ctor {id} {signer} {nonce} {acts}"));
            ops.push(format!("?exec {id}"));
        } else {
            ops.push(format!("tx {signer} {nonce} {acts}"));
        }
    }

    /// A withdrawal event id consumed between the construction and the execution of another
    /// carrier of the same id (the second one must fail at execution), any pair of carrier kinds.
    fn double_spend_ops(&mut self, ops: &mut Vec<String>) {
        if self.view.bridges.is_empty() {
            return;
        }
        let b = self.bridge(false);
        let wd = b.3.clone();
        if !SIGNERS.contains(&wd.as_str()) {
            return;
        }
        let others: Vec<String> = self.view.bridges.iter().filter(|x| x.0 != b.0 && x.1 == b.1).map(|x| x.0.clone()).collect();
        let id = self.event_id(false);
        let fa = self.fee_asset(false);
        let mut carrier = |g: &mut Self| -> String {
            let amt = g.amount(false);
            match g.rng.below(3) {
                0 => format!("unlock,{},{},{amt},{fa},{id},{}", g.rng.pick(&["a2", "a3", "r0"]), b.0, g.rng.range(1, 9)),
                1 if !others.is_empty() => {
                    format!("btransfer,{},{},{amt},{fa},{id},{},3", g.rng.pick(&others), b.0, g.rng.range(1, 9))
                }
                _ => format!("ics20,{amt},{},{},{fa},{},{id},{},a2", b.1, g.rng.below(2), b.0, g.rng.range(1, 9)),
            }
        };
        let first = carrier(self);
        let second = carrier(self);
        let n = *self.view.nonces.get(&wd).unwrap_or(&0);
        self.kept_no += 1;
        let k = format!("k{}", self.kept_no);
        ops.push(format!("ctor {k} {wd} {} {second}", n + 1));
        ops.push(format!("tx {wd} {n} {first}"));
        ops.push(format!("exec {k}"));
    }

    fn packet_op(&mut self) -> String {
        let adversarial = self.rng.chance(35);
        let ch = self.rng.below(2);
        let amt = if adversarial {
            match self.rng.below(6) {
                0 => u128::MAX,
                1 => 0,
                _ => self.rng.range(1, 900_000) as u128,
            }
        } else {
            self.rng.range(1, 20_000) as u128
        };
        let bridge_rcpt = self.rng.chance(40) && !self.view.bridges.is_empty();
        let b = self.bridge(false);
        let rcpt: String = if bridge_rcpt {
            b.0.clone()
        } else if adversarial && self.rng.chance(15) {
            "bad".to_string()
        } else {
            (*self.rng.pick(&RECIPIENTS)).to_string()
        };
        let memo = if bridge_rcpt {
            if adversarial { *self.rng.pick(&["dep", "depempty", "bad", "-"]) } else { "dep" }
        } else if adversarial {
            *self.rng.pick(&["-", "dep", "bad"])
        } else {
            "-"
        };
        match self.rng.below(10) {
            0..=5 => {
                // inbound: our own asset coming home (prefixed with the counterparty's
                // port/channel) or a foreign asset
                let src = 100 + ch;
                let denom = if bridge_rcpt && !adversarial {
                    // the bridge's own asset, coming home if it is sequencer-origin
                    if b.1.starts_with("transfer/channel-") {
                        b.1.splitn(3, '/').nth(2).unwrap().to_string()
                    } else {
                        format!("transfer/channel-{src}/{}", b.1)
                    }
                } else {
                    match self.rng.below(9) {
                        // a foreign voucher whose first hop's channel id merely has the
                        // counterparty channel's id as a string prefix: NOT ours coming home
                        7 => format!("transfer/channel-{src}1/nria"),
                        8 => format!("transfer/channel-{src}1/xtok"),
                        0 | 1 => format!("transfer/channel-{src}/nria"),
                        2 => format!("transfer/channel-{src}/xtok"),
                        3 | 4 => "utia".to_string(),
                        5 => "uosmo".to_string(),
                        _ => format!("transfer/channel-{src}/transfer/channel-{ch}/utia"),
                    }
                };
                format!("recv {ch} {src} {denom} {amt} {rcpt} {memo}")
            }
            k => {
                let denom = *self.rng.pick(&[NRIA, XTOK, UTIA, UOSMO, UATOM]);
                let from_rollup = self.rng.chance(30) && !self.view.bridges.is_empty();
                let (sender, memo, denom) = if from_rollup {
                    (b.0.clone(), "fromrollup", if adversarial { denom.to_string() } else { b.1.clone() })
                } else {
                    (rcpt, "-", denom.to_string())
                };
                if k <= 7 {
                    format!("timeout {ch} {denom} {amt} {sender} {memo}")
                } else {
                    format!("ack {} {ch} {denom} {amt} {sender} {memo}", self.rng.pick(&["ok", "err", "err"]))
                }
            }
        }
    }
}

#[test]
fn driver() {
    common::silence_panics();
    let rt = tokio::runtime::Builder::new_current_thread().enable_all().build().unwrap();
    let mut trace = Trace::from_env();
    let seed = Rng::from_env().0;
    rt.block_on(async {
        let mut world: Option<World> = None;
        if let Some(lines) = common::replay_lines() {
            for op in lines {
                let op = op.strip_prefix("ledger ").unwrap_or(&op).to_string();
                let res = run_op(&mut world, &op).await;
                trace.line(&format!("ledger {op} => {res}"));
            }
            return;
        }
        for op in common::corpus_lines() {
            let op = op.strip_prefix("ledger ").unwrap_or(&op).to_string();
            let res = run_op(&mut world, &op).await;
            trace.line(&format!("ledger {op} => {res}"));
        }
        let thorough = common::is_thorough();
        let sessions = if thorough { 60 } else { 12 };
        let blocks = if thorough { 40 } else { 16 };
        for s in 0..sessions {
            let variant = match s % 4 {
                2 => "legacy",
                3 => "upg",
                _ => "std",
            };
            run_generated(&mut world, &mut trace, seed.wrapping_add(s as u64 * 7919), variant, blocks).await;
        }
    });
    trace.finish();
}

/// Generates and executes one session. The generator is adaptive: it reads the chain state
/// back from the implementation's dump after every op so that most operations are
/// valid-by-construction; every decision derives from the seed and the replies, and the trace
/// records the concrete ops, so a trace replays exactly.
async fn run_generated(world: &mut Option<World>, trace: &mut Trace, seed: u64, variant: &str, blocks: usize) {
    let mut g = Gen {
        rng: Rng(seed),
        view: View::default(),
        event_no: 0,
        kept_no: 0,
        val_bias: false,
    };
    let mut pending_exec: Vec<(String, usize)> = Vec::new();
    let prologue = [
        format!("reset {variant}"),
        "begin".to_string(),
        "tx b0 0 initbridge,1,nria,nria,a0,a1".to_string(),
        "tx b1 0 initbridge,2,nria,nria,-,a1".to_string(),
        "tx a0 0 ics20,700000,nria,0,nria,-,-,1,a0;ics20,300000,xtok,1,nria,-,-,1,a0".to_string(),
        "tx a1 0 lock,b0,nria,250000,nria,5;lock,b1,nria,150000,transfer/channel-0/utia,0".to_string(),
        "end".to_string(),
    ];
    for op in prologue {
        let res = run_op(world, &op).await;
        g.view = view_of(res.split(" | ").nth(1).unwrap_or(""));
        trace.line(&format!("ledger {op} => {res}"));
    }
    for blk in 0..blocks {
        g.val_bias = variant == "upg" && blk < 7;
        let n = g.rng.range(1, 7);
        let mut i = 0;
        let mut queue: Vec<String> = vec!["begin".to_string()];
        loop {
            // generate lazily so that each op sees the state left by the previous one
            if queue.is_empty() {
                if i < n {
                    i += 1;
                    if g.rng.chance(22) {
                        queue.push(g.packet_op());
                    } else if g.rng.chance(6) {
                        g.double_spend_ops(&mut queue);
                    } else {
                        g.tx_ops(&mut queue);
                    }
                } else if i == n {
                    i += 1;
                    queue.push("end".to_string());
                } else {
                    break;
                }
            }
            let op = queue.remove(0);
            if let Some(rest) = op.strip_prefix("?exec ") {
                pending_exec.push((rest.to_string(), g.rng.range(1, 3) as usize));
                continue;
            }
            let res = run_op(world, &op).await;
            g.view = view_of(res.split(" | ").nth(1).unwrap_or(""));
            trace.line(&format!("ledger {op} => {res}"));
            let mut still = Vec::new();
            for (id, left) in pending_exec.drain(..) {
                if (left == 0 && op != "end") || queue.first().map(String::as_str) == Some("end") {
                    let eop = format!("exec {id}");
                    let res = run_op(world, &eop).await;
                    g.view = view_of(res.split(" | ").nth(1).unwrap_or(""));
                    trace.line(&format!("ledger {eop} => {res}"));
                } else {
                    still.push((id, left.saturating_sub(1)));
                }
            }
            pending_exec = still;
        }
    }
}
