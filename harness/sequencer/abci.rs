// In-crate verification harness for area `abci` (properties C05, C06).
//
// Hooked into /repo as `app::verif_abci` (child of `crate::app`, feature `verif-abci`), so it sees
// `App`'s private fields and methods, `app::execution_state`, and the crate's test utilities.
//
// One line per operation: `abci <op> <args…> => <result>` (see /verif/docs/SLICE_GUIDE.md).
// The phases executed by each ABCI call are observed without touching /repo through a
// thread-local `tracing` subscriber that records the spans the code's own `#[instrument]`
// attributes create (pre_execute_transactions, execute_transaction, …) and the `err` events of
// `App::execute_transaction`.
#![allow(clippy::pedantic, clippy::all, dead_code, unused_imports, unused_variables)]

#[path = "/verif/harness/common.rs"]
mod common;

use std::{
    collections::{
        BTreeMap,
        HashMap,
    },
    sync::{
        atomic::{
            AtomicU64,
            Ordering as AtomicOrdering,
        },
        Arc,
        Mutex,
    },
};

use astria_core::{
    crypto::SigningKey,
    generated::{
        astria::protocol::transaction::v1 as raw_tx,
        price_feed::abci::v2::OracleVoteExtension as RawOracleVoteExtension,
    },
    oracles::price_feed::types::v2::CurrencyPair,
    primitive::v1::{
        Address,
        RollupId,
    },
    protocol::{
        fees::v1::FeeComponents,
        transaction::v1::{
            action::{
                BridgeLock,
                CurrencyPairsChange,
                FeeAssetChange,
                FeeChange,
                IbcRelayerChange,
                InitBridgeAccount,
                RollupDataSubmission,
                SudoAddressChange,
                Transfer,
                ValidatorUpdate,
            },
            Action,
            TransactionBody,
        },
    },
    sequencerblock::v1::block::Deposit,
    upgrades::{
        test_utils::UpgradesBuilder,
        v1::Change,
    },
    Protobuf as _,
};
use cnidarium::StateRead as _;
use futures::TryStreamExt as _;
use sha2::{
    Digest as _,
    Sha256,
};
use tendermint::{
    abci::types::{
        BlockSignatureInfo,
        CommitInfo,
        ExtendedCommitInfo,
        ExtendedVoteInfo,
        Validator,
        VoteInfo,
    },
    block::{
        BlockIdFlag,
        Height,
        Round,
    },
};
use tendermint_proto::types::CanonicalVoteExtension;

use self::common::{
    hex,
    Rng,
    Trace,
};
use super::*;
use crate::{
    accounts::{
        AddressBytes as _,
        StateReadExt as _,
    },
    checked_transaction::CheckedTransaction,
    mempool::Mempool,
    proposal::commitment::generate_rollup_datas_commitment,
    test_utils::{
        astria_address,
        dummy_balances,
        dummy_tx_costs,
        nria,
        Fixture,
        ALICE,
        BOB,
        CAROL,
        IBC_SUDO,
        SUDO,
        TEN_QUINTILLION,
    },
};

// ------------------------------------------------------------------------------------------
// span recorder
// ------------------------------------------------------------------------------------------

#[derive(Clone, Debug)]
enum Ev {
    Span(&'static str, &'static str),
    ExecErr(String),
}

#[derive(Default)]
struct RecInner {
    log: Mutex<Vec<Ev>>,
    names: Mutex<HashMap<u64, &'static str>>,
    stack: Mutex<Vec<u64>>,
    next: AtomicU64,
}

#[derive(Clone, Default)]
struct Rec(Arc<RecInner>);

impl Rec {
    fn take(&self) -> Vec<Ev> {
        std::mem::take(&mut *self.0.log.lock().unwrap())
    }
}

struct ErrVisitor(Option<String>);

impl tracing::field::Visit for ErrVisitor {
    fn record_debug(&mut self, field: &tracing::field::Field, value: &dyn std::fmt::Debug) {
        if field.name() == "error" {
            self.0 = Some(format!("{value:?}"));
        }
    }
}

impl tracing::Subscriber for Rec {
    fn enabled(&self, metadata: &tracing::Metadata<'_>) -> bool {
        metadata.target().starts_with("astria_sequencer")
    }

    fn new_span(&self, attrs: &tracing::span::Attributes<'_>) -> tracing::span::Id {
        let id = self.0.next.fetch_add(1, AtomicOrdering::SeqCst) + 1;
        let name = attrs.metadata().name();
        self.0.names.lock().unwrap().insert(id, name);
        self.0
            .log
            .lock()
            .unwrap()
            .push(Ev::Span(name, attrs.metadata().target()));
        tracing::span::Id::from_u64(id)
    }

    fn record(&self, _span: &tracing::span::Id, _values: &tracing::span::Record<'_>) {}

    fn record_follows_from(&self, _span: &tracing::span::Id, _follows: &tracing::span::Id) {}

    fn event(&self, event: &tracing::Event<'_>) {
        let top = self.0.stack.lock().unwrap().last().copied();
        let Some(top) = top else { return };
        let name = self.0.names.lock().unwrap().get(&top).copied();
        if name == Some("App::execute_transaction") {
            let mut v = ErrVisitor(None);
            event.record(&mut v);
            if let Some(msg) = v.0 {
                self.0.log.lock().unwrap().push(Ev::ExecErr(msg));
            }
        }
    }

    fn enter(&self, span: &tracing::span::Id) {
        self.0.stack.lock().unwrap().push(span.into_u64());
    }

    fn exit(&self, span: &tracing::span::Id) {
        let mut st = self.0.stack.lock().unwrap();
        if let Some(pos) = st.iter().rposition(|x| *x == span.into_u64()) {
            st.remove(pos);
        }
    }

    fn try_close(&self, id: tracing::span::Id) -> bool {
        self.0.names.lock().unwrap().remove(&id.into_u64());
        true
    }
}

/// Phase letters of one ABCI call, in order of span creation:
/// `P` pre_execute_transactions, `C` construction of checked txs (collapsed), `O` post_execute_transactions, `$` price application (consecutive puts
/// collapsed), `M` prepare_commit.
fn phases(log: &[Ev]) -> String {
    let mut s = String::new();
    for ev in log {
        if let Ev::Span(name, target) = ev {
            let c = match *name {
                "App::pre_execute_transactions" => 'P',
                "App::post_execute_transactions" => 'O',
                "prepare_commit" => 'M',
                "put_price_for_currency_pair" => '$',
                "new" if target.ends_with("checked_transaction") => 'C',
                _ => continue,
            };
            if (c == '$' || c == 'C') && s.ends_with(c) {
                continue;
            }
            s.push(c);
        }
    }
    if s.is_empty() {
        s.push('-');
    }
    s
}

/// Per executed transaction (in order of `execute_transaction` spans): `k` ok, `n` non-fatal
/// failure, `i` invalid nonce, `f` other (fatal) failure.
fn exec_outcomes(log: &[Ev]) -> Vec<char> {
    let mut out = Vec::new();
    for ev in log {
        match ev {
            Ev::Span(name, _) if *name == "App::execute_transaction" => out.push('k'),
            Ev::ExecErr(msg) => {
                if let Some(last) = out.last_mut() {
                    *last = if msg.starts_with("invalid transaction nonce") {
                        'i'
                    } else if msg.contains("(non-fatal)") {
                        'n'
                    } else {
                        'f'
                    };
                }
            }
            _ => {}
        }
    }
    out
}

/// Per `proposal_checks_and_tx_execution` span: `s` if no execution followed (size or group
/// skip, or break), else the execution outcome letter.
fn check_outcomes(log: &[Ev]) -> Vec<char> {
    let mut out: Vec<char> = Vec::new();
    let mut in_chk = false;
    for ev in log {
        match ev {
            Ev::Span(name, _) if *name == "proposal_checks_and_tx_execution" => {
                out.push('s');
                in_chk = true;
            }
            Ev::Span(name, _) if *name == "App::execute_transaction" && in_chk => {
                if let Some(last) = out.last_mut() {
                    *last = 'k';
                }
            }
            Ev::ExecErr(msg) if in_chk => {
                if let Some(last) = out.last_mut() {
                    *last = if msg.starts_with("invalid transaction nonce") {
                        'i'
                    } else if msg.contains("(non-fatal)") {
                        'n'
                    } else {
                        'f'
                    };
                }
            }
            _ => {}
        }
    }
    out
}

// ------------------------------------------------------------------------------------------
// error kinds
// ------------------------------------------------------------------------------------------

fn err_kind(e: &astria_eyre::eyre::Report) -> &'static str {
    let s = format!("{e:#}");
    if std::env::var("VERIF_DEBUG").is_ok() {
        eprintln!("VERIF_DEBUG error: {s}");
    }
    const PATTERNS: &[(&str, &str)] = &[
        ("block hash is empty", "nohash"),
        ("failed to parse data items", "parse"),
        ("failed to validate extended commit info", "ve"),
        ("last commit is empty", "nolastcommit"),
        ("failed to prepare for executing block", "pre"),
        ("failed to execute block", "pre"),
        ("do not match expected (", "upgrade"),
        ("failed to construct checked transactions in process proposal", "construct"),
        ("failed to execute transactions in finalize block", "construct"),
        ("max block sequenced data limit passed", "seqlimit"),
        ("transactions have incorrect transaction group ordering", "group"),
        ("transaction failed to execute", "exec"),
        ("rollup transactions commitment does not match expected", "root1"),
        ("rollup IDs commitment does not match expected", "root2"),
        ("failed to run post execute transactions handler", "post"),
        ("failed to apply prices from vote extensions", "prices"),
        ("executed txs must be present in ephemeral store", "nocache"),
        ("prepared proposal fingerprint was not validated", "fingerprint"),
        ("failed to create block size constraints", "constraints"),
        ("exceeded size limit while adding", "injected"),
        ("failed to set executed proposal fingerprint", "fingerprint"),
        ("failed to prepare commit", "commit"),
    ];
    let mut best: Option<(usize, &'static str)> = None;
    for (pat, kind) in PATTERNS {
        if let Some(pos) = s.find(pat) {
            if best.map_or(true, |(p, _)| pos < p) {
                best = Some((pos, kind));
            }
        }
    }
    best.map_or("other", |(_, k)| k)
}

// ------------------------------------------------------------------------------------------
// world
// ------------------------------------------------------------------------------------------

struct Inst {
    app: App,
    storage: Storage,
}

#[derive(Clone, Debug, PartialEq)]
enum ItemKind {
    R1,
    R2,
    Upg,
    Eci,
    Tx(u32),
    Garbage,
}

#[derive(Clone)]
struct TxEnt {
    tx: Option<Arc<CheckedTransaction>>,
    bytes: Bytes,
    len: usize,
    seq: usize,
    group: u8,
    spec: String,
    signer: String,
    nonce: u32,
}

#[derive(Clone)]
struct Blk {
    height: u64,
    time_s: i64,
    proposer: u8,
    round: u16,
    ve: String,
    items: Vec<(Bytes, ItemKind)>,
    deposits: HashMap<RollupId, Vec<Deposit>>,
    salt: u32,
    honest: bool,
    mutation: String,
    prices: usize,
    by: usize,
}

struct World {
    insts: Vec<Inst>,
    txs: BTreeMap<u32, TxEnt>,
    blks: BTreeMap<u32, Blk>,
    txs_lists: Vec<Vec<Bytes>>,
    byte_ids: Vec<Bytes>,
    rec: Rec,
    trace: Trace,
    dave: SigningKey,
    blackburn: u64,
}

fn key_of(w: &World, name: &str) -> SigningKey {
    match name {
        "alice" => ALICE.clone(),
        "bob" => BOB.clone(),
        "carol" => CAROL.clone(),
        "dave" => w.dave.clone(),
        "sudo" => SUDO.clone(),
        "ibcsudo" => IBC_SUDO.clone(),
        other => panic!("unknown signer {other}"),
    }
}

fn dave_key() -> SigningKey {
    SigningKey::try_from([0xd7_u8; 32].as_slice()).unwrap()
}

fn erin_key() -> SigningKey {
    SigningKey::try_from([0xe1_u8; 32].as_slice()).unwrap()
}

fn addr_of(w: &World, name: &str) -> Address {
    if name == "erin" {
        return astria_address(&erin_key().address_bytes());
    }
    astria_address(&key_of(w, name).address_bytes())
}

fn upgrades_with(blackburn: u64) -> astria_core::upgrades::v1::Upgrades {
    UpgradesBuilder::new()
        .set_aspen(Some(1))
        .set_blackburn(Some(blackburn))
        .build()
}

/// A fresh node: genesis, then blocks 1..=4 through `FinalizeBlock; Commit` (Aspen activates at
/// height 1, Blackburn at `blackburn`; 3 is the crate's test default).
async fn new_inst(dave: &SigningKey, blackburn: u64) -> Inst {
    let mut fixture = Fixture::uninitialized(Some(upgrades_with(blackburn))).await;
    let accounts = vec![
        (astria_address(&ALICE.address_bytes()), TEN_QUINTILLION),
        (astria_address(&BOB.address_bytes()), TEN_QUINTILLION),
        (astria_address(&CAROL.address_bytes()), TEN_QUINTILLION),
        (astria_address(&dave.address_bytes()), TEN_QUINTILLION),
        (astria_address(&SUDO.address_bytes()), TEN_QUINTILLION),
        (astria_address(&IBC_SUDO.address_bytes()), TEN_QUINTILLION),
    ];
    fixture
        .chain_initializer()
        .with_genesis_accounts(accounts)
        .init()
        .await;
    let (mut app, storage) = fixture.destructure();
    let upgrades = upgrades_with(blackburn);
    for height in 1..=4_u64 {
        let mut txs: Vec<Bytes> = generate_rollup_datas_commitment::<true>(&[], HashMap::new())
            .into_iter()
            .collect();
        let hashes: Option<Vec<ChangeHash>> = if height == 1 {
            upgrades.aspen().map(|u| u.changes().map(Change::calculate_hash).collect())
        } else if height == blackburn {
            upgrades.blackburn().map(|u| u.changes().map(Change::calculate_hash).collect())
        } else {
            None
        };
        if let Some(h) = hashes {
            txs.push(DataItem::UpgradeChangeHashes(h).encode());
        }
        if height > 2 {
            txs.push(crate::test_utils::dummy_extended_commit_info().encode());
        }
        let req = abci::request::FinalizeBlock {
            hash: Hash::Sha256(Sha256::digest(height.to_le_bytes()).into()),
            height: Height::try_from(height).unwrap(),
            time: Time::from_unix_timestamp(1_744_036_762 + height as i64, 123_456_789).unwrap(),
            next_validators_hash: Hash::default(),
            proposer_address: account::Id::new(ALICE.address_bytes()),
            txs,
            decided_last_commit: CommitInfo {
                votes: vec![],
                round: Round::default(),
            },
            misbehavior: vec![],
        };
        app.finalize_block(req, storage.clone()).await.unwrap();
        app.commit(storage.clone()).await.unwrap();
    }
    Inst {
        app,
        storage,
    }
}

async fn restart(inst: &mut Inst, blackburn: u64) {
    let metrics = inst.app.metrics;
    let mempool = Mempool::new(metrics, 100, 100);
    let upgrades_handler = upgrades_with(blackburn).into();
    let ve_handler = vote_extension::Handler::new(None);
    inst.app = App::new(
        inst.storage.latest_snapshot(),
        mempool,
        upgrades_handler,
        ve_handler,
        metrics,
    )
    .await
    .unwrap();
}

async fn committed_height(inst: &Inst) -> u64 {
    inst.storage
        .latest_snapshot()
        .get_block_height()
        .await
        .unwrap_or(0)
}

fn h8(bytes: &[u8]) -> String {
    hex(&bytes[..bytes.len().min(4)])
}

fn h16(bytes: &[u8]) -> String {
    hex(&bytes[..bytes.len().min(8)])
}

async fn state_digest(storage: &Storage) -> String {
    let snap = storage.latest_snapshot();
    let mut hv = Sha256::new();
    let mut nv = 0_u64;
    let mut stream = snap.prefix_raw("");
    while let Some((k, v)) = stream.try_next().await.unwrap() {
        hv.update((k.len() as u64).to_le_bytes());
        hv.update(k.as_bytes());
        hv.update((v.len() as u64).to_le_bytes());
        hv.update(&v);
        nv += 1;
    }
    let mut hn = Sha256::new();
    let mut nn = 0_u64;
    let mut stream = snap.nonverifiable_prefix_raw(b"");
    while let Some((k, v)) = stream.try_next().await.unwrap() {
        hn.update((k.len() as u64).to_le_bytes());
        hn.update(&k);
        hn.update((v.len() as u64).to_le_bytes());
        hn.update(&v);
        nn += 1;
    }
    format!(
        "sv={}:{} snv={}:{}",
        nv,
        h16(&hv.finalize()),
        nn,
        h16(&hn.finalize())
    )
}

// ------------------------------------------------------------------------------------------
// op argument parsing
// ------------------------------------------------------------------------------------------

fn args(op: &str) -> HashMap<String, String> {
    let mut m = HashMap::new();
    for w in op.split(' ').skip(2) {
        if let Some((k, v)) = w.split_once('=') {
            m.insert(k.to_string(), v.to_string());
        }
    }
    m
}

fn arg_u64(a: &HashMap<String, String>, k: &str) -> u64 {
    a.get(k)
        .and_then(|s| s.parse::<u64>().ok())
        .unwrap_or_else(|| panic!("missing numeric arg {k}"))
}

fn arg_id(a: &HashMap<String, String>, k: &str) -> u32 {
    let s = a.get(k).unwrap_or_else(|| panic!("missing arg {k}"));
    s.trim_start_matches(|c: char| c.is_ascii_alphabetic())
        .parse::<u32>()
        .unwrap_or_else(|_| panic!("bad id arg {k}={s}"))
}

// ------------------------------------------------------------------------------------------
// actions / transactions
// ------------------------------------------------------------------------------------------

fn parse_action(w: &World, spec: &str) -> Action {
    let p: Vec<&str> = spec.split('.').collect();
    match p[0] {
        "xfer" => Action::Transfer(Transfer {
            to: addr_of(w, p[1]),
            amount: p[2].parse::<u128>().unwrap(),
            asset: nria().into(),
            fee_asset: nria().into(),
        }),
        "seq" => {
            let rid: u8 = p[1].parse().unwrap();
            let len: usize = p[2].parse().unwrap();
            let data: Vec<u8> = (0..len)
                .map(|i| (i as u8).wrapping_mul(31).wrapping_add(rid))
                .collect();
            Action::RollupDataSubmission(RollupDataSubmission {
                rollup_id: RollupId::new([rid; 32]),
                data: Bytes::from(data),
                fee_asset: nria().into(),
            })
        }
        "valup" => {
            let key = if p[1] == "erin" {
                erin_key()
            } else {
                key_of(w, p[1])
            };
            Action::ValidatorUpdate(ValidatorUpdate {
                power: p[2].parse().unwrap(),
                verification_key: key.verification_key(),
                name: p[1].parse().unwrap(),
            })
        }
        "initbridge" => {
            let rid: u8 = p[1].parse().unwrap();
            Action::InitBridgeAccount(InitBridgeAccount {
                rollup_id: RollupId::new([rid; 32]),
                asset: nria().into(),
                fee_asset: nria().into(),
                sudo_address: None,
                withdrawer_address: None,
            })
        }
        "lock" => Action::BridgeLock(BridgeLock {
            to: addr_of(w, p[1]),
            amount: p[2].parse().unwrap(),
            asset: nria().into(),
            fee_asset: nria().into(),
            destination_chain_address: "dest".to_string(),
        }),
        "relayer" => {
            let a = addr_of(w, p[2]);
            Action::IbcRelayerChange(if p[1] == "add" {
                IbcRelayerChange::Addition(a)
            } else {
                IbcRelayerChange::Removal(a)
            })
        }
        "pair" => {
            let pair: CurrencyPair = format!("{}/USD", p[2]).parse().unwrap();
            let set = std::iter::once(pair).collect();
            Action::CurrencyPairsChange(if p[1] == "add" {
                CurrencyPairsChange::Addition(set)
            } else {
                CurrencyPairsChange::Removal(set)
            })
        }
        "feechg" => Action::FeeChange(FeeChange::Transfer(FeeComponents::new(
            p[1].parse().unwrap(),
            0,
        ))),
        "feeasset" => {
            let d = p[2].parse().unwrap();
            Action::FeeAssetChange(if p[1] == "add" {
                FeeAssetChange::Addition(d)
            } else {
                FeeAssetChange::Removal(d)
            })
        }
        "sudo" => Action::SudoAddressChange(SudoAddressChange {
            new_address: addr_of(w, p[1]),
        }),
        "badibc" => Action::Ibc(super::tests_app::bad_ibc_relay()),
        other => panic!("unknown action spec {other}"),
    }
}

fn sign_tx(w: &World, signer: &str, nonce: u32, acts: &str) -> Option<Bytes> {
    let actions: Vec<Action> = acts.split('+').map(|s| parse_action(w, s)).collect();
    let body = TransactionBody::builder()
        .nonce(nonce)
        .chain_id("test".to_string())
        .actions(actions)
        .try_build()
        .ok()?;
    let tx = body.sign(&key_of(w, signer));
    Some(Bytes::from(tx.into_raw().encode_to_vec()))
}

fn group_num(g: Group) -> u8 {
    match g {
        Group::UnbundleableSudo => 1,
        Group::BundleableSudo => 2,
        Group::UnbundleableGeneral => 3,
        Group::BundleableGeneral => 4,
    }
}

// ------------------------------------------------------------------------------------------
// vote extensions
// ------------------------------------------------------------------------------------------

/// `none` | `<round>/<a>/<b>/<c>` with each validator spec `-` (absent), `bad` (commit flag,
/// prices 1:1, invalid signature) or `<p0>:<p1>` prices for pair ids 0 and 1 (`_` = no price).
fn build_ve(ve: &str, height: u64) -> (ExtendedCommitInfo, CommitInfo, usize) {
    if ve == "none" {
        return (
            ExtendedCommitInfo {
                round: Round::default(),
                votes: vec![],
            },
            CommitInfo {
                round: Round::default(),
                votes: vec![],
            },
            0,
        );
    }
    let parts: Vec<&str> = ve.split('/').collect();
    let round: u16 = parts[0].parse().unwrap();
    let keys = [ALICE.clone(), BOB.clone(), CAROL.clone()];
    let mut votes = vec![];
    let mut plain = vec![];
    let mut priced = [false, false];
    let mut committed = 0;
    for (i, key) in keys.iter().enumerate() {
        let spec = parts.get(i + 1).copied().unwrap_or("-");
        let validator = Validator {
            address: key.address_bytes(),
            power: 10_u32.into(),
        };
        if spec == "-" {
            votes.push(ExtendedVoteInfo {
                validator: validator.clone(),
                sig_info: BlockSignatureInfo::Flag(BlockIdFlag::Absent),
                vote_extension: Bytes::new(),
                extension_signature: None,
            });
            plain.push(VoteInfo {
                validator,
                sig_info: BlockSignatureInfo::Flag(BlockIdFlag::Absent),
            });
            continue;
        }
        let bad = spec == "bad";
        let pr: Vec<&str> = if bad {
            vec!["1", "1"]
        } else {
            spec.split(':').collect()
        };
        let mut prices = BTreeMap::new();
        for (id, p) in pr.iter().enumerate() {
            if *p != "_" {
                let v: i128 = p.parse().unwrap();
                prices.insert(id as u64, Bytes::from(v.to_be_bytes().to_vec()));
                if id < 2 {
                    priced[id] = true;
                }
            }
        }
        let extension_bytes = RawOracleVoteExtension {
            prices,
        }
        .encode_to_vec();
        let message = CanonicalVoteExtension {
            extension: extension_bytes.clone(),
            height: i64::try_from(height.saturating_sub(1)).unwrap(),
            round: i64::from(round),
            chain_id: "test".to_string(),
        }
        .encode_length_delimited_to_vec();
        let mut sig = key.sign(&message).to_bytes().to_vec();
        if bad {
            sig[3] ^= 0x40;
        }
        committed += 1;
        votes.push(ExtendedVoteInfo {
            validator: validator.clone(),
            sig_info: BlockSignatureInfo::Flag(BlockIdFlag::Commit),
            vote_extension: extension_bytes.into(),
            extension_signature: Some(sig.try_into().unwrap()),
        });
        plain.push(VoteInfo {
            validator,
            sig_info: BlockSignatureInfo::Flag(BlockIdFlag::Commit),
        });
    }
    let nprices = if committed >= 3 || committed * 3 > 2 * 3 {
        priced.iter().filter(|b| **b).count()
    } else {
        0
    };
    (
        ExtendedCommitInfo {
            round: round.into(),
            votes,
        },
        CommitInfo {
            round: round.into(),
            votes: plain,
        },
        nprices,
    )
}

// ------------------------------------------------------------------------------------------
// blocks

/// identity of the `CommitInfo` a vote-extension spec projects to (what the fingerprint stores):
/// the round and, per validator, whether it committed (`c`) or was absent (`a`)
fn lc_key(ve: &str) -> String {
    if ve == "none" {
        return "0:none".to_string();
    }
    let parts: Vec<&str> = ve.split('/').collect();
    let mut s = format!("{}:", parts[0]);
    for i in 0..3 {
        s.push(if parts.get(i + 1).copied().unwrap_or("-") == "-" { 'a' } else { 'c' });
    }
    s
}


/// which `DataItem` variant (if any) these bytes decode to: `U` upgrade change hashes, `E` extended
/// commit info, `1` / `2` the roots
fn raw_item_kind(item: &Bytes) -> Option<char> {
    use astria_core::generated::astria::sequencerblock::v1::{
        data_item::Value,
        DataItem as RawDataItem,
    };
    let raw = RawDataItem::decode(item.clone()).ok()?;
    match raw.value? {
        Value::RollupTransactionsRoot(_) => Some('1'),
        Value::RollupIdsRoot(_) => Some('2'),
        Value::UpgradeChangeHashes(_) => Some('U'),
        Value::ExtendedCommitInfo(_) => Some('E'),
    }
}

/// does the extended-commit-info data item decode the way `ExpandedBlockData::new_from_typed_data`
/// needs it to?
fn eci_well_formed(item: &Bytes) -> bool {
    use astria_core::generated::astria::{
        protocol::price_feed::v1::ExtendedCommitInfoWithCurrencyPairMapping as RawEci,
        sequencerblock::v1::{
            data_item::Value,
            DataItem as RawDataItem,
        },
    };
    let Ok(raw) = RawDataItem::decode(item.clone()) else {
        return false;
    };
    let Some(Value::ExtendedCommitInfo(bytes)) = raw.value else {
        return false;
    };
    let Ok(raw) = RawEci::decode(bytes) else {
        return false;
    };
    ExtendedCommitInfoWithCurrencyPairMapping::try_from_raw(raw).is_ok()
}

/// number of prices `apply_prices_from_vote_extensions` will put for this item
fn eci_price_count(item: &Bytes) -> usize {
    use astria_core::generated::astria::{
        protocol::price_feed::v1::ExtendedCommitInfoWithCurrencyPairMapping as RawEci,
        sequencerblock::v1::{
            data_item::Value,
            DataItem as RawDataItem,
        },
    };
    let Ok(raw) = RawDataItem::decode(item.clone()) else {
        return 0;
    };
    let Some(Value::ExtendedCommitInfo(bytes)) = raw.value else {
        return 0;
    };
    let Ok(raw) = RawEci::decode(bytes) else {
        return 0;
    };
    let Ok(info) = ExtendedCommitInfoWithCurrencyPairMapping::try_from_raw(raw) else {
        return 0;
    };
    astria_core::oracles::price_feed::utils::calculate_prices_from_vote_extensions(
        &info.extended_commit_info,
        &info.id_to_currency_pair,
    )
    .map_or(0, |p| p.len())
}
// ------------------------------------------------------------------------------------------

fn shape_of(b: &Blk) -> String {
    let mut shape = vec![];
    for (bytes, kind) in &b.items {
        shape.push(match kind {
            ItemKind::R1 => "R1".to_string(),
            ItemKind::R2 => "R2".to_string(),
            ItemKind::Upg => format!("U:{}", bytes.len()),
            ItemKind::Eci => format!("E:{}", bytes.len()),
            ItemKind::Tx(t) => format!("T{t}"),
            ItemKind::Garbage => format!("G:{}", bytes.len()),
        });
    }
    if shape.is_empty() {
        "-".to_string()
    } else {
        shape.join(",")
    }
}

fn blk_txs(b: &Blk) -> Vec<Bytes> {
    b.items.iter().map(|(bytes, _)| bytes.clone()).collect()
}

fn blk_hash(b: &Blk) -> [u8; 32] {
    let mut h = Sha256::new();
    h.update(b.height.to_le_bytes());
    h.update(b.time_s.to_le_bytes());
    h.update([b.proposer]);
    h.update(b.round.to_le_bytes());
    h.update(b.ve.as_bytes());
    h.update(b.salt.to_le_bytes());
    for (bytes, _) in &b.items {
        h.update((bytes.len() as u64).to_le_bytes());
        h.update(bytes);
    }
    h.finalize().into()
}

fn time_of(b: &Blk) -> Time {
    Time::from_unix_timestamp(b.time_s, 0).unwrap()
}

fn proposer_of(b: &Blk) -> account::Id {
    account::Id::new([b.proposer; 20])
}

impl World {
    fn txs_list_id(&mut self, txs: &[Bytes]) -> usize {
        if let Some(pos) = self.txs_lists.iter().position(|l| l.as_slice() == txs) {
            return pos;
        }
        self.txs_lists.push(txs.to_vec());
        self.txs_lists.len() - 1
    }

    fn byte_id(&mut self, bytes: &Bytes) -> usize {
        if let Some(pos) = self.byte_ids.iter().position(|b| b == bytes) {
            return pos;
        }
        self.byte_ids.push(bytes.clone());
        self.byte_ids.len() - 1
    }

    /// `h=.. t=.. p=.. lc=.. x=<txs list id> hash=.. er=.. np=.. src=.. shape=.. items=..` —
    /// everything the model needs to know about a block: the seven fingerprint fields (height,
    /// time, proposer, last commit (`round:ve`), misbehavior (always empty), next validators hash
    /// (always default), txs as the id of the byte-string list), the block hash, and every data
    /// item as `<kind>#<id of its byte string>`; `er` are the ids of the two commitment items
    /// recomputed by the harness over the transactions the block carries.
    fn blk_desc(&mut self, id: u32) -> String {
        let b = self.blks[&id].clone();
        let xs = self.txs_list_id(&blk_txs(&b));
        let mut items = vec![];
        let mut shape = vec![];
        for (bytes, kind) in &b.items {
            let bid = self.byte_id(bytes);
            match kind {
                ItemKind::R1 => {
                    items.push(format!("R1#{bid}"));
                    shape.push("R1".to_string());
                }
                ItemKind::R2 => {
                    items.push(format!("R2#{bid}"));
                    shape.push("R2".to_string());
                }
                ItemKind::Upg => {
                    items.push(format!("U#{bid}:{}", bytes.len()));
                    shape.push(format!("U:{}", bytes.len()));
                }
                ItemKind::Eci => {
                    items.push(format!("E#{bid}:{}:{}", bytes.len(), u8::from(eci_well_formed(bytes))));
                    shape.push(format!("E:{}", bytes.len()));
                }
                ItemKind::Tx(t) => {
                    items.push(format!("T{t}"));
                    shape.push(format!("T{t}"));
                }
                ItemKind::Garbage => {
                    items.push(format!("G#{bid}:{}", bytes.len()));
                    shape.push(format!("G:{}", bytes.len()));
                }
            }
        }
        // expected commitments over the transactions the block carries (recomputed here)
        let mut checked = vec![];
        for (_, kind) in &b.items {
            if let ItemKind::Tx(t) = kind {
                if let Some(tx) = &self.txs[t].tx {
                    checked.push(tx.clone());
                }
            }
        }
        let exp = generate_rollup_datas_commitment::<true>(&checked, b.deposits.clone());
        let mut exp_items = exp.into_iter();
        let e1 = exp_items.next().unwrap();
        let e2 = exp_items.next().unwrap();
        let e1 = self.byte_id(&e1);
        let e2 = self.byte_id(&e2);
        format!(
            "h={} t={} p={} lc={} x={} hash={} er={},{} np={} src={} by={} items={}",
            b.height,
            b.time_s,
            b.proposer,
            lc_key(&b.ve),
            xs,
            h8(&blk_hash(&b)),
            e1,
            e2,
            b.prices,
            b.mutation,
            b.by,
            if items.is_empty() { "-".to_string() } else { items.join(",") },
        )
    }

    /// canonical text of the execution state; the cached proposal is identified by its
    /// seven-field tuple, found by comparing (with the code's own `PartialEq`) against the
    /// fingerprint each known block would produce.
    fn exec_dump(&mut self, i: usize) -> String {
        let st = self.insts[i].app.execution_state.data().clone();
        match st {
            ExecutionState::Unset => "Unset".to_string(),
            ExecutionState::Prepared(c) => format!("Prepared:{}", self.cp_label(&ExecutionState::Prepared(c))),
            ExecutionState::PreparedValid(c) => {
                format!("PreparedValid:{}", self.cp_label(&ExecutionState::Prepared(c)))
            }
            ExecutionState::CheckedPreparedMismatch(c) => {
                format!("CheckedPreparedMismatch:{}", self.cp_label(&ExecutionState::Prepared(c)))
            }
            ExecutionState::ExecutedBlock {
                cached_block_hash,
                cached_proposal,
            } => format!(
                "ExecutedBlock:{}:{}",
                h8(&cached_block_hash),
                cached_proposal.map_or("none".to_string(), |c| self.cp_label(&ExecutionState::Prepared(c)))
            ),
            ExecutionState::CheckedExecutedBlockMismatch {
                cached_block_hash,
                cached_proposal,
            } => format!(
                "CheckedExecutedBlockMismatch:{}:{}",
                h8(&cached_block_hash),
                cached_proposal.map_or("none".to_string(), |c| self.cp_label(&ExecutionState::Prepared(c)))
            ),
        }
    }

    fn cp_label(&mut self, prepared: &ExecutionState) -> String {
        let ids: Vec<u32> = self.blks.keys().copied().collect();
        for id in ids {
            let b = self.blks[&id].clone();
            let (eci, _, _) = build_ve(&b.ve, b.height);
            let req = abci::request::PrepareProposal {
                max_tx_bytes: 0,
                txs: vec![],
                local_last_commit: Some(eci),
                misbehavior: vec![],
                height: Height::try_from(b.height).unwrap(),
                time: time_of(&b),
                next_validators_hash: Hash::default(),
                proposer_address: proposer_of(&b),
            };
            let mut m = ExecutionStateMachine::new();
            m.set_prepared_proposal(
                req,
                abci::response::PrepareProposal {
                    txs: blk_txs(&b),
                },
            )
            .unwrap();
            if m.data() == prepared {
                let xs = self.txs_list_id(&blk_txs(&b));
                return format!("{}.{}.{}.{}.{}", b.height, b.time_s, b.proposer, lc_key(&b.ve), xs);
            }
        }
        "unknown".to_string()
    }
}

// ------------------------------------------------------------------------------------------
// op execution
// ------------------------------------------------------------------------------------------

impl World {
    async fn run(&mut self, op: &str) -> String {
        let res = self.exec(op).await;
        self.trace.line(&format!("{op} => {res}"));
        res
    }

    async fn exec(&mut self, op: &str) -> String {
        let words: Vec<&str> = op.split(' ').collect();
        assert_eq!(words[0], "abci", "bad area in op: {op}");
        let a = args(op);
        match words[1] {
            "reset" => self.op_reset(&a).await,
            "mktx" => self.op_mktx(&a).await,
            "clearmp" => {
                let i = arg_u64(&a, "i") as usize;
                let metrics = self.insts[i].app.metrics;
                self.insts[i].app.mempool = Mempool::new(metrics, 100, 100);
                "ok".to_string()
            }
            "insert" => self.op_insert(&a).await,
            "prepare" => self.op_prepare(&a).await,
            "variant" => self.op_variant(&a),
            "mutate" => self.op_mutate(&a),
            "process" => self.op_process(&a).await,
            "finalize" => self.op_finalize(&a).await,
            "commit" => self.op_commit(&a).await,
            "restart" => {
                let i = arg_u64(&a, "i") as usize;
                let bb = self.blackburn;
                restart(&mut self.insts[i], bb).await;
                format!("ok exec={}", self.exec_dump(i))
            }
            other => panic!("unknown op {other}"),
        }
    }

    async fn op_reset(&mut self, a: &HashMap<String, String>) -> String {
        let k = arg_u64(a, "k") as usize;
        self.blackburn = a.get("bb").and_then(|s| s.parse().ok()).unwrap_or(3);
        self.insts.clear();
        self.txs.clear();
        self.blks.clear();
        self.txs_lists.clear();
        self.byte_ids.clear();
        for _ in 0..k {
            self.insts.push(new_inst(&self.dave, self.blackburn).await);
        }
        let _ = self.rec.take();
        let mut roots = vec![];
        for inst in &self.insts {
            roots.push(h16(inst.app.app_hash.as_bytes()));
        }
        let same = roots.iter().all(|r| *r == roots[0]);
        format!(
            "ok h={} same={} exec={}",
            committed_height(&self.insts[0]).await,
            u8::from(same),
            self.exec_dump(0)
        )
    }

    async fn op_mktx(&mut self, a: &HashMap<String, String>) -> String {
        let id = arg_id(a, "t");
        let signer = a["s"].clone();
        let nonce = arg_u64(a, "n") as u32;
        let acts = a["a"].clone();
        let Some(bytes) = sign_tx(self, &signer, nonce, &acts) else {
            return "err:build".to_string();
        };
        let snap = self.insts[0].storage.latest_snapshot();
        let checked = CheckedTransaction::new(bytes.clone(), &snap).await;
        let _ = self.rec.take();
        match checked {
            Ok(tx) => {
                let seq: usize = tx.rollup_data_bytes().map(|(_, d)| d.len()).sum();
                let ent = TxEnt {
                    len: bytes.len(),
                    seq,
                    group: group_num(tx.group()),
                    tx: Some(Arc::new(tx)),
                    bytes,
                    spec: acts,
                    signer,
                    nonce,
                };
                let r = format!("ok len={} seq={} g={}", ent.len, ent.seq, ent.group);
                self.txs.insert(id, ent);
                r
            }
            Err(_) => "err:construct".to_string(),
        }
    }

    async fn op_insert(&mut self, a: &HashMap<String, String>) -> String {
        let i = arg_u64(a, "i") as usize;
        let id = arg_id(a, "t");
        let Some(ent) = self.txs.get(&id) else {
            return "err:notx".to_string();
        };
        let Some(tx) = ent.tx.clone() else {
            return "err:notx".to_string();
        };
        let snap = self.insts[i].storage.latest_snapshot();
        let nonce = snap.get_account_nonce(tx.address_bytes()).await.unwrap();
        // `force=1`: hand the mempool the tx's own nonce as the account nonce so that a tx that
        // will fail with an invalid nonce still reaches the builder queue
        let nonce = if a.get("force").map(String::as_str) == Some("1") {
            tx.nonce()
        } else {
            nonce
        };
        let r = self.insts[i]
            .app
            .mempool
            .insert(tx, nonce, &dummy_balances(0, 0), dummy_tx_costs(0, 0, 0))
            .await;
        let _ = self.rec.take();
        match r {
            Ok(_) => "ok".to_string(),
            Err(e) => format!("err:{e:?}"),
        }
    }

    fn tx_id_of_bytes(&self, bytes: &Bytes) -> Option<u32> {
        self.txs
            .iter()
            .find(|(_, e)| e.bytes == *bytes)
            .map(|(id, _)| *id)
    }

    async fn op_prepare(&mut self, a: &HashMap<String, String>) -> String {
        let i = arg_u64(a, "i") as usize;
        let bid = arg_id(a, "b");
        let height = arg_u64(a, "h");
        let round = arg_u64(a, "r") as u16;
        let max: i64 = a["max"].parse().unwrap();
        let time_s: i64 = a["t"].parse().unwrap();
        let proposer = arg_u64(a, "p") as u8;
        let ve = a["ve"].clone();
        let (eci, _plain, nprices) = build_ve(&ve, height);
        let lc_round = eci.round.value() as u16;
        let _ = round;

        let queue = self.insts[i].app.mempool.builder_queue().await;
        let mut q = vec![];
        let mut qids = vec![];
        for tx in &queue {
            let id = self.tx_id_of_bytes(tx.encoded_bytes()).unwrap_or(0);
            let e = &self.txs[&id];
            q.push(format!("{}:{}:{}:{}", id, e.len, e.seq, e.group));
            qids.push(id);
        }
        // size of the extended-commit-info item the code will try to add first, and of the empty
        // fallback item
        let full_eci_len = {
            let snap = self.insts[i].storage.latest_snapshot();
            let info = ProposalHandler::prepare_proposal(&snap, height, eci.clone())
                .await
                .unwrap_or_else(|_| ExtendedCommitInfoWithCurrencyPairMapping::empty(eci.round));
            DataItem::ExtendedCommitInfo(info.into_raw().encode_to_vec().into())
                .encode()
                .len()
        };
        // the fallback item: the encoded well-formed empty extended commit info for this round
        let empty_eci_len = DataItem::ExtendedCommitInfo(
            ExtendedCommitInfoWithCurrencyPairMapping::empty(Round::from(lc_round))
                .into_raw()
                .encode_to_vec()
                .into(),
        )
        .encode()
        .len();
        // the upgrade-change-hashes item the code will inject at an upgrade activation height
        let up = {
            let upgrades = self.insts[i].app.upgrades_handler.upgrades();
            let hashes: Option<Vec<ChangeHash>> = upgrades
                .aspen()
                .filter(|u| u.activation_height() == height)
                .map(|u| u.changes().map(Change::calculate_hash).collect())
                .or_else(|| {
                    upgrades
                        .blackburn()
                        .filter(|u| u.activation_height() == height)
                        .map(|u| u.changes().map(Change::calculate_hash).collect())
                });
            match hashes {
                Some(h) => {
                    let item = DataItem::UpgradeChangeHashes(h).encode();
                    format!("{}:{}", self.byte_id(&item), item.len())
                }
                None => "-".to_string(),
            }
        };

        let req = abci::request::PrepareProposal {
            max_tx_bytes: max,
            txs: vec![],
            local_last_commit: Some(eci),
            misbehavior: vec![],
            height: Height::try_from(height).unwrap(),
            time: Time::from_unix_timestamp(time_s, 0).unwrap(),
            next_validators_hash: Hash::default(),
            proposer_address: account::Id::new([proposer; 20]),
        };
        let _ = self.rec.take();
        let storage = self.insts[i].storage.clone();
        let res = self.insts[i].app.prepare_proposal(req, storage).await;
        let log = self.rec.take();
        let ph = phases(&log);
        let chk = check_outcomes(&log);
        let mut o = String::new();
        for k in 0..queue.len() {
            o.push(chk.get(k).copied().unwrap_or('_'));
        }
        if o.is_empty() {
            o.push('-');
        }
        let qs = if q.is_empty() {
            "-".to_string()
        } else {
            q.join(";")
        };
        match res {
            Ok(resp) => {
                let n_inj = 3;
                let mut items = vec![];
                let mut inc = vec![];
                for (k, bytes) in resp.txs.iter().enumerate() {
                    let kind = match (k, self.tx_id_of_bytes(bytes)) {
                        (0, _) => ItemKind::R1,
                        (1, _) => ItemKind::R2,
                        (_, Some(id)) => {
                            inc.push(id.to_string());
                            ItemKind::Tx(id)
                        }
                        (_, None) => match raw_item_kind(bytes) {
                            Some('U') => ItemKind::Upg,
                            Some('E') => ItemKind::Eci,
                            _ => ItemKind::Garbage,
                        },
                    };
                    items.push((bytes.clone(), kind));
                }
                let cb: usize = resp.txs.iter().map(Bytes::len).sum();
                let sb: usize = items
                    .iter()
                    .filter_map(|(_, k)| match k {
                        ItemKind::Tx(t) => Some(self.txs[t].seq),
                        _ => None,
                    })
                    .sum();
                let deposits = self.insts[i].app.state.get_cached_block_deposits();
                let blk = Blk {
                    height,
                    time_s,
                    proposer,
                    round: lc_round,
                    ve,
                    items,
                    deposits,
                    salt: 0,
                    honest: true,
                    mutation: "prepare".to_string(),
                    prices: 0,
                    by: i,
                };
                let mut blk = blk;
                blk.prices = blk
                    .items
                    .iter()
                    .find(|(_, k)| *k == ItemKind::Eci)
                    .map_or(0, |(b, _)| eci_price_count(b));
                self.blks.insert(bid, blk);
                let desc = self.blk_desc(bid);
                format!(
                    "ok q={qs} o={o} inj={full_eci_len}/{empty_eci_len} up={up} | inc={} cb={cb} sb={sb} shape={} exec={} \
                     ph={ph} | {desc}",
                    if inc.is_empty() { "-".to_string() } else { inc.join(",") },
                    shape_of(&self.blks[&bid]),
                    self.exec_dump(i),
                )
            }
            Err(e) => format!(
                "err:{} q={qs} o={o} inj={full_eci_len}/{empty_eci_len} up={up} | exec={} ph={ph}",
                err_kind(&e),
                self.exec_dump(i)
            ),
        }
    }

    fn op_variant(&mut self, a: &HashMap<String, String>) -> String {
        let bid = arg_id(a, "b");
        let from = arg_id(a, "from");
        let Some(mut b) = self.blks.get(&from).cloned() else {
            return "err:noblock".to_string();
        };
        let v = arg_u64(a, "v");
        match a["f"].as_str() {
            "p" => b.proposer = v as u8,
            "t" => b.time_s = v as i64,
            "salt" => b.salt = v as u32,
            other => panic!("unknown variant field {other}"),
        }
        b.honest = false;
        b.mutation = format!("variant:{}", a["f"]);
        self.blks.insert(bid, b);
        format!("ok | {}", self.blk_desc(bid))
    }

    /// single-field mutations of a block (C06)
    fn op_mutate(&mut self, a: &HashMap<String, String>) -> String {
        let bid = arg_id(a, "b");
        let from = arg_id(a, "from");
        let Some(mut b) = self.blks.get(&from).cloned() else {
            return "err:noblock".to_string();
        };
        let kind = a["k"].clone();
        let x = a.get("x").and_then(|s| s.parse::<usize>().ok()).unwrap_or(0);
        let first_tx = b
            .items
            .iter()
            .position(|(_, k)| matches!(k, ItemKind::Tx(_) | ItemKind::Garbage))
            .unwrap_or(b.items.len());
        let ntx = b.items.len() - first_tx;
        let mut recompute = false;
        match kind.as_str() {
            "root1" | "root2" => {
                let idx = if kind == "root1" { 0 } else { 1 };
                let mut v = b.items[idx].0.to_vec();
                let last = v.len() - 1 - (x % 32);
                v[last] ^= 1 << (x % 8);
                b.items[idx].0 = Bytes::from(v);
            }
            "swaproots" => b.items.swap(0, 1),
            "drop0" => {
                b.items.remove(0);
            }
            "drop1" => {
                b.items.remove(1);
            }
            "dropU" => {
                if let Some(p) = b.items.iter().position(|(_, k)| *k == ItemKind::Upg) {
                    b.items.remove(p);
                } else {
                    return "err:inapplicable".to_string();
                }
            }
            "dropE" => {
                if let Some(p) = b.items.iter().position(|(_, k)| *k == ItemKind::Eci) {
                    b.items.remove(p);
                } else {
                    return "err:inapplicable".to_string();
                }
            }
            "Elast" => {
                let Some(p) = b.items.iter().position(|(_, k)| *k == ItemKind::Eci) else {
                    return "err:inapplicable".to_string();
                };
                if ntx == 0 {
                    return "err:inapplicable".to_string();
                }
                let it = b.items.remove(p);
                b.items.push(it);
            }
            "Efirst" => {
                let Some(p) = b.items.iter().position(|(_, k)| *k == ItemKind::Eci) else {
                    return "err:inapplicable".to_string();
                };
                let it = b.items.remove(p);
                b.items.insert(0, it);
            }
            "garbage" => {
                if ntx == 0 {
                    return "err:inapplicable".to_string();
                }
                let p = first_tx + x % ntx;
                let len = b.items[p].0.len().max(8);
                let g: Vec<u8> = (0..len).map(|i| 0xff_u8.wrapping_sub((i * 7) as u8)).collect();
                b.items[p] = (Bytes::from(g), ItemKind::Garbage);
            }
            "unsigned" => {
                if ntx == 0 {
                    return "err:inapplicable".to_string();
                }
                let p = first_tx + x % ntx;
                let Ok(mut raw) = raw_tx::Transaction::decode(b.items[p].0.clone()) else {
                    return "err:inapplicable".to_string();
                };
                let mut sig = raw.signature.to_vec();
                if sig.is_empty() {
                    return "err:inapplicable".to_string();
                }
                let k = x % sig.len();
                sig[k] ^= 0x10;
                raw.signature = Bytes::from(sig);
                b.items[p] = (Bytes::from(raw.encode_to_vec()), ItemKind::Garbage);
            }
            "regroup" => {
                // move a transaction of a numerically smaller group in front of one with a larger
                // group: afterwards the larger-group tx follows a smaller-group one
                let groups: Vec<u8> = b.items[first_tx..]
                    .iter()
                    .map(|(_, k)| match k {
                        ItemKind::Tx(t) => self.txs[t].group,
                        _ => 0,
                    })
                    .collect();
                let mut found = None;
                for j in 1..groups.len() {
                    if groups[j] != 0 && groups[j - 1] != 0 && groups[j] < groups[j - 1] {
                        found = Some(j);
                        break;
                    }
                }
                let Some(j) = found else {
                    return "err:inapplicable".to_string();
                };
                b.items.swap(first_tx + j - 1, first_tx + j);
                recompute = true;
            }
            "fatal" | "overseq" | "append" => {
                // append given transactions (t=…,…) and recompute the commitments so that the
                // commitments are NOT the reason for a rejection
                for t in a["t"].split(',') {
                    let id: u32 = t.trim_start_matches('t').parse().unwrap();
                    let Some(e) = self.txs.get(&id) else {
                        return "err:notx".to_string();
                    };
                    b.items.push((e.bytes.clone(), ItemKind::Tx(id)));
                }
                recompute = true;
            }
            "dup" => {
                if ntx == 0 {
                    return "err:inapplicable".to_string();
                }
                let it = b.items[first_tx + x % ntx].clone();
                b.items.push(it);
                recompute = true;
            }
            other => panic!("unknown mutation {other}"),
        }
        if recompute {
            let mut checked = vec![];
            for (_, kind) in &b.items {
                if let ItemKind::Tx(t) = kind {
                    if let Some(tx) = &self.txs[t].tx {
                        checked.push(tx.clone());
                    }
                }
            }
            let c = generate_rollup_datas_commitment::<true>(&checked, b.deposits.clone());
            let mut it = c.into_iter();
            if let Some(p) = b.items.iter().position(|(_, k)| *k == ItemKind::R1) {
                b.items[p].0 = it.next().unwrap();
            }
            if let Some(p) = b.items.iter().position(|(_, k)| *k == ItemKind::R2) {
                b.items[p].0 = it.next().unwrap();
            }
        }
        b.honest = false;
        b.mutation = format!("mutate:{kind}");
        self.blks.insert(bid, b);
        format!("ok | {}", self.blk_desc(bid))
    }

    /// which of the block's transactions can be constructed against the committed state of
    /// instance `i` (what `construct_checked_txs` does at block start): `1`/`0` per tx item
    async fn constructible(&mut self, i: usize, b: &Blk) -> String {
        let snap = self.insts[i].storage.latest_snapshot();
        let mut s = String::new();
        for (bytes, kind) in &b.items {
            if matches!(kind, ItemKind::Tx(_) | ItemKind::Garbage) {
                let ok = CheckedTransaction::new(bytes.clone(), &snap).await.is_ok();
                s.push(if ok { '1' } else { '0' });
            }
        }
        let _ = self.rec.take();
        if s.is_empty() {
            s.push('-');
        }
        s
    }

    async fn op_process(&mut self, a: &HashMap<String, String>) -> String {
        let i = arg_u64(a, "i") as usize;
        let bid = arg_id(a, "b");
        let Some(b) = self.blks.get(&bid).cloned() else {
            return "err:noblock".to_string();
        };
        let cs = self.constructible(i, &b).await;
        let (_, plain, _) = build_ve(&b.ve, b.height);
        let req = abci::request::ProcessProposal {
            txs: blk_txs(&b),
            proposed_last_commit: Some(plain),
            misbehavior: vec![],
            hash: Hash::Sha256(blk_hash(&b)),
            height: Height::try_from(b.height).unwrap(),
            time: time_of(&b),
            next_validators_hash: Hash::default(),
            proposer_address: proposer_of(&b),
        };
        let before = Arc::as_ptr(&self.insts[i].app.state);
        let _ = self.rec.take();
        let storage = self.insts[i].storage.clone();
        let res = self.insts[i].app.process_proposal(req, storage).await;
        let log = self.rec.take();
        let reset = u8::from(before != Arc::as_ptr(&self.insts[i].app.state));
        let ph = phases(&log);
        let xo: String = exec_outcomes(&log).into_iter().collect();
        let xo = if xo.is_empty() { "-".to_string() } else { xo };
        let verdict = match res {
            Ok(()) => "accept".to_string(),
            Err(e) => format!("reject:{}", err_kind(&e)),
        };
        format!(
            "{verdict} cs={cs} xo={xo} | exec={} rs={reset} ph={ph}",
            self.exec_dump(i)
        )
    }

    async fn op_finalize(&mut self, a: &HashMap<String, String>) -> String {
        let i = arg_u64(a, "i") as usize;
        let bid = arg_id(a, "b");
        let Some(b) = self.blks.get(&bid).cloned() else {
            return "err:noblock".to_string();
        };
        if self.insts[i].app.write_batch.is_some() {
            return "err:already-finalized".to_string();
        }
        let cs = self.constructible(i, &b).await;
        let (_, plain, _) = build_ve(&b.ve, b.height);
        let req = abci::request::FinalizeBlock {
            txs: blk_txs(&b),
            decided_last_commit: plain,
            misbehavior: vec![],
            hash: Hash::Sha256(blk_hash(&b)),
            height: Height::try_from(b.height).unwrap(),
            time: time_of(&b),
            next_validators_hash: Hash::default(),
            proposer_address: proposer_of(&b),
        };
        let _ = self.rec.take();
        let storage = self.insts[i].storage.clone();
        let res = self.insts[i].app.finalize_block(req, storage).await;
        let log = self.rec.take();
        let ph = phases(&log);
        let xo: String = exec_outcomes(&log).into_iter().collect();
        let xo = if xo.is_empty() { "-".to_string() } else { xo };
        match res {
            Ok(resp) => {
                let codes: Vec<String> = resp
                    .tx_results
                    .iter()
                    .map(|r| r.code.value().to_string())
                    .collect();
                let mut vus: Vec<String> = resp
                    .validator_updates
                    .iter()
                    .map(|u| format!("{}:{}", h8(&u.pub_key.to_bytes()), u.power.value()))
                    .collect();
                vus.sort();
                let cpu = resp
                    .consensus_param_updates
                    .as_ref()
                    .map_or("none".to_string(), |p| {
                        h8(&Sha256::digest(format!("{p:?}").as_bytes()))
                    });
                let mut evh = Sha256::new();
                for ev in &resp.events {
                    evh.update(format!("{ev:?}").as_bytes());
                }
                format!(
                    "ok app={} res={} vu={} cpu={} ev={}:{} cs={cs} xo={xo} | exec={} ph={ph}",
                    h16(resp.app_hash.as_bytes()),
                    if codes.is_empty() { "-".to_string() } else { codes.join(",") },
                    if vus.is_empty() { "-".to_string() } else { vus.join(",") },
                    cpu,
                    resp.events.len(),
                    h8(&evh.finalize()),
                    self.exec_dump(i),
                )
            }
            Err(e) => format!(
                "err:{} cs={cs} xo={xo} | exec={} ph={ph}",
                err_kind(&e),
                self.exec_dump(i)
            ),
        }
    }

    async fn op_commit(&mut self, a: &HashMap<String, String>) -> String {
        let i = arg_u64(a, "i") as usize;
        if self.insts[i].app.write_batch.is_none() {
            return "err:nobatch".to_string();
        }
        let storage = self.insts[i].storage.clone();
        let r = self.insts[i].app.commit(storage).await;
        let _ = self.rec.take();
        match r {
            Ok(_) => format!(
                "ok h={} app={} {} exec={}",
                committed_height(&self.insts[i]).await,
                h16(self.insts[i].app.app_hash.as_bytes()),
                state_digest(&self.insts[i].storage).await,
                self.exec_dump(i)
            ),
            Err(_) => "err:commit".to_string(),
        }
    }
}

// ------------------------------------------------------------------------------------------
// generators
// ------------------------------------------------------------------------------------------

struct Gen {
    rng: Rng,
    next_tx: u32,
    next_blk: u32,
    bridge_ready: bool,
    erin_is_validator: bool,
    relayer_erin: bool,
    extra_pair: bool,
}

impl Gen {
    fn new(rng: Rng) -> Self {
        Gen {
            rng,
            next_tx: 1,
            next_blk: 1,
            bridge_ready: false,
            erin_is_validator: false,
            relayer_erin: false,
            extra_pair: false,
        }
    }

    fn tx(&mut self) -> u32 {
        self.next_tx += 1;
        self.next_tx - 1
    }

    fn blk(&mut self) -> u32 {
        self.next_blk += 1;
        self.next_blk - 1
    }

    fn ve(&mut self) -> String {
        match self.rng.below(10) {
            0..=2 => "none".to_string(),
            3 => format!("{}/-/-/-", self.rng.below(2)),
            4 => format!("{}/{}:{}/bad/{}:{}", self.rng.below(3), self.price(), self.price(), self.price(), self.price()),
            5 => format!("{}/{}:{}/-/{}:{}", self.rng.below(3), self.price(), self.price(), self.price(), self.price()),
            6 => format!("{}/{}:_/{}:{}/_:{}", self.rng.below(3), self.price(), self.price(), self.price(), self.price()),
            _ => format!(
                "{}/{}:{}/{}:{}/{}:{}",
                self.rng.below(3),
                self.price(),
                self.price(),
                self.price(),
                self.price(),
                self.price(),
                self.price()
            ),
        }
    }

    fn price(&mut self) -> u64 {
        1 + self.rng.below(100_000)
    }
}

async fn committed_nonce(w: &World, signer: &str) -> u32 {
    let snap = w.insts[0].storage.latest_snapshot();
    snap.get_account_nonce(&key_of(w, signer).address_bytes())
        .await
        .unwrap()
}

/// generates a pool of mostly valid transactions with consecutive nonces per signer on top of
/// the committed state; returns the ids of the successfully constructed ones
async fn gen_pool(w: &mut World, g: &mut Gen, adversarial: bool) -> Vec<u32> {
    let mut pool = vec![];
    let general = ["alice", "bob", "carol"];
    for signer in general {
        let count = g.rng.below(4);
        let mut nonce = committed_nonce(w, signer).await;
        for _ in 0..count {
            let mut acts = vec![];
            for _ in 0..=g.rng.below(2) {
                let others = ["alice", "bob", "carol", "dave", "erin"];
                let spec = match g.rng.below(10) {
                    0..=3 => format!("xfer.{}.{}", g.rng.pick(&others), 1 + g.rng.below(1000)),
                    4..=6 => {
                        let len = match g.rng.below(6) {
                            0 => 0,
                            1 => g.rng.below(40),
                            2 => g.rng.below(3000),
                            3 => 20_000 + g.rng.below(40_000),
                            _ => g.rng.below(400),
                        };
                        format!("seq.{}.{}", 1 + g.rng.below(3), len)
                    }
                    7 if g.bridge_ready => format!("lock.dave.{}", 1 + g.rng.below(500)),
                    8 if adversarial => format!("xfer.bob.{}", u128::MAX / 3),
                    _ => format!("xfer.{}.{}", g.rng.pick(&others), 1 + g.rng.below(50)),
                };
                acts.push(spec);
            }
            let id = g.tx();
            let r = w
                .run(&format!("abci mktx t=t{id} s={signer} n={nonce} a={}", acts.join("+")))
                .await;
            if r.starts_with("ok") {
                pool.push(id);
                nonce += 1;
            }
        }
    }
    // dave: bridge account initialisation (unbundleable general), once
    if !g.bridge_ready && g.rng.chance(60) {
        let nonce = committed_nonce(w, "dave").await;
        let id = g.tx();
        let r = w
            .run(&format!("abci mktx t=t{id} s=dave n={nonce} a=initbridge.1"))
            .await;
        if r.starts_with("ok") {
            pool.push(id);
        }
    }
    // sudo: validator updates (general group), bundleable sudo actions, unbundleable sudo
    if g.rng.chance(70) {
        let mut nonce = committed_nonce(w, "sudo").await;
        let count = 1 + g.rng.below(3);
        for _ in 0..count {
            let spec = match g.rng.below(8) {
                0 | 1 => format!(
                    "valup.{}.{}",
                    g.rng.pick(&["alice", "bob", "carol", "erin"]),
                    if g.rng.chance(15) { 0 } else { 1 + g.rng.below(30) }
                ),
                2 => format!("feechg.{}", g.rng.below(50)),
                3 => "sudo.sudo".to_string(),
                4 => format!("pair.{}.SOL", if g.extra_pair { "rm" } else { "add" }),
                5 => format!("feeasset.add.asset{}", g.rng.below(3)),
                6 => format!("feechg.{}+feeasset.add.other{}", g.rng.below(50), g.rng.below(3)),
                _ => format!("valup.erin.{}", 1 + g.rng.below(30)),
            };
            let id = g.tx();
            let r = w
                .run(&format!("abci mktx t=t{id} s=sudo n={nonce} a={spec}"))
                .await;
            if r.starts_with("ok") {
                pool.push(id);
                nonce += 1;
            }
        }
    }
    // ibc sudo: relayer changes, failing ibc relay (non-fatal after Blackburn)
    if g.rng.chance(50) {
        let mut nonce = committed_nonce(w, "ibcsudo").await;
        let count = 1 + g.rng.below(2);
        for _ in 0..count {
            let spec = match g.rng.below(3) {
                0 => format!("relayer.{}.erin", if g.relayer_erin { "rm" } else { "add" }),
                _ => "badibc".to_string(),
            };
            let id = g.tx();
            let r = w
                .run(&format!("abci mktx t=t{id} s=ibcsudo n={nonce} a={spec}"))
                .await;
            if r.starts_with("ok") {
                pool.push(id);
                // a failing ibc relay does not advance the nonce
                if spec != "badibc" {
                    nonce += 1;
                }
            }
        }
    }
    pool
}

/// after a commit: refresh the generator's view of chain facts it uses to stay mostly-valid
async fn refresh(w: &World, g: &mut Gen) {
    use crate::{
        bridge::StateReadExt as _,
        ibc::StateReadExt as _,
        oracles::price_feed::oracle::state_ext::StateReadExt as _,
    };
    let snap = w.insts[0].storage.latest_snapshot();
    g.bridge_ready = snap
        .get_bridge_account_rollup_id(&w.dave.address_bytes())
        .await
        .ok()
        .flatten()
        .is_some();
    g.relayer_erin = snap
        .is_ibc_relayer(&erin_key().address_bytes())
        .await
        .unwrap_or(false);
    let sol: CurrencyPair = "SOL/USD".parse().unwrap();
    g.extra_pair = snap
        .get_currency_pair_id(&sol)
        .await
        .ok()
        .flatten()
        .is_some();
}

const K: usize = 5;

/// C05: a multi-block history fed to K instances by different legal call orders
async fn gen_c05(w: &mut World, g: &mut Gen, heights: usize, bb: u64) {
    w.run(&format!("abci reset k={K} bb={bb}")).await;
    for hh in 0..heights {
        refresh(w, g).await;
        let height = committed_height(&w.insts[0]).await + 1;
        let adversarial = g.rng.chance(30);
        let pool = gen_pool(w, g, adversarial).await;
        let rounds = 1 + usize::from(g.rng.chance(45)) + usize::from(g.rng.chance(15));
        let mut prepared_by: Vec<Option<u32>> = vec![None; K];
        let mut blocks: Vec<u32> = vec![];
        let mut final_proposer = 0;
        // with some probability the decided round's proposal avoids every transaction that was
        // proposed in an earlier round of this height (so that leftovers of a rejected round in a
        // validator's working state do not simply collide with the decided proposal's nonces)
        let disjoint = rounds > 1 && g.rng.chance(50);
        let mut proposed_earlier: Vec<u32> = vec![];
        for r in 0..rounds {
            let proposer = g.rng.below(K as u64) as usize;
            final_proposer = proposer;
            w.run(&format!("abci clearmp i={proposer}")).await;
            for t in &pool {
                let last = r + 1 == rounds;
                let take = if last {
                    !(disjoint && proposed_earlier.contains(t))
                } else if disjoint {
                    // earlier rounds of a disjoint height: whole signers, so that the rest stays executable
                    ["alice", "sudo"].contains(&w.txs[t].signer.as_str())
                } else {
                    g.rng.chance(60)
                };
                if take {
                    w.run(&format!("abci insert i={proposer} t=t{t}")).await;
                }
            }
            let max = match g.rng.below(6) {
                0 => 300 + g.rng.below(3000),
                1 => 20_000 + g.rng.below(60_000),
                _ => 1_000_000,
            };
            let b = g.blk();
            let ve = g.ve();
            let res = w
                .run(&format!(
                    "abci prepare i={proposer} b=b{b} h={height} r={r} max={max} t={} p={} ve={ve}",
                    1_750_000_000 + height * 100 + r as u64,
                    proposer + 1,
                ))
                .await;
            if !res.starts_with("ok") {
                // a failing prepare crashes the node: restart it, try another round
                w.run(&format!("abci restart i={proposer}")).await;
                continue;
            }
            prepared_by[proposer] = Some(b);
            blocks.push(b);
            if r + 1 < rounds {
                for (_, kind) in &w.blks[&b].items {
                    if let ItemKind::Tx(t) = kind {
                        proposed_earlier.push(*t);
                    }
                }
                // a copy of the proposal that is rejected part-way (a transaction replayed): some
                // validators see it instead of / in addition to the honest one
                if g.rng.chance(if disjoint { 90 } else { 25 }) {
                    let m = g.blk();
                    let r = w
                        .run(&format!("abci mutate b=b{m} from=b{b} k=dup x={}", g.rng.below(64)))
                        .await;
                    if r.starts_with("ok") {
                        for i in 0..K {
                            if i != proposer && g.rng.chance(60) {
                                if g.rng.chance(40) {
                                    w.run(&format!("abci process i={i} b=b{b}")).await;
                                }
                                w.run(&format!("abci process i={i} b=b{m}")).await;
                            }
                        }
                    }
                }
                // an undecided round: some validators see the proposal, some do not
                if g.rng.chance(30) {
                    // the proposer first sees a malformed copy of its own proposal (fingerprint
                    // mismatch is remembered although the parse fails)
                    let m = g.blk();
                    let kind = *g.rng.pick(&["drop0", "Efirst", "swaproots"]);
                    let r = w
                        .run(&format!("abci mutate b=b{m} from=b{b} k={kind} x=0"))
                        .await;
                    if r.starts_with("ok") {
                        w.run(&format!("abci process i={proposer} b=b{m}")).await;
                    }
                }
                for i in 0..K {
                    if i != proposer && g.rng.chance(50) {
                        w.run(&format!("abci process i={i} b=b{b}")).await;
                    } else if i == proposer && g.rng.chance(70) {
                        w.run(&format!("abci process i={i} b=b{b}")).await;
                    }
                }
                if g.rng.chance(25) {
                    // a proposal for the same txs by "someone else" (differs in one fingerprint field)
                    let v = g.blk();
                    let field = *g.rng.pick(&["p", "t", "salt"]);
                    let val = if field == "t" { 1_750_000_000 + height * 100 + 77 } else { 9 };
                    let r = w
                        .run(&format!("abci variant b=b{v} from=b{b} f={field} v={val}"))
                        .await;
                    if r.starts_with("ok") {
                        for i in 0..K {
                            if g.rng.chance(40) {
                                w.run(&format!("abci process i={i} b=b{v}")).await;
                            }
                        }
                    }
                }
            }
        }
        let Some(&decided) = blocks.last() else {
            continue;
        };
        // occasionally the decided block is one no honest proposer would build (a replayed
        // transaction): every node rejects it in ProcessProposal, FinalizeBlock ignores the
        // failing transaction on every path
        let mut decided = decided;
        // (only at the last height of a session: FinalizeBlock may fail on every node)
        if hh + 1 == heights && g.rng.chance(60) {
            let m = g.blk();
            let r = w
                .run(&format!("abci mutate b=b{m} from=b{decided} k=dup x={}", g.rng.below(64)))
                .await;
            if r.starts_with("ok") {
                decided = m;
                for slot in prepared_by.iter_mut() {
                    *slot = None;
                }
            }
        }
        // per-instance paths to the decided block
        for i in 0..K {
            if i == final_proposer && prepared_by[i] == Some(decided) {
                match g.rng.below(10) {
                    0 => {}
                    1 => {
                        w.run(&format!("abci restart i={i}")).await;
                    }
                    2 => {
                        w.run(&format!("abci process i={i} b=b{decided}")).await;
                        w.run(&format!("abci process i={i} b=b{decided}")).await;
                    }
                    _ => {
                        w.run(&format!("abci process i={i} b=b{decided}")).await;
                    }
                }
                continue;
            }
            match g.rng.below(9) {
                0 | 1 => {
                    w.run(&format!("abci process i={i} b=b{decided}")).await;
                }
                2 => {}
                3 => {
                    w.run(&format!("abci process i={i} b=b{decided}")).await;
                    w.run(&format!("abci restart i={i}")).await;
                }
                4 => {
                    w.run(&format!("abci restart i={i}")).await;
                }
                5 => {
                    let m = g.blk();
                    let kind = *g.rng.pick(&["root1", "root2", "garbage", "dropE", "dup", "swaproots"]);
                    let r = w
                        .run(&format!(
                            "abci mutate b=b{m} from=b{decided} k={kind} x={}",
                            g.rng.below(64)
                        ))
                        .await;
                    if r.starts_with("ok") {
                        w.run(&format!("abci process i={i} b=b{m}")).await;
                    }
                    w.run(&format!("abci process i={i} b=b{decided}")).await;
                }
                6 => {
                    w.run(&format!("abci process i={i} b=b{decided}")).await;
                    w.run(&format!("abci process i={i} b=b{decided}")).await;
                }
                7 => {
                    // same content re-proposed under a different hash first
                    let v = g.blk();
                    let r = w
                        .run(&format!("abci variant b=b{v} from=b{decided} f=salt v=5"))
                        .await;
                    if r.starts_with("ok") {
                        w.run(&format!("abci process i={i} b=b{v}")).await;
                    }
                    if g.rng.chance(50) {
                        w.run(&format!("abci process i={i} b=b{decided}")).await;
                    }
                }
                _ => {
                    w.run(&format!("abci process i={i} b=b{decided}")).await;
                }
            }
        }
        let mut all_ok = true;
        for i in 0..K {
            let r = w.run(&format!("abci finalize i={i} b=b{decided}")).await;
            all_ok &= r.starts_with("ok");
        }
        if !all_ok {
            // a failed finalize is a node crash; the session cannot continue
            return;
        }
        for i in 0..K {
            w.run(&format!("abci commit i={i}")).await;
        }
    }
}

const MUTATIONS: &[&str] = &[
    "root1", "root2", "swaproots", "drop0", "drop1", "dropU", "dropE", "Elast", "Efirst", "garbage", "unsigned",
    "regroup", "dup",
];

/// C06: mempool contents around the limits -> real prepare on A (sweep of max_tx_bytes), real
/// process on B, single-field mutations processed on C.
async fn gen_c06(w: &mut World, g: &mut Gen, mempools: usize, advance: bool, bb: u64) {
    w.run(&format!("abci reset k=3 bb={bb}")).await;
    for round in 0..mempools {
        refresh(w, g).await;
        let height = committed_height(&w.insts[0]).await + 1;
        let mut pool = gen_pool(w, g, true).await;
        // sizes around the sequenced-data limit (256 000) and the per-tx limit
        if g.rng.chance(70) {
            let signer = *g.rng.pick(&["alice", "bob", "carol"]);
            let mut nonce = committed_nonce(w, signer).await
                + pool.iter().filter(|t| w.txs[t].signer == signer).count() as u32;
            let sizes: Vec<u64> = match g.rng.below(5) {
                0 => vec![128_000, 128_000, 1],
                1 => vec![200_000, 56_000, 0, 1],
                2 => vec![100_000, 100_000, 56_001, 55_999],
                3 => vec![255_000, 999, 1, 1],
                _ => vec![60_000 + g.rng.below(100_000), 60_000 + g.rng.below(100_000), g.rng.below(90_000)],
            };
            for len in sizes {
                let id = g.tx();
                let r = w
                    .run(&format!("abci mktx t=t{id} s={signer} n={nonce} a=seq.{}.{len}", 1 + g.rng.below(3)))
                    .await;
                if r.starts_with("ok") {
                    pool.push(id);
                    nonce += 1;
                }
            }
        }
        // candidates for the `append` mutations: a fatally failing transfer, a replayed nonce,
        // data that exceeds the sequenced-data limit
        let fatal = g.tx();
        let fatal_signer = "dave";
        let fatal_nonce = committed_nonce(w, fatal_signer).await
            + pool.iter().filter(|t| w.txs[t].signer == fatal_signer).count() as u32;
        w.run(&format!(
            "abci mktx t=t{fatal} s={fatal_signer} n={fatal_nonce} a=xfer.bob.{}",
            u128::MAX / 2
        ))
        .await;
        let big1 = g.tx();
        let big2 = g.tx();
        w.run(&format!("abci mktx t=t{big1} s={fatal_signer} n={fatal_nonce} a=seq.7.200000"))
            .await;
        w.run(&format!(
            "abci mktx t=t{big2} s={fatal_signer} n={} a=seq.7.200000",
            fatal_nonce + 1
        ))
        .await;

        // first an unconstrained proposal to learn the sizes, then the sweep
        let mut sweep: Vec<u64> = vec![1_000_000];
        let mut best: Option<u32> = None;
        let mut k = 0;
        while k < sweep.len() {
            let max = sweep[k];
            w.run("abci clearmp i=0").await;
            for t in &pool {
                let force = if g.rng.chance(5) { " force=1" } else { "" };
                w.run(&format!("abci insert i=0 t=t{t}{force}")).await;
            }
            let b = g.blk();
            let ve = if k == 0 { g.ve() } else { w.blks.get(&best.unwrap_or(0)).map_or("none".to_string(), |b| b.ve.clone()) };
            let res = w
                .run(&format!(
                    "abci prepare i=0 b=b{b} h={height} r=0 max={max} t={} p=1 ve={ve}",
                    1_750_000_000 + height * 100
                ))
                .await;
            if res.starts_with("ok") {
                w.run(&format!("abci process i=1 b=b{b}")).await;
                if k == 0 {
                    best = Some(b);
                    // derive the sweep from the sizes of the unconstrained proposal
                    let blk = w.blks[&b].clone();
                    let total: u64 = blk.items.iter().map(|(x, _)| x.len() as u64).sum();
                    let n_inj = blk
                        .items
                        .iter()
                        .take_while(|(_, k)| !matches!(k, ItemKind::Tx(_) | ItemKind::Garbage))
                        .count();
                    let inj: u64 = blk.items.iter().take(n_inj).map(|(x, _)| x.len() as u64).sum();
                    let first_tx = blk.items.get(n_inj).map_or(0, |(x, _)| x.len() as u64);
                    let mut cands = vec![
                        total,
                        total.saturating_sub(1),
                        inj + first_tx,
                        (inj + first_tx).saturating_sub(1),
                        inj,
                        inj.saturating_sub(1),
                        68 + 4,
                        68,
                        67,
                        (inj + total) / 2,
                        inj + g.rng.below(total.saturating_sub(inj) + 1),
                    ];
                    cands.retain(|c| *c > 0);
                    cands.dedup();
                    let take = if common::is_thorough() { cands.len() } else { 5 };
                    for _ in 0..take.min(cands.len()) {
                        let pos = g.rng.below(cands.len() as u64) as usize;
                        sweep.push(cands.remove(pos));
                    }
                }
                // mutations of this honest proposal
                let nmut = if k == 0 { MUTATIONS.len() } else { 2 };
                for m in 0..nmut {
                    let kind = if k == 0 { MUTATIONS[m] } else { *g.rng.pick(MUTATIONS) };
                    let mb = g.blk();
                    let r = w
                        .run(&format!(
                            "abci mutate b=b{mb} from=b{b} k={kind} x={}",
                            g.rng.below(1000)
                        ))
                        .await;
                    if r.starts_with("ok") {
                        w.run(&format!("abci process i=2 b=b{mb}")).await;
                    }
                }
                if k == 0 {
                    for (kind, ts) in [
                        ("fatal", format!("t{fatal}")),
                        ("overseq", format!("t{big1},t{big2}")),
                    ] {
                        let mb = g.blk();
                        let r = w
                            .run(&format!("abci mutate b=b{mb} from=b{b} k={kind} t={ts}"))
                            .await;
                        if r.starts_with("ok") {
                            w.run(&format!("abci process i=2 b=b{mb}")).await;
                        }
                    }
                }
            } else {
                w.run("abci restart i=0").await;
            }
            k += 1;
        }
        if advance {
            if let Some(b) = best {
                let mut ok = true;
                for i in 0..3 {
                    let r = w.run(&format!("abci finalize i={i} b=b{b}")).await;
                    ok &= r.starts_with("ok");
                }
                if !ok {
                    return;
                }
                for i in 0..3 {
                    w.run(&format!("abci commit i={i}")).await;
                }
            }
        }
        let _ = round;
    }
}

// ------------------------------------------------------------------------------------------
// driver
// ------------------------------------------------------------------------------------------

#[test]
fn driver() {
    let rec = Rec::default();
    let _guard = tracing::subscriber::set_default(rec.clone());
    let rt = tokio::runtime::Builder::new_current_thread()
        .enable_all()
        .build()
        .unwrap();
    rt.block_on(async move {
        let mut w = World {
            insts: vec![],
            txs: BTreeMap::new(),
            blks: BTreeMap::new(),
            txs_lists: vec![],
            byte_ids: vec![],
            rec,
            trace: Trace::from_env(),
            dave: dave_key(),
            blackburn: 3,
        };
        if let Some(lines) = common::replay_lines() {
            for op in lines {
                w.run(&op).await;
            }
            w.trace.finish();
            return;
        }
        for op in common::corpus_lines() {
            w.run(&op).await;
        }
        let thorough = common::is_thorough();
        let mut g = Gen::new(Rng::from_env());
        let (sessions5, heights, sessions6, mempools) = if thorough {
            (12, 30, 10, 10)
        } else {
            (3, 10, 3, 3)
        };
        for s in 0..sessions5 {
            let mut gg = Gen::new(Rng(g.rng.next()));
            // Blackburn activates before the session (3) or at a height inside it
            let bb = [3, 7, 5, 9][s % 4];
            gen_c05(&mut w, &mut gg, heights, bb).await;
        }
        for s in 0..sessions6 {
            let mut gg = Gen::new(Rng(g.rng.next()));
            // every third session starts right at the Blackburn activation height
            let bb = if s % 3 == 1 { 5 } else { 3 };
            gen_c06(&mut w, &mut gg, mempools, s % 2 == 0, bb).await;
        }
        w.trace.finish();
    });
}
