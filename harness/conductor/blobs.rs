// In-crate verification harness for area `block` (properties C07 and C17).
//
// Hooked as `celestia::verif` of astria-conductor (feature `verif-blobs`, cfg(test)), so that
// the private modules `celestia::{convert, fetch, verify, reconstruct}` and their `pub(super)`
// items are reachable, and — through the crate's (dev-)dependencies — all of astria-core.
//
// What is run (always the REAL code):
//   * `SequencerBlockBuilder::try_build` on generated block contents (`block reset …`);
//   * `SequencerBlock / FilteredSequencerBlock / SubmittedMetadata / SubmittedRollupData
//     ::try_from_raw` on the honest raw protobuf value and on every single-element tampering
//     of it (`block full|filtered|meta|blob …`);
//   * `SequencerBlock::to_filtered_block`, `split_for_celestia` (`block filter|split`);
//   * the conductor pipeline `decode_raw_blobs → verify_metadata → reconstruct_blocks_from_
//     verified_blobs` with brotli-compressed Celestia blobs and a mocked sequencer RPC that
//     serves real signed commits (`block celestia …`);
//   * every public decode entry point on structure-aware mutations of valid encodings under
//     `catch_unwind` (`block wire …`, C17).
//
// Line protocol: see /verif/lean/Driver/BlockArea.lean (the two files are written together).
#![allow(clippy::pedantic, clippy::all, dead_code, unused_imports)]

#[path = "/verif/harness/common.rs"]
mod common;
#[path = "/verif/harness/block_codec.rs"]
mod codec;

use std::{
    collections::HashMap,
    sync::Arc,
};

use astria_core::{
    generated::astria::{
        primitive::v1 as rawp,
        sequencerblock::v1 as raw,
    },
    primitive::v1::{
        Address,
        RollupId,
        TransactionId,
    },
    sequencerblock::v1::{
        block::{
            self,
            Deposit,
            ExpandedBlockData,
            FilteredSequencerBlock,
            RollupData,
            SequencerBlockBuilder,
        },
        DataItem,
        SequencerBlock,
        SubmittedMetadata,
        SubmittedRollupData,
    },
    Protobuf as _,
};
use bytes::Bytes;
use common::{
    hex,
    no_panic,
    unhex,
    Rng,
    Trace,
};
use codec::*;
use prost::Message as _;

// ------------------------------------------------------------------------------------------
// executing ops
// ------------------------------------------------------------------------------------------

fn res_full(r: &raw::SequencerBlock) -> String {
    let input = r.clone();
    match no_panic(move || SequencerBlock::try_from_raw(input)) {
        None => "panic".to_string(),
        Some(Err(e)) => format!("err:{}", err_kind(&format!("{e:?}"))),
        Some(Ok(b)) => {
            let back = b.into_raw();
            if &back == r {
                "ok same".to_string()
            } else {
                format!("ok {}", block_s(&back))
            }
        }
    }
}

fn res_filtered(r: &raw::FilteredSequencerBlock) -> String {
    let input = r.clone();
    match no_panic(move || FilteredSequencerBlock::try_from_raw(input)) {
        None => "panic".to_string(),
        Some(Err(e)) => format!("err:{}", err_kind(&format!("{e:?}"))),
        Some(Ok(b)) => {
            let back = b.into_raw();
            if &back == r {
                "ok same".to_string()
            } else {
                format!("ok {}", filtered_s(&back))
            }
        }
    }
}

fn res_meta(r: &raw::SubmittedMetadata) -> String {
    let input = r.clone();
    match no_panic(move || SubmittedMetadata::try_from_raw(input)) {
        None => "panic".to_string(),
        Some(Err(e)) => format!("err:{}", err_kind(&format!("{e:?}"))),
        Some(Ok(b)) => {
            let back = b.into_raw();
            if &back == r {
                "ok same".to_string()
            } else {
                format!("ok {}", meta_s(&back))
            }
        }
    }
}

fn res_blob(r: &raw::SubmittedRollupData) -> String {
    let input = r.clone();
    match no_panic(move || SubmittedRollupData::try_from_raw(input)) {
        None => "panic".to_string(),
        Some(Err(e)) => format!("err:{}", err_kind(&format!("{e:?}"))),
        Some(Ok(b)) => {
            let back = b.into_raw();
            if &back == r {
                "ok same".to_string()
            } else {
                format!("ok {}", blob_s(&back))
            }
        }
    }
}

// ------------------------------------------------------------------------------------------
// the conductor pipeline with a mocked sequencer
// ------------------------------------------------------------------------------------------

mod pipeline {
    use sequencer_client::{
        tendermint,
        tendermint_proto,
        tendermint_rpc,
    };

    use super::*;
    use crate::celestia::{
        convert::decode_raw_blobs,
        fetch::RawBlobs,
        reconstruct::reconstruct_blocks_from_verified_blobs,
        verify::{
            verify_metadata,
            BlobVerifier,
        },
    };

    pub struct Env {
        pub rt: tokio::runtime::Runtime,
        pub server: wiremock::MockServer,
        pub mounted: std::collections::HashSet<u64>,
    }

    fn signing_key() -> astria_core::crypto::SigningKey {
        astria_core::crypto::SigningKey::from([0x33u8; 32])
    }

    fn validator() -> tendermint::validator::Info {
        let pub_key = tendermint::PublicKey::from_raw_ed25519(signing_key().verification_key().as_ref()).unwrap();
        tendermint::validator::Info {
            address: tendermint::account::Id::from(pub_key),
            pub_key,
            power: 10u32.into(),
            proposer_priority: 0.into(),
            name: None,
        }
    }

    fn signed_header(height: u32, chain: &str, block_hash: [u8; 32]) -> tendermint::block::signed_header::SignedHeader {
        use prost::Message as _;
        let timestamp = tendermint::Time::from_unix_timestamp(1, 1).unwrap();
        let block_id = tendermint::block::Id {
            hash: tendermint::Hash::Sha256(block_hash),
            part_set_header: tendermint::block::parts::Header::default(),
        };
        let canonical_vote = tendermint::vote::CanonicalVote {
            vote_type: tendermint::vote::Type::Precommit,
            height: height.into(),
            round: 0u16.into(),
            block_id: Some(block_id),
            timestamp: Some(timestamp),
            chain_id: chain.try_into().unwrap(),
        };
        let message = tendermint_proto::types::CanonicalVote::from(canonical_vote).encode_length_delimited_to_vec();
        let signature = signing_key().sign(&message);
        let commit = tendermint::block::Commit {
            height: height.into(),
            round: 0u16.into(),
            block_id,
            signatures: vec![tendermint::block::CommitSig::BlockIdFlagCommit {
                validator_address: validator().address,
                timestamp,
                signature: Some(signature.to_bytes().as_ref().try_into().unwrap()),
            }],
        };
        tendermint::block::signed_header::SignedHeader::new(
            tendermint::block::Header {
                version: tendermint::block::header::Version {
                    block: 1,
                    app: 1,
                },
                chain_id: chain.try_into().unwrap(),
                height: height.into(),
                time: timestamp,
                last_block_id: None,
                last_commit_hash: None,
                data_hash: None,
                validators_hash: tendermint::Hash::Sha256([0; 32]),
                next_validators_hash: tendermint::Hash::Sha256([0; 32]),
                consensus_hash: tendermint::Hash::Sha256([0; 32]),
                app_hash: tendermint::AppHash::default(),
                last_results_hash: None,
                evidence_hash: None,
                proposer_address: validator().address,
            },
            commit,
        )
        .unwrap()
    }

    impl Env {
        pub fn new() -> Self {
            let rt = tokio::runtime::Builder::new_multi_thread().worker_threads(2).enable_all().build().unwrap();
            let server = rt.block_on(wiremock::MockServer::start());
            Env {
                rt,
                server,
                mounted: Default::default(),
            }
        }

        /// `Some((chain, hash))`: the sequencer has a commit for that height; `None`: it answers
        /// with a JSON-RPC error (which the conductor does not retry).
        pub fn mount(&mut self, height: u64, commit: Option<(&str, [u8; 32])>) {
            use serde_json::json;
            use wiremock::{
                matchers::body_partial_json,
                Mock,
                ResponseTemplate,
            };
            assert!(self.mounted.insert(height), "height {height} mounted twice");
            let h32 = u32::try_from(height).unwrap();
            self.rt.block_on(async {
                match commit {
                    Some((chain, hash)) => {
                        Mock::given(body_partial_json(json!({"method": "commit", "params": {"height": height.to_string()}})))
                            .respond_with(ResponseTemplate::new(200).set_body_json(
                                tendermint_rpc::response::Wrapper::new_with_id(
                                    tendermint_rpc::Id::uuid_v4(),
                                    Some(tendermint_rpc::endpoint::commit::Response {
                                        signed_header: signed_header(h32, chain, hash),
                                        canonical: true,
                                    }),
                                    None,
                                ),
                            ))
                            .mount(&self.server)
                            .await;
                        Mock::given(body_partial_json(json!({"method": "validators", "params": {"height": height.to_string()}})))
                            .respond_with(ResponseTemplate::new(200).set_body_json(
                                tendermint_rpc::response::Wrapper::new_with_id(
                                    tendermint_rpc::Id::uuid_v4(),
                                    Some(tendermint_rpc::endpoint::validators::Response::new(h32.into(), vec![validator()], 1)),
                                    None,
                                ),
                            ))
                            .mount(&self.server)
                            .await;
                    }
                    None => {
                        for method in ["commit", "validators"] {
                            Mock::given(body_partial_json(json!({"method": method, "params": {"height": height.to_string()}})))
                                .respond_with(ResponseTemplate::new(200).set_body_json(json!({
                                    "jsonrpc": "2.0",
                                    "id": "00000000-0000-0000-0000-000000000000",
                                    "error": {"code": -32603, "message": "Internal error", "data": "height must be less than or equal to the current blockchain height"}
                                })))
                                .mount(&self.server)
                                .await;
                        }
                    }
                }
            });
        }

        /// Runs `decode_raw_blobs → verify_metadata → reconstruct_blocks_from_verified_blobs`.
        /// Blobs: `None` = bytes that are not brotli, `(wrong_ns, entries)`.
        pub fn run(
            &self,
            rollup_id: RollupId,
            next_firm: u64,
            metas: Vec<(bool, Option<Vec<raw::SubmittedMetadata>>)>,
            blobs: Vec<(bool, Option<Vec<raw::SubmittedRollupData>>)>,
        ) -> Option<Vec<crate::celestia::ReconstructedBlock>> {
            use astria_core::brotli::compress_bytes;
            use celestia_types::{
                nmt::Namespace,
                AppVersion,
                Blob,
            };
            let seq_ns = astria_core::celestia::namespace_v0_from_sha256_of_bytes(b"verif-sequencer");
            let rollup_ns = astria_core::celestia::namespace_v0_from_rollup_id(rollup_id);
            let other_ns = astria_core::celestia::namespace_v0_from_sha256_of_bytes(b"someone-else");
            let mk = |ns: Namespace, wrong: bool, payload: Option<Vec<u8>>| {
                let data = match payload {
                    Some(p) => compress_bytes(&p).unwrap(),
                    None => vec![0xff, 0x00, 0x13, 0x37, 0xff, 0xff, 0xff, 0xff],
                };
                Blob::new(if wrong { other_ns } else { ns }, data, AppVersion::V3).unwrap()
            };
            let raw_blobs = RawBlobs {
                celestia_height: 1,
                header_blobs: metas
                    .into_iter()
                    .map(|(wrong, l)| {
                        mk(seq_ns, wrong, l.map(|entries| raw::SubmittedMetadataList { entries }.encode_to_vec()))
                    })
                    .collect(),
                rollup_blobs: blobs
                    .into_iter()
                    .map(|(wrong, l)| {
                        mk(rollup_ns, wrong, l.map(|entries| raw::SubmittedRollupDataList { entries }.encode_to_vec()))
                    })
                    .collect(),
            };
            let mut params = crate::test_utils::make_execution_session_parameters();
            params.sequencer_start_block_height = next_firm.saturating_sub(1);
            let state = crate::test_utils::make_rollup_state("verif".to_string(), params, crate::test_utils::make_commitment_state());
            let (_tx, rx) = crate::state::channel(state);
            assert_eq!(rx.next_expected_firm_sequencer_height().value(), next_firm);
            let _guard = self.rt.enter();
            let client = sequencer_client::HttpClient::new(&*self.server.uri()).unwrap();
            let verifier = Arc::new(BlobVerifier::try_new(client, 10_000).unwrap());
            let decoded = no_panic(std::panic::AssertUnwindSafe(move || decode_raw_blobs(raw_blobs, rollup_ns, seq_ns)))?;
            let verified = self.rt.block_on(verify_metadata(verifier, decoded, rx));
            no_panic(std::panic::AssertUnwindSafe(move || reconstruct_blocks_from_verified_blobs(verified, rollup_id)))
        }
    }
}

fn rec_s(mut blocks: Vec<crate::celestia::ReconstructedBlock>) -> String {
    if blocks.is_empty() {
        return ".".to_string();
    }
    blocks.sort_by_key(|b| (b.header.height().value(), b.block_hash.get()));
    blocks
        .iter()
        .map(|b| {
            format!(
                "{}:{}:{}",
                hex(b.block_hash.as_bytes()),
                hdr_s(&Some(b.header.clone().into_raw())).replace(':', "^"),
                bl(&b.transactions)
            )
        })
        .collect::<Vec<_>>()
        .join("+")
}

/// `<blob>*<blob>…` where blob = `!` (garbage) | `[^]<entry>+<entry>…` | `[^]0` (empty list)
fn blobs_tok<T>(blobs: &[(bool, Option<Vec<T>>)], f: impl Fn(&T) -> String) -> String {
    if blobs.is_empty() {
        return ".".to_string();
    }
    blobs
        .iter()
        .map(|(wrong, l)| {
            let body = match l {
                None => "!".to_string(),
                Some(es) if es.is_empty() => "0".to_string(),
                Some(es) => es.iter().map(&f).collect::<Vec<_>>().join("+"),
            };
            format!("{}{}", if *wrong { "^" } else { "" }, body)
        })
        .collect::<Vec<_>>()
        .join("*")
}

fn blobs_parse<T>(s: &str, f: impl Fn(&str) -> T) -> Vec<(bool, Option<Vec<T>>)> {
    if s == "." {
        return vec![];
    }
    s.split('*')
        .map(|b| {
            let (wrong, body) = match b.strip_prefix('^') {
                Some(r) => (true, r),
                None => (false, b),
            };
            let l = if body == "!" {
                None
            } else if body == "0" {
                Some(vec![])
            } else {
                Some(body.split('+').map(&f).collect())
            };
            (wrong, l)
        })
        .collect()
}


// ------------------------------------------------------------------------------------------
// C17: bytes -> prost -> try_from_raw for every public decode entry point
// ------------------------------------------------------------------------------------------

fn tx_signing_key() -> astria_core::crypto::SigningKey {
    astria_core::crypto::SigningKey::from([0x55u8; 32])
}

fn tx_raw_s(r: &astria_core::generated::astria::protocol::transaction::v1::Transaction) -> String {
    // the three oracles, computed independently of `Transaction::try_from_raw`
    use astria_core::{
        crypto::{
            Signature,
            VerificationKey,
        },
        protocol::transaction::v1::TransactionBody,
    };
    let key = VerificationKey::try_from(&*r.public_key).ok();
    let sig = Signature::try_from(&*r.signature).ok();
    let sig_ok = match (&key, &sig, &r.body) {
        (Some(k), Some(s), Some(b)) => k.verify(s, &b.value).is_ok(),
        _ => false,
    };
    let body_ok = match &r.body {
        Some(b) => {
            let any = b.clone();
            matches!(no_panic(move || TransactionBody::try_from_any(any).is_ok()), Some(true))
        }
        None => false,
    };
    format!(
        "sig={}&pk={}&body={}&key={}&sigok={}&bodyok={}",
        hex(&r.signature),
        hex(&r.public_key),
        match &r.body {
            None => "~".to_string(),
            Some(b) => format!("{};{}", hex(b.type_url.as_bytes()), hex(&b.value)),
        },
        u8::from(key.is_some()),
        u8::from(sig_ok),
        u8::from(body_ok),
    )
}

fn simple_kind(dbg: &str, kinds: &[&str]) -> String {
    // first identifier of the Debug rendering that is one of `kinds`
    let mut best: Option<(usize, &str)> = None;
    for k in kinds {
        if let Some(p) = dbg.find(k) {
            if best.map_or(true, |(bp, _)| p < bp) {
                best = Some((p, k));
            }
        }
    }
    best.map_or("other".to_string(), |(_, k)| k.to_string())
}

fn rollup_data_s(r: &raw::RollupData) -> String {
    match &r.value {
        None => "v=~".to_string(),
        Some(raw::rollup_data::Value::SequencedData(d)) => format!("v=seq;{}", hex(d)),
        Some(raw::rollup_data::Value::Deposit(d)) => {
            format!("v=dep;{}", u8::from(Deposit::try_from_raw(d.clone()).is_ok()))
        }
        Some(raw::rollup_data::Value::PriceFeedData(d)) => format!(
            "v=pf;{}",
            u8::from(astria_core::sequencerblock::v1::block::PriceFeedData::try_from_raw(d.clone()).is_ok())
        ),
    }
}

/// `block wire <kind> <label> <hex>`: result `prost-err` | `panic` | `raw=<dump> res=<verdict> re=<0|1>`
fn wire_exec(kind: &str, bytes: Vec<u8>) -> String {
    use astria_core::{
        generated::astria::protocol::transaction::v1 as rawtx,
        protocol::transaction::v1::Transaction,
    };
    macro_rules! decode {
        ($ty:ty) => {{
            let b = bytes.clone();
            match no_panic(move || <$ty>::decode(&*b)) {
                None => return "panic".to_string(),
                Some(Err(_)) => return "prost-err".to_string(),
                Some(Ok(r)) => r,
            }
        }};
    }
    match kind {
        "block" => {
            let r = decode!(raw::SequencerBlock);
            let res = res_full(&r);
            let re = match no_panic({
                let r = r.clone();
                move || match SequencerBlock::try_from_raw(r) {
                    Ok(v) => {
                        let raw2 = v.into_raw();
                        let again = raw::SequencerBlock::decode(&*raw2.encode_to_vec()).ok() == Some(raw2.clone());
                        let idem = SequencerBlock::try_from_raw(raw2.clone()).map(|x| x.into_raw() == raw2).unwrap_or(false);
                        again && idem
                    }
                    Err(_) => true,
                }
            }) {
                Some(b) => u8::from(b),
                None => 2,
            };
            format!("raw={} res={} re={re}", block_s(&r), res.replacen(' ', "@", 1))
        }
        "filtered" => {
            let r = decode!(raw::FilteredSequencerBlock);
            let res = res_filtered(&r);
            let re = match no_panic({
                let r = r.clone();
                move || match FilteredSequencerBlock::try_from_raw(r) {
                    Ok(v) => {
                        let raw2 = v.into_raw();
                        let again = raw::FilteredSequencerBlock::decode(&*raw2.encode_to_vec()).ok() == Some(raw2.clone());
                        let idem = FilteredSequencerBlock::try_from_raw(raw2.clone()).map(|x| x.into_raw() == raw2).unwrap_or(false);
                        again && idem
                    }
                    Err(_) => true,
                }
            }) {
                Some(b) => u8::from(b),
                None => 2,
            };
            format!("raw={} res={} re={re}", filtered_s(&r), res.replacen(' ', "@", 1))
        }
        "meta" => {
            let r = decode!(raw::SubmittedMetadata);
            let res = res_meta(&r);
            let re = match no_panic({
                let r = r.clone();
                move || match SubmittedMetadata::try_from_raw(r) {
                    Ok(v) => {
                        let raw2 = v.into_raw();
                        let again = raw::SubmittedMetadata::decode(&*raw2.encode_to_vec()).ok() == Some(raw2.clone());
                        let idem = SubmittedMetadata::try_from_raw(raw2.clone()).map(|x| x.into_raw() == raw2).unwrap_or(false);
                        again && idem
                    }
                    Err(_) => true,
                }
            }) {
                Some(b) => u8::from(b),
                None => 2,
            };
            format!("raw={} res={} re={re}", meta_s(&r), res.replacen(' ', "@", 1))
        }
        "blob" => {
            let r = decode!(raw::SubmittedRollupData);
            let res = res_blob(&r);
            let re = match no_panic({
                let r = r.clone();
                move || match SubmittedRollupData::try_from_raw(r) {
                    Ok(v) => {
                        let raw2 = v.into_raw();
                        let again = raw::SubmittedRollupData::decode(&*raw2.encode_to_vec()).ok() == Some(raw2.clone());
                        let idem = SubmittedRollupData::try_from_raw(raw2.clone()).map(|x| x.into_raw() == raw2).unwrap_or(false);
                        again && idem
                    }
                    Err(_) => true,
                }
            }) {
                Some(b) => u8::from(b),
                None => 2,
            };
            format!("raw={} res={} re={re}", blob_s(&r), res.replacen(' ', "@", 1))
        }
        "tx" => {
            let r = decode!(rawtx::Transaction);
            let dump = tx_raw_s(&r);
            let input = r.clone();
            let (res, re) = match no_panic(move || Transaction::try_from_raw(input)) {
                None => ("panic".to_string(), 2),
                Some(Err(e)) => (
                    format!(
                        "err:{}",
                        simple_kind(&format!("{e:?}"), &["UnsetBody", "Signature", "TransactionBody", "VerificationKey", "Verification("])
                            .trim_end_matches('(')
                    ),
                    1,
                ),
                Some(Ok(t)) => {
                    let raw2 = t.to_raw();
                    let same = raw2 == r;
                    let again = rawtx::Transaction::decode(&*raw2.encode_to_vec()).ok() == Some(raw2.clone());
                    let idem = Transaction::try_from_raw(raw2.clone()).map(|x| x.to_raw() == raw2).unwrap_or(false);
                    ((if same { "ok@same" } else { "ok@differs" }).to_string(), u8::from(again && idem))
                }
            };
            format!("raw={dump} res={res} re={re}")
        }
        "rollupdata" => {
            let r = decode!(raw::RollupData);
            let dump = rollup_data_s(&r);
            let input = r.clone();
            let (res, re) = match no_panic(move || RollupData::try_from_raw(input)) {
                None => ("panic".to_string(), 2),
                Some(Err(e)) => (format!("err:{}", simple_kind(&format!("{e:?}"), &["FieldNotSet", "Deposit", "PriceFeedData"])), 1),
                Some(Ok(v)) => {
                    let raw2 = v.into_raw();
                    let again = raw::RollupData::decode(&*raw2.encode_to_vec()).ok() == Some(raw2.clone());
                    let idem = RollupData::try_from_raw(raw2.clone()).map(|x| x.into_raw() == raw2).unwrap_or(false);
                    ((if raw2 == r { "ok@same" } else { "ok@differs" }).to_string(), u8::from(again && idem))
                }
            };
            format!("raw={dump} res={res} re={re}")
        }
        "hblob" | "rblob" => {
            // the conductor's own decoding of one Celestia blob (brotli + prost + list conversion)
            use astria_core::brotli::decompress_bytes;
            use celestia_types::{
                AppVersion,
                Blob,
            };
            use crate::celestia::{
                convert::decode_raw_blobs,
                fetch::RawBlobs,
            };
            let seq_ns = astria_core::celestia::namespace_v0_from_sha256_of_bytes(b"verif-sequencer");
            let rollup_ns = astria_core::celestia::namespace_v0_from_sha256_of_bytes(b"verif-rollup");
            let is_h = kind == "hblob";
            let b2 = bytes.clone();
            let Some(blob) = no_panic(move || Blob::new(if is_h { seq_ns } else { rollup_ns }, b2, AppVersion::V3).ok()).flatten() else {
                return "not-a-blob".to_string();
            };
            // what the list looks like after decompression and prost (input of the model)
            let b3 = bytes.clone();
            let listed: Option<String> = match no_panic(move || decompress_bytes(&b3).ok()) {
                None => return "panic".to_string(),
                Some(None) => None,
                Some(Some(data)) => {
                    if is_h {
                        match no_panic(move || raw::SubmittedMetadataList::decode(&*data).ok()) {
                            None => return "panic".to_string(),
                            Some(l) => l.map(|l| if l.entries.is_empty() { "0".to_string() } else { l.entries.iter().map(meta_s).collect::<Vec<_>>().join("+") }),
                        }
                    } else {
                        match no_panic(move || raw::SubmittedRollupDataList::decode(&*data).ok()) {
                            None => return "panic".to_string(),
                            Some(l) => l.map(|l| if l.entries.is_empty() { "0".to_string() } else { l.entries.iter().map(blob_s).collect::<Vec<_>>().join("+") }),
                        }
                    }
                }
            };
            let raw_blobs = RawBlobs {
                celestia_height: 1,
                header_blobs: if is_h { vec![blob.clone()] } else { vec![] },
                rollup_blobs: if is_h { vec![] } else { vec![blob] },
            };
            let res = match no_panic(std::panic::AssertUnwindSafe(move || decode_raw_blobs(raw_blobs, rollup_ns, seq_ns))) {
                None => "panic".to_string(),
                Some(conv) => {
                    let (_, metas, blobs) = conv.into_parts();
                    let items: Vec<String> = if is_h {
                        metas.into_iter().map(|m| meta_s(&m.into_raw())).collect()
                    } else {
                        blobs.into_iter().map(|b| blob_s(&b.into_raw())).collect()
                    };
                    if items.is_empty() { "0".to_string() } else { format!("{}:{}", items.len(), items.join("+")) }
                }
            };
            format!("raw={} res={res} re=1", listed.unwrap_or_else(|| "!".to_string()))
        }
        other => format!("bad-kind:{other}"),
    }
}

fn byte_mutations(rng: &mut Rng, b: &[u8], budget: usize) -> Vec<(String, Vec<u8>)> {
    let mut out: Vec<(String, Vec<u8>)> = vec![];
    let n = b.len();
    if n == 0 {
        return out;
    }
    let mut cuts: Vec<usize> = vec![0, 1, 2, n - 1, n.saturating_sub(2)];
    for k in 1..budget {
        cuts.push(k * n / budget);
    }
    cuts.sort_unstable();
    cuts.dedup();
    for c in cuts {
        if c < n {
            out.push((format!("trunc:{c}"), b[..c].to_vec()));
        }
    }
    for _ in 0..budget {
        let i = rng.below(n as u64) as usize;
        let mut v = b.to_vec();
        v[i] ^= 1 << rng.below(8);
        out.push((format!("bitflip:{i}"), v));
    }
    for _ in 0..budget / 2 {
        let i = rng.below(n as u64) as usize;
        let mut v = b.to_vec();
        v.remove(i);
        out.push((format!("del:{i}"), v));
        let mut v = b.to_vec();
        v.insert(i, rng.next() as u8);
        out.push((format!("ins:{i}"), v));
        let mut v = b.to_vec();
        v[i] = *rng.pick(&[0x00u8, 0x7f, 0x80, 0xff]);
        out.push((format!("set:{i}"), v));
    }
    let mut v = b.to_vec();
    v.extend_from_slice(b);
    out.push(("twice".to_string(), v));
    let mut v = b.to_vec();
    v.extend_from_slice(&[0xc0, 0x3e, 0x01]); // unknown field 1000, varint 1
    out.push(("unknown-field".to_string(), v));
    let mut v = b.to_vec();
    v.extend_from_slice(&[0x0a, 0xff, 0xff, 0xff, 0xff, 0xff, 0xff, 0xff, 0xff, 0xff, 0x01]); // field 1, length 2^64-1
    out.push(("huge-length".to_string(), v));
    let mut v = b.to_vec();
    v.extend_from_slice(&[0x0a, 0xff, 0xff, 0xff, 0xff, 0xff, 0xff, 0xff, 0xff, 0xff, 0xff, 0x01]); // 11-byte varint
    out.push(("varint-overflow".to_string(), v));
    out
}

fn gen_wire(rng: &mut Rng, ex: &mut Exec, trace: &mut Trace, honest: &raw::SequencerBlock, filtered: &raw::FilteredSequencerBlock, meta: &raw::SubmittedMetadata, blobs: &[raw::SubmittedRollupData], n: u64) {
    use astria_core::{
        brotli::compress_bytes,
        protocol::transaction::v1::{
            action::RollupDataSubmission,
            TransactionBody,
        },
    };
    let budget = if common::is_thorough() { 24 } else { 8 };
    let mut emit = |kind: &str, label: &str, bytes: &[u8]| {
        trace.line(&ex.exec(&format!("block wire {kind} {label} {}", hex(bytes))));
    };
    // ---- structure-aware mutations at the raw level, then through the wire ----
    let mut cases: Vec<(String, raw::SequencerBlock)> = vec![("honest".to_string(), honest.clone())];
    for (i, (name, rts)) in mut_rts(&honest.rollup_transactions, rng).into_iter().enumerate() {
        if i % 5 == (n as usize) % 5 {
            let mut x = honest.clone();
            x.rollup_transactions = rts;
            cases.push((name, x));
        }
    }
    for (i, (name, tp, ip)) in mut_common_proofs(&honest.rollup_transactions_proof, &honest.rollup_ids_proof).into_iter().enumerate() {
        if i % 4 == (n as usize) % 4 {
            let mut x = honest.clone();
            x.rollup_transactions_proof = tp;
            x.rollup_ids_proof = ip;
            cases.push((name, x));
        }
    }
    for (i, (name, h)) in mut_header(&honest.header).into_iter().enumerate() {
        if i % 4 == (n as usize) % 4 {
            let mut x = honest.clone();
            x.header = h;
            cases.push((name, x));
        }
    }
    for (name, x) in &cases {
        emit("block", name, &x.encode_to_vec());
    }
    for (name, m) in byte_mutations(rng, &honest.encode_to_vec(), budget) {
        emit("block", &name, &m);
    }
    emit("filtered", "honest", &filtered.encode_to_vec());
    for (i, (name, ids)) in mut_ids(&filtered.all_rollup_ids).into_iter().enumerate() {
        if i % 3 == (n as usize) % 3 {
            let mut x = filtered.clone();
            x.all_rollup_ids = ids;
            emit("filtered", &name, &x.encode_to_vec());
        }
    }
    for (i, (name, rts)) in mut_rts(&filtered.rollup_transactions, rng).into_iter().enumerate() {
        if i % 6 == (n as usize) % 6 {
            let mut x = filtered.clone();
            x.rollup_transactions = rts;
            emit("filtered", &name, &x.encode_to_vec());
        }
    }
    for (name, m) in byte_mutations(rng, &filtered.encode_to_vec(), budget) {
        emit("filtered", &name, &m);
    }
    emit("meta", "honest", &meta.encode_to_vec());
    for (i, (name, tp, ip)) in mut_common_proofs(&meta.rollup_transactions_proof, &meta.rollup_ids_proof).into_iter().enumerate() {
        if i % 3 == (n as usize) % 3 {
            let mut x = meta.clone();
            x.rollup_transactions_proof = tp;
            x.rollup_ids_proof = ip;
            emit("meta", &name, &x.encode_to_vec());
        }
    }
    for (name, m) in byte_mutations(rng, &meta.encode_to_vec(), budget) {
        emit("meta", &name, &m);
    }
    if let Some(b) = blobs.first() {
        emit("blob", "honest", &b.encode_to_vec());
        for (how, name) in PROOF_MUTS {
            let mut x = b.clone();
            x.proof = mut_proof(&b.proof, *how);
            emit("blob", &format!("proof-{name}"), &x.encode_to_vec());
        }
        for (name, m) in byte_mutations(rng, &b.encode_to_vec(), budget) {
            emit("blob", &name, &m);
        }
        // rollup data entries (what the rollup node decodes)
        for (k, tx) in b.transactions.iter().take(3).enumerate() {
            emit("rollupdata", &format!("honest:{k}"), tx);
            for (name, m) in byte_mutations(rng, tx, budget / 2) {
                emit("rollupdata", &name, &m);
            }
        }
    }
    emit("rollupdata", "empty", &[]);
    // ---- Celestia blobs as the conductor decodes them ----
    let hlist = raw::SubmittedMetadataList {
        entries: vec![meta.clone()],
    }
    .encode_to_vec();
    let hcomp = compress_bytes(&hlist).unwrap();
    emit("hblob", "honest", &hcomp);
    emit("hblob", "uncompressed", &hlist);
    let mut bad = meta.clone();
    bad.rollup_ids_proof = None;
    emit("hblob", "one-bad-entry", &compress_bytes(&raw::SubmittedMetadataList { entries: vec![meta.clone(), bad] }.encode_to_vec()).unwrap());
    emit("hblob", "empty-list", &compress_bytes(&[]).unwrap());
    for (name, m) in byte_mutations(rng, &hcomp, budget) {
        emit("hblob", &name, &m);
    }
    for (name, m) in byte_mutations(rng, &hlist, budget / 2) {
        emit("hblob", &format!("inner-{name}"), &compress_bytes(&m).unwrap());
    }
    let rlist = raw::SubmittedRollupDataList {
        entries: blobs.to_vec(),
    }
    .encode_to_vec();
    let rcomp = compress_bytes(&rlist).unwrap();
    emit("rblob", "honest", &rcomp);
    for (name, m) in byte_mutations(rng, &rcomp, budget) {
        emit("rblob", &name, &m);
    }
    for (name, m) in byte_mutations(rng, &rlist, budget / 2) {
        emit("rblob", &format!("inner-{name}"), &compress_bytes(&m).unwrap());
    }
    // ---- transactions ----
    let key = tx_signing_key();
    let data_len = rng.below(40) as usize + 1;
    let body = TransactionBody::builder()
        .actions(vec![RollupDataSubmission {
            rollup_id: RollupId::new([n as u8; 32]),
            data: Bytes::from(rng.bytes(data_len)),
            fee_asset: "nria".parse().unwrap(),
        }
        .into()])
        .chain_id("verif-chain".to_string())
        .nonce(n as u32)
        .try_build()
        .unwrap();
    let tx = body.sign(&key);
    let rawtx = tx.to_raw();
    let txb = rawtx.encode_to_vec();
    emit("tx", "honest", &txb);
    // structure-aware
    let mut x = rawtx.clone();
    x.body = None;
    emit("tx", "body-unset", &x.encode_to_vec());
    let mut x = rawtx.clone();
    x.signature = flip(&x.signature, 3);
    emit("tx", "sig-flip", &x.encode_to_vec());
    let mut x = rawtx.clone();
    x.signature = x.signature.slice(..63);
    emit("tx", "sig-63", &x.encode_to_vec());
    let mut x = rawtx.clone();
    x.public_key = flip(&x.public_key, 3);
    emit("tx", "key-flip", &x.encode_to_vec());
    let mut x = rawtx.clone();
    x.public_key = x.public_key.slice(..31);
    emit("tx", "key-31", &x.encode_to_vec());
    let mut x = rawtx.clone();
    x.public_key = Bytes::from(tx_signing_key_other().verification_key().to_bytes().to_vec());
    emit("tx", "key-other", &x.encode_to_vec());
    let mut x = rawtx.clone();
    x.body.as_mut().unwrap().value = flip(&x.body.as_ref().unwrap().value, 5);
    emit("tx", "body-flip", &x.encode_to_vec());
    let mut x = rawtx.clone();
    x.body.as_mut().unwrap().type_url = "/astria.protocol.transaction.v1.Other".to_string();
    emit("tx", "type-url-other", &x.encode_to_vec());
    // validly signed garbage / bodies that violate the body's own rules
    for (name, value) in [
        ("signed-garbage", rng.bytes(20)),
        ("signed-empty", vec![]),
        ("signed-truncated-body", rawtx.body.as_ref().unwrap().value[..rawtx.body.as_ref().unwrap().value.len() / 2].to_vec()),
    ] {
        let mut x = rawtx.clone();
        x.signature = Bytes::from(key.sign(&value).to_bytes().to_vec());
        x.body.as_mut().unwrap().value = value.into();
        emit("tx", name, &x.encode_to_vec());
    }
    for (name, m) in byte_mutations(rng, &txb, budget) {
        emit("tx", &name, &m);
    }
}

fn tx_signing_key_other() -> astria_core::crypto::SigningKey {
    astria_core::crypto::SigningKey::from([0x56u8; 32])
}

struct Session {
    block: Option<SequencerBlock>,
}

struct Exec {
    env: Option<pipeline::Env>,
    session: Session,
}

impl Exec {
    fn env(&mut self) -> &mut pipeline::Env {
        if self.env.is_none() {
            self.env = Some(pipeline::Env::new());
        }
        self.env.as_mut().unwrap()
    }

    /// Executes one op (the text before ` => `), returns the full line.
    fn exec(&mut self, op: &str) -> String {
        let t: Vec<&str> = op.split(' ').filter(|x| !x.is_empty()).collect();
        assert_eq!(t[0], "block");
        let res = match t[1] {
            "reset" => {
                let spec = spec_p(t[2]);
                let s2 = spec.clone();
                match no_panic(move || build(&s2)) {
                    None => {
                        self.session.block = None;
                        "panic".to_string()
                    }
                    Some(Err(k)) => {
                        self.session.block = None;
                        format!("err:{k}")
                    }
                    Some(Ok(b)) => {
                        let r = block_s(&b.clone().into_raw());
                        self.session.block = Some(b);
                        format!("ok {r}")
                    }
                }
            }
            "full" => res_full(&block_p(t[3])),
            "filtered" => res_filtered(&filtered_p(t[3])),
            "meta" => res_meta(&meta_p(t[3])),
            "blob" => res_blob(&blob_p(t[3])),
            "filter" => match &self.session.block {
                None => "no-block".to_string(),
                Some(b) => {
                    let ids: Vec<RollupId> = ids_p(t[2]).iter().map(|i| RollupId::new(arr32(&i.inner))).collect();
                    let a = filtered_s(&b.to_filtered_block(ids.clone()).into_raw());
                    let c = filtered_s(&b.clone().into_filtered_block(ids).into_raw());
                    if a == c {
                        a
                    } else {
                        format!("to/into-differ {a} {c}")
                    }
                }
            },
            "split" => match &self.session.block {
                None => "no-block".to_string(),
                Some(b) => {
                    let (m, rs) = b.clone().split_for_celestia();
                    let mut s = meta_s(&m.into_raw());
                    for r in rs {
                        s.push_str(" # ");
                        s.push_str(&blob_s(&r.into_raw()));
                    }
                    s
                }
            },
            "celestia" => {
                // block celestia <label> cfg=<rollup id>:<next firm> commits=<h:chainhex:hash|h:~,…> M=<…> R=<…>
                let f: HashMap<&str, &str> = t[3..].iter().filter_map(|kv| kv.split_once('=')).collect();
                let (rid, nf) = f["cfg"].split_once(':').unwrap();
                let rollup_id = RollupId::new(arr32(&unhex(rid)));
                let next_firm: u64 = nf.parse().unwrap();
                let commits: Vec<(u64, Option<(String, [u8; 32])>)> = if f["commits"] == "." {
                    vec![]
                } else {
                    f["commits"]
                        .split(',')
                        .map(|c| {
                            let v: Vec<&str> = c.split(':').collect();
                            let h: u64 = v[0].parse().unwrap();
                            if v[1] == "~" {
                                (h, None)
                            } else {
                                (h, Some((String::from_utf8(unhex(v[1])).unwrap(), arr32(&unhex(v[2])))))
                            }
                        })
                        .collect()
                };
                let metas = blobs_parse(f["M"], meta_p);
                let blobs = blobs_parse(f["R"], blob_p);
                let env = self.env();
                for (h, c) in &commits {
                    if !env.mounted.contains(h) {
                        env.mount(*h, c.as_ref().map(|(a, b)| (a.as_str(), *b)));
                    }
                }
                match env.run(rollup_id, next_firm, metas, blobs) {
                    None => "panic".to_string(),
                    Some(blocks) => rec_s(blocks),
                }
            }
            "wire" => wire_exec(t[2], unhex(t[4])),
            other => format!("bad-op:{other}"),
        };
        format!("{op} => {res}")
    }
}

// ------------------------------------------------------------------------------------------
// generation
// ------------------------------------------------------------------------------------------

fn mut_proof(p: &Option<rawp::Proof>, how: u8) -> Option<rawp::Proof> {
    let mut q = p.clone()?;
    match how {
        0 => q.audit_path = flip(&q.audit_path, 7), // also turns an empty path into 1 byte
        1 => q.leaf_index += 1,
        2 => q.tree_size += 2,
        3 => {
            let mut v = q.audit_path.to_vec();
            v.extend_from_slice(&[0x5a; 32]);
            q.audit_path = v.into();
        }
        4 => {
            let v = q.audit_path.to_vec();
            q.audit_path = v[..v.len().saturating_sub(32)].to_vec().into();
        }
        5 => q.tree_size = 0,
        6 => q.leaf_index = u64::MAX,
        7 => q.tree_size += 1,
        8 => {
            let mut v = q.audit_path.to_vec();
            v.push(0);
            q.audit_path = v.into();
        }
        _ => return None,
    }
    Some(q)
}

const PROOF_MUTS: &[(u8, &str)] = &[
    (0, "flip"),
    (1, "index"),
    (2, "size"),
    (3, "extend"),
    (4, "truncate"),
    (5, "zero-size"),
    (6, "max-index"),
    (7, "even-size"),
    (8, "plus-byte"),
    (9, "unset"),
];

fn mut_header(h: &Option<raw::SequencerBlockHeader>) -> Vec<(String, Option<raw::SequencerBlockHeader>)> {
    let mut out = vec![("hd-unset".to_string(), None)];
    let Some(h) = h else { return out };
    let mut e = |name: &str, f: &dyn Fn(&mut raw::SequencerBlockHeader)| {
        let mut x = h.clone();
        f(&mut x);
        out.push((name.to_string(), Some(x)));
    };
    e("hd-root-flip", &|x| x.rollup_transactions_root = flip(&x.rollup_transactions_root, 3));
    e("hd-root-31", &|x| x.rollup_transactions_root = x.rollup_transactions_root.slice(..31));
    e("hd-datahash-flip", &|x| x.data_hash = flip(&x.data_hash, 9));
    e("hd-datahash-33", &|x| {
        let mut v = x.data_hash.to_vec();
        v.push(1);
        x.data_hash = v.into();
    });
    e("hd-chain-empty", &|x| x.chain_id = String::new());
    e("hd-chain-50", &|x| x.chain_id = "a".repeat(50));
    e("hd-chain-51", &|x| x.chain_id = "a".repeat(51));
    e("hd-chain-char", &|x| x.chain_id = "bad chain".to_string());
    e("hd-chain-other", &|x| x.chain_id = "Other_chain-1.0".to_string());
    e("hd-height-max", &|x| x.height = i64::MAX as u64);
    e("hd-height-over", &|x| x.height = i64::MAX as u64 + 1);
    e("hd-height-0", &|x| x.height = 0);
    e("hd-time-unset", &|x| x.time = None);
    e("hd-nanos-neg", &|x| x.time.as_mut().unwrap().nanos = -1);
    e("hd-nanos-max", &|x| x.time.as_mut().unwrap().nanos = 999_999_999);
    e("hd-nanos-over", &|x| x.time.as_mut().unwrap().nanos = 1_000_000_000);
    e("hd-secs-min", &|x| x.time.as_mut().unwrap().seconds = -62_135_596_800);
    e("hd-secs-under", &|x| x.time.as_mut().unwrap().seconds = -62_135_596_801);
    e("hd-secs-max", &|x| x.time.as_mut().unwrap().seconds = 253_402_300_799);
    e("hd-secs-over", &|x| x.time.as_mut().unwrap().seconds = 253_402_300_800);
    e("hd-secs-i64min", &|x| x.time.as_mut().unwrap().seconds = i64::MIN);
    e("hd-secs-i64max", &|x| x.time.as_mut().unwrap().seconds = i64::MAX);
    e("hd-proposer-19", &|x| x.proposer_address = x.proposer_address.slice(..19));
    out
}

fn fresh_id() -> rawp::RollupId {
    rawp::RollupId {
        inner: Bytes::from(vec![0xee; 32]),
    }
}

/// Every single-element tampering of the per-rollup entries.
fn mut_rts(rts: &[raw::RollupTransactions], rng: &mut Rng) -> Vec<(String, Vec<raw::RollupTransactions>)> {
    let mut out = vec![];
    for r in 0..rts.len() {
        let e = &rts[r];
        let mut push = |name: String, x: raw::RollupTransactions| {
            let mut v = rts.to_vec();
            v[r] = x;
            out.push((name, v));
        };
        for i in 0..e.transactions.len() {
            let mut x = e.clone();
            x.transactions[i] = flip(&x.transactions[i], rng.below(64) as usize);
            push(format!("tx-alter:{r}:{i}"), x);
        }
        if e.transactions.len() >= 2 {
            let mut x = e.clone();
            let n = x.transactions.len();
            x.transactions.swap(0, n - 1);
            push(format!("tx-reorder:{r}"), x);
            let mut x = e.clone();
            x.transactions.remove(0);
            push(format!("tx-drop-first:{r}"), x);
        }
        if !e.transactions.is_empty() {
            let mut x = e.clone();
            x.transactions.pop();
            push(format!("tx-truncate:{r}"), x);
            let mut x = e.clone();
            let last = x.transactions.last().unwrap().clone();
            x.transactions.push(last);
            push(format!("tx-extend-dup:{r}"), x);
        }
        let mut x = e.clone();
        x.transactions.push(Bytes::from(vec![0x0a, 0x01, 0x99]));
        push(format!("tx-extend-new:{r}"), x);
        let mut x = e.clone();
        x.transactions.insert(0, Bytes::new());
        push(format!("tx-prepend-empty:{r}"), x);
        for (how, name) in PROOF_MUTS {
            let mut x = e.clone();
            x.proof = mut_proof(&e.proof, *how);
            push(format!("rtproof-{name}:{r}"), x);
        }
        let mut x = e.clone();
        x.rollup_id = Some(fresh_id());
        push(format!("id-reattr-fresh:{r}"), x);
        let mut x = e.clone();
        x.rollup_id = None;
        push(format!("id-unset:{r}"), x);
        let mut x = e.clone();
        x.rollup_id = Some(rawp::RollupId {
            inner: e.rollup_id.as_ref().unwrap().inner.slice(..31),
        });
        push(format!("id-31:{r}"), x);
        let mut x = e.clone();
        x.rollup_id = Some(rawp::RollupId {
            inner: flip(&e.rollup_id.as_ref().unwrap().inner, 31),
        });
        push(format!("id-flip:{r}"), x);
        if rts.len() >= 2 {
            let o = (r + 1) % rts.len();
            let mut x = e.clone();
            x.rollup_id = rts[o].rollup_id.clone();
            push(format!("id-reattr-other:{r}"), x);
            let mut x = e.clone();
            x.proof = rts[o].proof.clone();
            push(format!("rtproof-other:{r}"), x);
        }
        // list-level edits
        let mut v = rts.to_vec();
        v.remove(r);
        out.push((format!("rt-remove:{r}"), v));
        let mut v = rts.to_vec();
        v.insert(r, rts[r].clone());
        out.push((format!("rt-dup:{r}"), v));
        if r + 1 < rts.len() {
            let mut v = rts.to_vec();
            v.swap(r, r + 1);
            out.push((format!("rt-reorder:{r}"), v));
            // exchange the ids of two entries (data re-attributed both ways)
            let mut v = rts.to_vec();
            let a = v[r].rollup_id.clone();
            v[r].rollup_id = v[r + 1].rollup_id.clone();
            v[r + 1].rollup_id = a;
            out.push((format!("id-exchange:{r}"), v));
        }
    }
    let mut v = rts.to_vec();
    v.push(raw::RollupTransactions {
        rollup_id: Some(fresh_id()),
        transactions: vec![Bytes::from(vec![0x0a, 0x00])],
        proof: rts.first().and_then(|r| r.proof.clone()).or(Some(rawp::Proof {
            audit_path: Bytes::new(),
            leaf_index: 0,
            tree_size: 1,
        })),
    });
    out.push(("rt-add".to_string(), v));
    out
}

fn mut_common_proofs(
    tp: &Option<rawp::Proof>,
    ip: &Option<rawp::Proof>,
) -> Vec<(String, Option<rawp::Proof>, Option<rawp::Proof>)> {
    let mut out = vec![];
    for (how, name) in PROOF_MUTS {
        out.push((format!("txsproof-{name}"), mut_proof(tp, *how), ip.clone()));
        out.push((format!("idsproof-{name}"), tp.clone(), mut_proof(ip, *how)));
    }
    out.push(("proofs-swapped".to_string(), ip.clone(), tp.clone()));
    out
}

fn mut_ids(ids: &[rawp::RollupId]) -> Vec<(String, Vec<rawp::RollupId>)> {
    let mut out = vec![];
    for r in 0..ids.len() {
        let mut v = ids.to_vec();
        v.remove(r);
        out.push((format!("ids-remove:{r}"), v));
        let mut v = ids.to_vec();
        v[r] = rawp::RollupId {
            inner: flip(&v[r].inner, 0),
        };
        out.push((format!("ids-flip:{r}"), v));
        let mut v = ids.to_vec();
        v[r] = rawp::RollupId {
            inner: v[r].inner.slice(..31),
        };
        out.push((format!("ids-31:{r}"), v));
        if r + 1 < ids.len() {
            let mut v = ids.to_vec();
            v.swap(r, r + 1);
            out.push((format!("ids-reorder:{r}"), v));
        }
        let mut v = ids.to_vec();
        v.insert(r, ids[r].clone());
        out.push((format!("ids-dup:{r}"), v));
    }
    let mut v = ids.to_vec();
    v.push(fresh_id());
    out.push(("ids-add".to_string(), v));
    out
}

fn mut_misc(
    uch: &[Bytes],
    eci: &Option<raw::ExtendedCommitInfoWithProof>,
    tp: &Option<rawp::Proof>,
) -> Vec<(String, Vec<Bytes>, Option<raw::ExtendedCommitInfoWithProof>)> {
    let mut out = vec![];
    let mut v = uch.to_vec();
    v.push(Bytes::from(vec![7u8; 31]));
    out.push(("uch-add-31".to_string(), v, eci.clone()));
    let mut v = uch.to_vec();
    v.push(Bytes::from(vec![7u8; 32]));
    out.push(("uch-add-32".to_string(), v, eci.clone()));
    match eci {
        Some(e) => {
            out.push(("eci-remove".to_string(), uch.to_vec(), None));
            let mut x = e.clone();
            x.extended_commit_info = flip(&x.extended_commit_info, 1);
            out.push(("eci-info-flip".to_string(), uch.to_vec(), Some(x)));
            for (how, name) in PROOF_MUTS {
                let mut x = e.clone();
                x.proof = mut_proof(&e.proof, *how);
                out.push((format!("eci-proof-{name}"), uch.to_vec(), Some(x)));
            }
        }
        None => {
            out.push((
                "eci-add".to_string(),
                uch.to_vec(),
                Some(raw::ExtendedCommitInfoWithProof {
                    extended_commit_info: Bytes::new(),
                    proof: tp.clone(),
                }),
            ));
        }
    }
    out
}

fn subsets_upto4(pool: &[rawp::RollupId]) -> Vec<Vec<rawp::RollupId>> {
    let n = pool.len();
    let mut out = vec![];
    for mask in 0u32..(1 << n) {
        if mask.count_ones() <= 4 {
            out.push((0..n).filter(|i| mask & (1 << i) != 0).map(|i| pool[i].clone()).collect());
        }
    }
    out
}

fn generate(rng: &mut Rng, ex: &mut Exec, trace: &mut Trace) {
    let env_u64 = |k: &str| std::env::var(k).ok().and_then(|v| v.parse::<u64>().ok());
    let sessions = env_u64("VERIF_SESSIONS").unwrap_or(if common::is_thorough() { 80 } else { 36 });
    // (corpus lines were generated with VERIF_HEIGHT_BASE=2 and use heights below 10)
    let base = env_u64("VERIF_HEIGHT_BASE").unwrap_or(10) as u32;
    for n in 0..sessions {
        // heights are unique per session so that the conductor's per-height cache never serves
        // another session's commit
        let height = base + 4 * n as u32;
        let mut spec = gen_spec(rng, n, height);
        // dishonest / mistaken commitments in block.data
        let mode = rng.below(12);
        if mode == 0 {
            spec.r1 = arr32(&flip(&Bytes::copy_from_slice(&spec.r1), 5));
        } else if mode == 1 {
            spec.r2 = arr32(&flip(&Bytes::copy_from_slice(&spec.r2), 5));
        } else if mode == 2 {
            std::mem::swap(&mut spec.r1, &mut spec.r2);
        }
        trace.line(&ex.exec(&format!("block reset {}", spec_s(&spec))));
        let Some(block) = ex.session.block.clone() else { continue };
        let honest = block.clone().into_raw();
        let light = n % 3 != 0 && !common::is_thorough(); // full tamper sweep on every third session in the quick tier

        // ---- full block through raw protobuf ----
        trace.line(&ex.exec(&format!("block full honest {}", block_s(&honest))));
        let mut cases: Vec<(String, raw::SequencerBlock)> = vec![];
        for (name, rts) in mut_rts(&honest.rollup_transactions, rng) {
            let mut x = honest.clone();
            x.rollup_transactions = rts;
            cases.push((name, x));
        }
        for (name, h) in mut_header(&honest.header) {
            let mut x = honest.clone();
            x.header = h;
            cases.push((name, x));
        }
        for (name, tp, ip) in mut_common_proofs(&honest.rollup_transactions_proof, &honest.rollup_ids_proof) {
            let mut x = honest.clone();
            x.rollup_transactions_proof = tp;
            x.rollup_ids_proof = ip;
            cases.push((name, x));
        }
        for (name, uch, eci) in mut_misc(&honest.upgrade_change_hashes, &honest.extended_commit_info_with_proof, &honest.rollup_transactions_proof) {
            let mut x = honest.clone();
            x.upgrade_change_hashes = uch;
            x.extended_commit_info_with_proof = eci;
            cases.push((name, x));
        }
        let mut x = honest.clone();
        x.block_hash = flip(&x.block_hash, 0);
        cases.push(("bh-flip".to_string(), x));
        let mut x = honest.clone();
        x.block_hash = x.block_hash.slice(..31);
        cases.push(("bh-31".to_string(), x));
        for (i, (name, x)) in cases.iter().enumerate() {
            if light && i % 4 != (n as usize) % 4 {
                continue;
            }
            trace.line(&ex.exec(&format!("block full {name} {}", block_s(x))));
        }

        // ---- filtered blocks: every subset of at most 4 ids out of (present ∪ one absent) ----
        let mut pool: Vec<rawp::RollupId> = honest.rollup_transactions.iter().take(5).map(|r| r.rollup_id.clone().unwrap()).collect();
        pool.push(fresh_id());
        let subsets = subsets_upto4(&pool);
        for (k, sub) in subsets.iter().enumerate() {
            let mut req = sub.clone();
            if k % 3 == 1 {
                req.reverse();
            }
            if k % 7 == 3 && !req.is_empty() {
                req.push(req[0].clone()); // requested twice
            }
            let line = ex.exec(&format!("block filter {}", ids_s(&req)));
            let dump = line.split(" => ").nth(1).unwrap().to_string();
            trace.line(&line);
            let f = filtered_p(&dump);
            trace.line(&ex.exec(&format!("block filtered honest {}", filtered_s(&f))));
            // tamper sweep on a few of the subsets
            if k % 5 == (n as usize) % 5 || (sub.len() == pool.len().min(4) && k % 2 == 0) {
                let mut fc: Vec<(String, raw::FilteredSequencerBlock)> = vec![];
                for (name, rts) in mut_rts(&f.rollup_transactions, rng) {
                    let mut x = f.clone();
                    x.rollup_transactions = rts;
                    fc.push((name, x));
                }
                for (name, ids) in mut_ids(&f.all_rollup_ids) {
                    let mut x = f.clone();
                    x.all_rollup_ids = ids;
                    fc.push((name, x));
                }
                for (name, tp, ip) in mut_common_proofs(&f.rollup_transactions_proof, &f.rollup_ids_proof) {
                    let mut x = f.clone();
                    x.rollup_transactions_proof = tp;
                    x.rollup_ids_proof = ip;
                    fc.push((name, x));
                }
                for (name, h) in mut_header(&f.header) {
                    let mut x = f.clone();
                    x.header = h;
                    fc.push((name, x));
                }
                for (name, uch, eci) in mut_misc(&f.upgrade_change_hashes, &f.extended_commit_info_with_proof, &f.rollup_transactions_proof) {
                    let mut x = f.clone();
                    x.upgrade_change_hashes = uch;
                    x.extended_commit_info_with_proof = eci;
                    fc.push((name, x));
                }
                let mut x = f.clone();
                x.block_hash = x.block_hash.slice(..31);
                fc.push(("bh-31".to_string(), x));
                for (i, (name, x)) in fc.iter().enumerate() {
                    if light && i % 6 != k % 6 {
                        continue;
                    }
                    trace.line(&ex.exec(&format!("block filtered {name} {}", filtered_s(x))));
                }
            }
        }

        // ---- celestia form ----
        let line = ex.exec("block split");
        let dump = line.split(" => ").nth(1).unwrap().to_string();
        trace.line(&line);
        let mut parts = dump.split(" # ");
        let meta = meta_p(parts.next().unwrap());
        let blobs: Vec<raw::SubmittedRollupData> = parts.map(blob_p).collect();
        trace.line(&ex.exec(&format!("block meta honest {}", meta_s(&meta))));
        let mut mc: Vec<(String, raw::SubmittedMetadata)> = vec![];
        for (name, ids) in mut_ids(&meta.rollup_ids) {
            let mut x = meta.clone();
            x.rollup_ids = ids;
            mc.push((name, x));
        }
        for (name, tp, ip) in mut_common_proofs(&meta.rollup_transactions_proof, &meta.rollup_ids_proof) {
            let mut x = meta.clone();
            x.rollup_transactions_proof = tp;
            x.rollup_ids_proof = ip;
            mc.push((name, x));
        }
        for (name, h) in mut_header(&meta.header) {
            let mut x = meta.clone();
            x.header = h;
            mc.push((name, x));
        }
        for (name, uch, eci) in mut_misc(&meta.upgrade_change_hashes, &meta.extended_commit_info_with_proof, &meta.rollup_transactions_proof) {
            let mut x = meta.clone();
            x.upgrade_change_hashes = uch;
            x.extended_commit_info_with_proof = eci;
            mc.push((name, x));
        }
        let mut x = meta.clone();
        x.block_hash = x.block_hash.slice(..31);
        mc.push(("bh-31".to_string(), x));
        let mut x = meta.clone();
        x.block_hash = flip(&x.block_hash, 2);
        mc.push(("bh-flip".to_string(), x));
        for (i, (name, x)) in mc.iter().enumerate() {
            if light && i % 4 != (n as usize) % 4 {
                continue;
            }
            trace.line(&ex.exec(&format!("block meta {name} {}", meta_s(x))));
        }
        for b in &blobs {
            trace.line(&ex.exec(&format!("block blob honest {}", blob_s(b))));
        }
        if let Some(b) = blobs.first() {
            let mut bc: Vec<(String, raw::SubmittedRollupData)> = vec![];
            for (how, name) in PROOF_MUTS {
                let mut x = b.clone();
                x.proof = mut_proof(&b.proof, *how);
                bc.push((format!("proof-{name}"), x));
            }
            let mut x = b.clone();
            x.rollup_id = None;
            bc.push(("id-unset".to_string(), x));
            let mut x = b.clone();
            x.rollup_id = Some(rawp::RollupId {
                inner: b.rollup_id.as_ref().unwrap().inner.slice(..31),
            });
            bc.push(("id-31".to_string(), x));
            let mut x = b.clone();
            x.sequencer_block_hash = x.sequencer_block_hash.slice(..31);
            bc.push(("bh-31".to_string(), x));
            // several defects at once: which error comes first
            let mut x = b.clone();
            x.rollup_id = None;
            x.sequencer_block_hash = Bytes::new();
            x.proof = None;
            bc.push(("all-bad".to_string(), x));
            let mut x = b.clone();
            x.sequencer_block_hash = Bytes::new();
            x.proof = None;
            bc.push(("bh-and-proof-bad".to_string(), x));
            for (name, x) in &bc {
                trace.line(&ex.exec(&format!("block blob {name} {}", blob_s(x))));
            }
        }

        // ---- the conductor ----
        gen_celestia(rng, ex, trace, &spec, &meta, &blobs, n);

        // ---- C17: the same values through the wire, with byte-level mutations ----
        let req: Vec<RollupId> = honest.rollup_transactions.iter().take(2).map(|r| RollupId::new(arr32(&r.rollup_id.as_ref().unwrap().inner))).collect();
        let filtered = block.to_filtered_block(req).into_raw();
        gen_wire(rng, ex, trace, &honest, &filtered, &meta, &blobs, n);
    }
}

fn cel_line(
    label: &str,
    rid: &[u8],
    next_firm: u64,
    commits: &[(u64, Option<(String, Vec<u8>)>)],
    metas: &[(bool, Option<Vec<raw::SubmittedMetadata>>)],
    blobs: &[(bool, Option<Vec<raw::SubmittedRollupData>>)],
) -> String {
    let commits_s = if commits.is_empty() {
        ".".to_string()
    } else {
        commits
            .iter()
            .map(|(h, c)| match c {
                None => format!("{h}:~"),
                Some((chain, hash)) => format!("{h}:{}:{}", hex(chain.as_bytes()), hex(hash)),
            })
            .collect::<Vec<_>>()
            .join(",")
    };
    format!(
        "block celestia {label} cfg={}:{next_firm} commits={commits_s} M={} R={}",
        hex(rid),
        blobs_tok(metas, meta_s),
        blobs_tok(blobs, blob_s)
    )
}

fn gen_celestia(
    rng: &mut Rng,
    ex: &mut Exec,
    trace: &mut Trace,
    spec: &Spec,
    meta: &raw::SubmittedMetadata,
    blobs: &[raw::SubmittedRollupData],
    n: u64,
) {
    let h = u64::from(spec.height);
    let chain = spec.chain.clone();
    // the sequencer's view: height h has this block hash; h+1 has another block; h+2 unknown
    let commits = vec![
        (h, Some((chain.clone(), spec.bh.to_vec()))),
        (h + 1, Some((chain.clone(), vec![0x99; 32]))),
        (h + 2, None),
    ];
    let ids: Vec<Vec<u8>> = blobs.iter().map(|b| b.rollup_id.as_ref().unwrap().inner.to_vec()).collect();
    let absent = vec![0xee; 32];
    let m1 = |m: &raw::SubmittedMetadata| vec![(false, Some(vec![m.clone()]))];
    let r1 = |bs: Vec<raw::SubmittedRollupData>| vec![(false, Some(bs))];
    let mut emit = |label: &str, rid: &[u8], nf: u64, metas: Vec<(bool, Option<Vec<raw::SubmittedMetadata>>)>, rb: Vec<(bool, Option<Vec<raw::SubmittedRollupData>>)>| {
        trace.line(&ex.exec(&cel_line(label, rid, nf, &commits, &metas, &rb)));
    };

    // conductor of a rollup that is not in the block: empty block expected
    emit("absent-honest", &absent, h, m1(meta), r1(vec![]));
    // … to which somebody posts another rollup's (valid) blob
    if let Some(b) = blobs.first() {
        emit("absent-foreign-blob", &absent, h, m1(meta), r1(vec![b.clone()]));
    }
    for (k, id) in ids.iter().enumerate() {
        if k >= 2 && !common::is_thorough() {
            break;
        }
        let own = blobs[k].clone();
        emit("honest", id, h, m1(meta), r1(vec![own.clone()]));
        emit("honest-all-blobs-own-first", id, h, m1(meta), r1({
            let mut v = vec![own.clone()];
            v.extend(blobs.iter().enumerate().filter(|(j, _)| *j != k).map(|(_, b)| b.clone()));
            v
        }));
        emit("blob-missing", id, h, m1(meta), r1(vec![]));
        emit("below-firm-height", id, h + 1, m1(meta), r1(vec![own.clone()]));
        emit("firm-height-lower", id, h.saturating_sub(3).max(1), m1(meta), r1(vec![own.clone()]));
        // foreign blobs (valid for the block, but of another rollup)
        if blobs.len() >= 2 {
            let other = blobs[(k + 1) % blobs.len()].clone();
            emit("foreign-blob-only", id, h, m1(meta), r1(vec![other.clone()]));
            emit("foreign-blob-first", id, h, m1(meta), r1(vec![other.clone(), own.clone()]));
            emit("foreign-blob-second", id, h, m1(meta), r1(vec![own.clone(), other.clone()]));
            // re-attribution: the other rollup's data and proof under this rollup's id
            let mut x = other.clone();
            x.rollup_id = own.rollup_id.clone();
            emit("blob-id-reattributed", id, h, m1(meta), r1(vec![x]));
            let mut x = own.clone();
            x.proof = other.proof.clone();
            emit("blob-proof-of-other", id, h, m1(meta), r1(vec![x]));
        }
        // single-element tamperings of the own blob
        let mut cases: Vec<(String, raw::SubmittedRollupData)> = vec![];
        for i in 0..own.transactions.len() {
            let mut x = own.clone();
            x.transactions[i] = flip(&x.transactions[i], rng.below(64) as usize);
            cases.push((format!("blob-tx-alter:{i}"), x));
        }
        if own.transactions.len() >= 2 {
            let mut x = own.clone();
            let l = x.transactions.len();
            x.transactions.swap(0, l - 1);
            cases.push(("blob-tx-reorder".to_string(), x));
        }
        if !own.transactions.is_empty() {
            let mut x = own.clone();
            x.transactions.pop();
            cases.push(("blob-tx-truncate".to_string(), x));
            let mut x = own.clone();
            let last = x.transactions.last().unwrap().clone();
            x.transactions.push(last);
            cases.push(("blob-tx-extend-dup".to_string(), x));
        }
        let mut x = own.clone();
        x.transactions.push(Bytes::from(vec![0x0a, 0x01, 0x42]));
        cases.push(("blob-tx-extend-new".to_string(), x));
        for (how, name) in PROOF_MUTS {
            let mut x = own.clone();
            x.proof = mut_proof(&own.proof, *how);
            cases.push((format!("blob-proof-{name}"), x));
        }
        let mut x = own.clone();
        x.sequencer_block_hash = Bytes::from(vec![0x99; 32]);
        cases.push(("blob-block-hash-swapped".to_string(), x));
        let mut x = own.clone();
        x.rollup_id = Some(fresh_id());
        cases.push(("blob-id-fresh".to_string(), x));
        for (j, (name, x)) in cases.iter().enumerate() {
            if !common::is_thorough() && n % 2 == 1 && j % 2 == 0 {
                continue;
            }
            emit(name, id, h, m1(meta), r1(vec![x.clone()]));
        }
        // tampered blob first, honest blob second: the honest one must still be attached
        if let Some((_, bad)) = cases.first() {
            emit("tampered-then-honest", id, h, m1(meta), r1(vec![bad.clone(), own.clone()]));
        }
        // metadata tamperings
        let mut x = meta.clone();
        x.block_hash = Bytes::from(vec![0x99; 32]);
        emit("meta-block-hash-swapped", id, h, m1(&x), r1(vec![own.clone()]));
        let mut x = meta.clone();
        x.header.as_mut().unwrap().chain_id = "other-chain".to_string();
        emit("meta-chain-id-other", id, h, m1(&x), r1(vec![own.clone()]));
        let mut x = meta.clone();
        x.header.as_mut().unwrap().height = h + 1; // the sequencer has another block there
        emit("meta-height-of-other-block", id, h, m1(&x), r1(vec![own.clone()]));
        let mut x = meta.clone();
        x.header.as_mut().unwrap().height = h + 2; // unknown to the sequencer
        emit("meta-height-unknown", id, h, m1(&x), r1(vec![own.clone()]));
        let mut x = meta.clone();
        x.header.as_mut().unwrap().rollup_transactions_root = flip(&x.header.as_ref().unwrap().rollup_transactions_root, 1);
        emit("meta-root-flip", id, h, m1(&x), r1(vec![own.clone()]));
        let mut x = meta.clone();
        x.rollup_ids.retain(|i| i.inner.as_ref() != id.as_slice());
        emit("meta-ids-without-own", id, h, m1(&x), r1(vec![]));
        // list handling of convert.rs
        let mut bad = meta.clone();
        bad.rollup_transactions_proof = None;
        emit("meta-list-one-bad", id, h, vec![(false, Some(vec![meta.clone(), bad.clone()]))], r1(vec![own.clone()]));
        emit("meta-bad-in-other-blob", id, h, vec![(false, Some(vec![bad.clone()])), (false, Some(vec![meta.clone()]))], r1(vec![own.clone()]));
        emit("meta-wrong-namespace", id, h, vec![(true, Some(vec![meta.clone()]))], r1(vec![own.clone()]));
        emit("meta-garbage-blob", id, h, vec![(false, None), (false, Some(vec![meta.clone()]))], r1(vec![own.clone()]));
        emit("meta-empty-list", id, h, vec![(false, Some(vec![]))], r1(vec![own.clone()]));
        let mut badb = own.clone();
        badb.proof = None;
        emit("blob-list-one-bad", id, h, m1(meta), vec![(false, Some(vec![own.clone(), badb.clone()]))]);
        emit("blob-bad-in-other-blob", id, h, m1(meta), vec![(false, Some(vec![badb.clone()])), (false, Some(vec![own.clone()]))]);
        emit("blob-wrong-namespace", id, h, m1(meta), vec![(true, Some(vec![own.clone()]))]);
        emit("blob-garbage-blob", id, h, m1(meta), vec![(false, None), (false, Some(vec![own.clone()]))]);
        emit("blob-twice", id, h, m1(meta), r1(vec![own.clone(), own.clone()]));
    }
}

#[test]
fn driver() {
    if std::env::var("VERIF_SHOW_PANICS").is_err() {
        common::silence_panics();
    }
    let mut trace = Trace::from_env();
    let mut rng = Rng::from_env();
    let mut ex = Exec {
        env: None,
        session: Session {
            block: None,
        },
    };
    if let Some(ops) = common::replay_lines() {
        for op in ops {
            trace.line(&ex.exec(&op));
        }
    } else {
        for op in common::corpus_lines() {
            trace.line(&ex.exec(&op));
        }
        generate(&mut rng, &mut ex, &mut trace);
    }
    trace.finish();
}
