// In-crate verification harness (stub; see /verif/docs/SLICE_GUIDE.md).
#![allow(clippy::pedantic, clippy::all, dead_code, unused_imports)]

#[path = "/verif/harness/common.rs"]
mod common;

#[test]
fn driver() {
    let trace = common::Trace::from_env();
    trace.finish();
}
