// In-crate verification harness for astria-conductor::celestia (C09, parts of C07/C12/C17).
// Hooked as a child module of `celestia::verify` so that `BlobVerifier`'s private method and
// cache, `VerifiedBlobs`' fields and every `pub(super)` item of `celestia::*` are reachable.
// Compiled only with `--features verif` under cfg(test).
#![allow(clippy::pedantic, clippy::all, dead_code)]

#[path = "/verif/harness/common.rs"]
mod common;

use std::sync::Arc;

use astria_core::{
    crypto::SigningKey,
    protocol::test_utils::ConfigureSequencerBlock,
    sequencerblock::v1::block,
};
use common::{
    no_panic,
    Rng,
    Trace,
};
use prost::Message as _;
use sequencer_client::{
    tendermint::{
        self,
        block::CommitSig,
        validator::Info as Validator,
    },
    tendermint_proto,
    tendermint_rpc::endpoint::validators,
};

use super::{
    super::block_verifier::{
        ensure_commit_has_quorum,
        QuorumError,
    },
    BlobVerifier,
    VerificationMeta,
};

const CHAIN: &str = "verif-chain";

fn signing_key(id: u64) -> SigningKey {
    let mut seed = [0u8; 32];
    seed[..8].copy_from_slice(&id.to_le_bytes());
    seed[31] = 0x5a;
    SigningKey::from(seed)
}

fn tm_pubkey(id: u64) -> tendermint::PublicKey {
    tendermint::PublicKey::from_raw_ed25519(&signing_key(id).verification_key().to_bytes()).unwrap()
}

fn address(id: u64) -> tendermint::account::Id {
    tendermint::account::Id::from(tm_pubkey(id))
}

fn block_id(tag: u8) -> tendermint::block::Id {
    tendermint::block::Id {
        hash: tendermint::Hash::Sha256([tag; 32]),
        part_set_header: tendermint::block::parts::Header::default(),
    }
}

fn nil_vote_message(height: u32, chain: &str, timestamp: tendermint::Time) -> Vec<u8> {
    let canonical_vote = tendermint::vote::CanonicalVote {
        vote_type: tendermint::vote::Type::Precommit,
        height: height.into(),
        round: 0u16.into(),
        block_id: None,
        timestamp: Some(timestamp),
        chain_id: chain.try_into().unwrap(),
    };
    tendermint_proto::types::CanonicalVote::from(canonical_vote).encode_length_delimited_to_vec()
}

fn vote_message(height: u32, chain: &str, bid: tendermint::block::Id, timestamp: tendermint::Time) -> Vec<u8> {
    let canonical_vote = tendermint::vote::CanonicalVote {
        vote_type: tendermint::vote::Type::Precommit,
        height: height.into(),
        round: 0u16.into(),
        block_id: Some(bid),
        timestamp: Some(timestamp),
        chain_id: chain.try_into().unwrap(),
    };
    tendermint_proto::types::CanonicalVote::from(canonical_vote).encode_length_delimited_to_vec()
}

fn quorum_err_kind(e: &QuorumError) -> &'static str {
    let d = format!("{e:?}");
    let v = d.split(|c: char| !c.is_alphanumeric()).next().unwrap_or("");
    match v {
        "CommitHeightMismatch" => "height-mismatch",
        "TotalVotingPowerOverflowed" => "total-overflow",
        "EmptySignature" => "empty-signature",
        "NoSuchValidator" => "no-such-validator",
        "ValidatorAddressMismatch" => "address-mismatch",
        "Signature" | "VerificationKey" | "VerifyVoteSignature" => "bad-signature",
        "CommitVotingPowerExceedsTotal" => "exceeds-total",
        "NoQuorum" => "no-quorum",
        s if s.contains("Duplicate") || s.contains("Twice") || s.contains("Repeated") => "duplicate-vote",
        _ => "other",
    }
}

/// quorum check <hm> <vals> <sigs>
///   vals = `<key>:<power>,…` | `.`
///   sigs = `o` (absent/nil) | `c:<addr>:<sigtag>` …   sigtag: `-` none, `0` garbage,
///          `w` = signed by the right key over another block id, `<k>` = valid signature by key k
fn build_commit(t: &[&str], bid: tendermint::block::Id) -> (tendermint::block::Commit, validators::Response) {
    let heights_match = t[0] == "1";
    let vals: Vec<Validator> = if t[1] == "." {
        vec![]
    } else {
        t[1].split(',')
            .map(|s| {
                let (k, p) = s.split_once(':').unwrap();
                let k: u64 = k.parse().unwrap();
                let p: u64 = p.parse().unwrap();
                Validator {
                    name: None,
                    address: address(k),
                    pub_key: tm_pubkey(k),
                    power: tendermint::vote::Power::try_from(p).unwrap_or_else(|_| {
                        // tendermint's Power is bounded by i64::MAX when parsed; build through u32 parts
                        panic!("power out of range for tendermint::vote::Power")
                    }),
                    proposer_priority: 0.into(),
                }
            })
            .collect()
    };
    let height = 7u32;
    let timestamp = tendermint::Time::from_unix_timestamp(1, 1).unwrap();
    let good_msg = vote_message(height, CHAIN, bid, timestamp);
    let wrong_msg = vote_message(height, CHAIN, block_id(4), timestamp);
    let signatures: Vec<CommitSig> = if t[2] == "." {
        vec![]
    } else {
        t[2].split(',')
            .enumerate()
            .map(|(i, s)| {
                if s == "o" {
                    return if i % 2 == 0 {
                        CommitSig::BlockIdFlagAbsent
                    } else {
                        CommitSig::BlockIdFlagNil {
                            validator_address: address(1),
                            timestamp,
                            // a nil vote is only wire-valid (JSON-RPC round trip) with a signature
                            signature: Some(tendermint::Signature::try_from(vec![0x2au8; 64]).unwrap()),
                        }
                    };
                }
                let parts: Vec<&str> = s.split(':').collect();
                let addr: u64 = parts[1].parse().unwrap();
                if parts[0] == "n" {
                    // a validly signed precommit for nil by validator `addr`
                    let msg = nil_vote_message(height, CHAIN, timestamp);
                    return CommitSig::BlockIdFlagNil {
                        validator_address: address(addr),
                        timestamp,
                        signature: Some(
                            tendermint::Signature::try_from(signing_key(addr).sign(&msg).to_bytes().to_vec()).unwrap(),
                        ),
                    };
                }
                let signature = match parts[2] {
                    "-" => None,
                    "0" => Some(tendermint::Signature::try_from(vec![0x17u8; 64]).unwrap()),
                    "w" => Some(
                        tendermint::Signature::try_from(signing_key(addr).sign(&wrong_msg).to_bytes().to_vec())
                            .unwrap(),
                    ),
                    k => {
                        let k: u64 = k.parse().unwrap();
                        Some(
                            tendermint::Signature::try_from(signing_key(k).sign(&good_msg).to_bytes().to_vec())
                                .unwrap(),
                        )
                    }
                };
                CommitSig::BlockIdFlagCommit {
                    validator_address: address(addr),
                    timestamp,
                    signature,
                }
            })
            .collect()
    };
    let commit = tendermint::block::Commit {
        height: height.into(),
        round: 0u16.into(),
        block_id: bid,
        signatures,
    };
    let vheight = if heights_match { height } else { height + 1 };
    let total = vals.len() as i32;
    let validator_set = validators::Response::new(vheight.into(), vals, total);
    (commit, validator_set)
}

fn quorum_check(t: &[&str]) -> String {
    let (commit, validator_set) = build_commit(t, block_id(3));
    let chain_id: tendermint::chain::Id = CHAIN.try_into().unwrap();
    match no_panic(move || ensure_commit_has_quorum(&commit, &validator_set, &chain_id)) {
        Some(Ok(())) => "ok".to_string(),
        Some(Err(e)) => format!("err:{}", quorum_err_kind(&e)),
        None => "panic".to_string(),
    }
}

fn signed_header(height: u32, chain: &str, hash_tag: u8) -> tendermint::block::signed_header::SignedHeader {
    let commit = tendermint::block::Commit {
        height: height.into(),
        round: 0u16.into(),
        block_id: block_id(hash_tag),
        signatures: vec![],
    };
    tendermint::block::signed_header::SignedHeader::new(
        tendermint::block::Header {
            version: tendermint::block::header::Version {
                block: 1,
                app: 1,
            },
            chain_id: chain.try_into().unwrap(),
            height: height.into(),
            time: tendermint::time::Time::from_unix_timestamp(1, 1).unwrap(),
            last_block_id: None,
            last_commit_hash: None,
            data_hash: None,
            validators_hash: tendermint::Hash::Sha256([0; 32]),
            next_validators_hash: tendermint::Hash::Sha256([0; 32]),
            consensus_hash: tendermint::Hash::Sha256([0; 32]),
            app_hash: tendermint::AppHash::default(),
            last_results_hash: None,
            evidence_hash: None,
            proposer_address: address(1),
        },
        commit,
    )
    .unwrap()
}

/// quorum meta <chain_eq> <hash_eq>: metadata for height 5 against a cached, quorum-checked
/// commit whose chain id / block hash do or do not equal the metadata's.
fn quorum_meta(rt: &tokio::runtime::Runtime, t: &[&str]) -> String {
    let chain_eq = t[0] == "1";
    let hash_eq = t[1] == "1";
    let height = 5u32;
    let block = ConfigureSequencerBlock {
        block_hash: Some(block::Hash::new([9u8; 32])),
        chain_id: Some(CHAIN.to_string()),
        height,
        ..Default::default()
    }
    .make();
    let (metadata, _) = block.split_for_celestia();
    let commit_chain = if chain_eq { CHAIN.to_string() } else { format!("{CHAIN}-other") };
    let commit_hash = if hash_eq { 9u8 } else { 8u8 };
    rt.block_on(async move {
        let client = sequencer_client::HttpClient::new("http://127.0.0.1:9").unwrap();
        let verifier = Arc::new(BlobVerifier::try_new(client, 1000).unwrap());
        verifier
            .cache
            .insert(
                metadata.height(),
                VerificationMeta {
                    commit_header: signed_header(height, &commit_chain, commit_hash),
                },
            )
            .await;
        match verifier.verify_metadata(metadata).await {
            Some(_) => "accept".to_string(),
            None => "drop".to_string(),
        }
    })
}

/// quorum fetchmeta <hm> <vals> <sigs> <chain_eq> <hash_eq>: metadata for height 7 verified through
/// the REAL `VerificationMeta::fetch` (commit + validator set fetched from a mocked sequencer
/// RPC, then `ensure_commit_has_quorum`) followed by the chain-id / block-hash comparison.
fn quorum_fetchmeta(rt: &tokio::runtime::Runtime, t: &[&str]) -> String {
    use serde_json::json;
    use wiremock::{
        matchers::body_partial_json,
        Mock,
        MockServer,
        ResponseTemplate,
    };
    let chain_eq = t[3] == "1";
    let hash_eq = t[4] == "1";
    let height = 7u32;
    // the commit (and the votes in it) are for block hash [3; 32] on chain CHAIN
    let (commit, validator_set) = build_commit(&t[..3], block_id(3));
    let meta_hash = if hash_eq { 3u8 } else { 4u8 };
    let meta_chain = if chain_eq { CHAIN.to_string() } else { format!("{CHAIN}-other") };
    let block = ConfigureSequencerBlock {
        block_hash: Some(block::Hash::new([meta_hash; 32])),
        chain_id: Some(meta_chain),
        height,
        ..Default::default()
    }
    .make();
    let (metadata, _) = block.split_for_celestia();
    let mut header = signed_header(height, CHAIN, 3).header;
    header.height = height.into();
    let signed = tendermint::block::signed_header::SignedHeader::new(header, commit).unwrap();
    rt.block_on(async move {
        let server = MockServer::start().await;
        Mock::given(body_partial_json(json!({"jsonrpc": "2.0", "method": "commit"})))
            .respond_with(ResponseTemplate::new(200).set_body_json(
                sequencer_client::tendermint_rpc::response::Wrapper::new_with_id(
                    sequencer_client::tendermint_rpc::Id::uuid_v4(),
                    Some(sequencer_client::tendermint_rpc::endpoint::commit::Response {
                        signed_header: signed,
                        canonical: true,
                    }),
                    None,
                ),
            ))
            .mount(&server)
            .await;
        Mock::given(body_partial_json(json!({"jsonrpc": "2.0", "method": "validators"})))
            .respond_with(ResponseTemplate::new(200).set_body_json(
                sequencer_client::tendermint_rpc::response::Wrapper::new_with_id(
                    sequencer_client::tendermint_rpc::Id::uuid_v4(),
                    Some(validator_set),
                    None,
                ),
            ))
            .mount(&server)
            .await;
        let client = sequencer_client::HttpClient::new(&*server.uri()).unwrap();
        let verifier = Arc::new(BlobVerifier::try_new(client, 1000).unwrap());
        match tokio::time::timeout(std::time::Duration::from_secs(20), verifier.verify_metadata(metadata)).await {
            Ok(Some(_)) => "accept".to_string(),
            Ok(None) => "drop".to_string(),
            Err(_) => "timeout".to_string(),
        }
    })
}

fn exec(rt: &tokio::runtime::Runtime, op: &str) -> String {
    let t: Vec<&str> = op.split(' ').collect();
    match t[0] {
        "check" => quorum_check(&t[1..]),
        "meta" => quorum_meta(rt, &t[1..]),
        "fetchmeta" => quorum_fetchmeta(rt, &t[1..]),
        _ => panic!("unknown op {op}"),
    }
}

const POWERS: [u64; 9] = [1, 2, 3, 5, 10, 1 << 31, 1 << 61, 1 << 62, (1 << 62) + 7];

fn gen_check(rng: &mut Rng) -> String {
    let n = rng.range(1, 8) as usize;
    // validator set; sometimes tuned so that the total hits every residue mod 3, sometimes huge
    let huge = rng.chance(12);
    let mut vals: Vec<(u64, u64)> = (1..=n as u64)
        .map(|k| {
            let p = if huge { *rng.pick(&POWERS[5..]) } else { *rng.pick(&POWERS[..5]) };
            (k, p)
        })
        .collect();
    if rng.chance(5) {
        // the same key listed twice
        let dup = vals[rng.below(n as u64) as usize];
        vals.push((dup.0, *rng.pick(&POWERS[..5])));
    }
    let mode = rng.below(10);
    let mut sigs: Vec<String> = Vec::new();
    for &(k, _) in vals.iter().take(n) {
        let c = rng.below(100);
        let s = match mode {
            // honest commits with a varying subset
            0..=4 => {
                if c < 65 {
                    format!("c:{k}:{k}")
                } else if c < 85 {
                    format!("n:{k}")
                } else {
                    "o".to_string()
                }
            }
            // adversarial: forged / missing / foreign signatures
            5 | 6 => match c {
                0..=59 => format!("c:{k}:{k}"),
                60..=69 => format!("c:{k}:0"),
                70..=77 => format!("c:{k}:w"),
                78..=85 => format!("c:{k}:{}", (k % n as u64) + 1),
                86..=90 => format!("c:{k}:-"),
                91..=94 => format!("c:{}:{}", n as u64 + 3, n as u64 + 3),
                _ => "o".to_string(),
            },
            // duplication of valid signatures
            _ => {
                if c < 50 {
                    format!("c:{k}:{k}")
                } else {
                    "o".to_string()
                }
            }
        };
        sigs.push(s);
    }
    if mode >= 7 {
        let commits: Vec<String> = sigs.iter().filter(|s| s.starts_with("c:")).cloned().collect();
        if !commits.is_empty() {
            for _ in 0..rng.range(1, 4) {
                sigs.push(rng.pick(&commits).clone());
            }
        }
    }
    let hm = if rng.chance(4) { 0 } else { 1 };
    let vals_s: Vec<String> = vals.iter().map(|(k, p)| format!("{k}:{p}")).collect();
    format!(
        "check {hm} {} {}",
        vals_s.join(","),
        if sigs.is_empty() { ".".to_string() } else { sigs.join(",") }
    )
}

fn gen_ops(rng: &mut Rng, thorough: bool) -> Vec<String> {
    let mut ops = Vec::new();
    for c in 0..2 {
        for h in 0..2 {
            ops.push(format!("meta {c} {h}"));
        }
    }
    // exact thresholds: k equal validators of power 1, j of them sign, for all k ≤ 9
    for k in 1..=9u64 {
        for j in 0..=k {
            let vals: Vec<String> = (1..=k).map(|i| format!("{i}:1")).collect();
            let sigs: Vec<String> = (1..=k).map(|i| if i <= j { format!("c:{i}:{i}") } else { "o".into() }).collect();
            ops.push(format!("check 1 {} {}", vals.join(","), sigs.join(",")));
        }
    }
    // the same with the non-signers voting nil (validly signed precommits for nil)
    for k in 2..=7u64 {
        for j in 0..=k {
            let vals: Vec<String> = (1..=k).map(|i| format!("{i}:1")).collect();
            let sigs: Vec<String> = (1..=k).map(|i| if i <= j { format!("c:{i}:{i}") } else { format!("n:{i}") }).collect();
            ops.push(format!("check 1 {} {}", vals.join(","), sigs.join(",")));
        }
    }
    // one big + small validators around the 2/3 boundary
    for t in [3u64, 4, 5, 6, 7, 8, 9, 10, 11, 100, 101, 102, 1 << 40, (1 << 40) + 1, (1 << 40) + 2] {
        for c in [t * 2 / 3, t * 2 / 3 + 1, (t / 3) * 2, (t / 3) * 2 + 1] {
            if c >= 1 && c < t {
                ops.push(format!("check 1 1:{c},2:{} c:1:1,o", t - c));
            }
        }
    }
    let n = if thorough { 20000 } else { 700 };
    for _ in 0..n {
        ops.push(gen_check(rng));
    }
    // end to end through VerificationMeta::fetch (mocked sequencer RPC)
    let m = if thorough { 600 } else { 60 };
    for i in 0..m {
        let c = gen_check(rng);
        let spec = c.strip_prefix("check ").unwrap();
        let (ce, he) = match i % 6 {
            0 => (0, 1),
            1 => (1, 0),
            _ => (1, 1),
        };
        ops.push(format!("fetchmeta {spec} {ce} {he}"));
    }
    ops
}

#[test]
fn driver() {
    common::silence_panics();
    let rt = tokio::runtime::Builder::new_current_thread().enable_all().build().unwrap();
    let mut rng = Rng::from_env();
    let mut trace = Trace::from_env();
    let ops = match common::replay_lines() {
        Some(lines) => lines,
        None => {
            let mut v = common::corpus_lines();
            v.extend(gen_ops(&mut rng, common::is_thorough()));
            v
        }
    };
    for op in ops {
        let op = op.strip_prefix("quorum ").unwrap_or(&op).to_string();
        let res = exec(&rt, &op);
        trace.line(&format!("quorum {op} => {res}"));
    }
    trace.finish();
}
