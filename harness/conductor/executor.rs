// In-crate verification harness for the conductor's executor (property C10).
//
// Child module `executor::verif` of crates/astria-conductor/src/executor/mod.rs (feature
// `verif-executor`, cfg(test)), so it reaches the private `Initialized`, `execute_soft`,
// `execute_firm`, `run_event_loop`, `create_block_channels`, `create_initial_node_state` and the
// private fields (`state`, `blocks_pending_finalization`).
//
// The REAL executor code is driven one delivery at a time (so the `select!` loop cannot reorder
// anything), or through the real `run_event_loop` over pre-filled, closed channels (op `loop`).
// The rollup is an in-process tonic server implementing the execution API as a contract-
// enforcing state machine (`Fake`, the same machine as `Astria.Conductor.Rollup` in the Lean
// model); it records every ExecuteBlock / UpdateCommitmentState / GetExecutedBlockMetadata
// request together with its answer.  One trace line per op:
//
//   executor reset exec <soft|firm|both> <S> <R> <firm0> <soft0> <cel0> <lookahead> [<lie>] => ok | - | <state>
//   executor soft <h>                        => <ok|drop|err:kind> | <rpcs> | <state>
//   executor firm <h> <celestia_h>           => …
//   executor loop <h/c,h/c…|-> <h,h,…|->     => <ok|err:kind> | <rpcs> | <state> | left=<f>,<s>
//   executor reset cache <next>              => <ok|err:zero> | <cache>
//   executor cins <h> <tag> / cpop / cdrop <h> => <result> | <cache>
//
//   blk   = <number>:<hash id>:<parent hash id>:<sequencer height encoded in sequencer_block_hash>
//   rpc   = X,<seq height>,<parent id>,<blk|rej:why> | U,<firm blk>,<soft blk>,<cel>,<ok|rej:why> | G,<n>,<blk|rej:why>
//   state = firm=<blk> soft=<blk> cel=<n> nf=<next firm seq height> ns=<next soft> pend=<k>/<blk>,…
#![allow(clippy::pedantic, clippy::all, dead_code, unused_imports)]

#[path = "/verif/harness/common.rs"]
mod common;

use std::{
    collections::HashMap,
    sync::{
        Arc,
        Mutex,
    },
    time::Duration,
};

use astria_core::{
    generated::astria::execution::v2 as raw,
    generated::astria::execution::v2::execution_service_server::{
        ExecutionService,
        ExecutionServiceServer,
    },
    primitive::v1::RollupId,
    sequencerblock::v1::{
        block::{
            self,
            FilteredSequencerBlock,
            SequencerBlockHeader,
            SequencerBlockHeaderParts,
        },
        SequencerBlock,
    },
    Protobuf as _,
};
use common::{
    Rng,
    Trace,
};
use sequencer_client::tendermint::block::Height as SequencerHeight;
use tokio_util::{
    sync::CancellationToken,
    task::JoinMap,
};

use super::{
    state::StateSender,
    Channels,
    Initialized,
};
use crate::{
    block_cache::{
        BlockCache,
        Error as CacheError,
        GetSequencerHeight,
    },
    celestia::ReconstructedBlock,
    config::CommitLevel,
    metrics::Metrics,
};

const ROLLUP_ID: RollupId = RollupId::new([42; 32]);
const SEQ_CHAIN: &str = "verif-seq";

// ---------------------------------------------------------------------------------------------
// sequencer block hashes encode the sequencer height, so that the rollup (which never sees a
// height) can tell which height an ExecuteBlock request was made for
// ---------------------------------------------------------------------------------------------

fn seq_hash(h: u64) -> block::Hash {
    let mut b = [0xC1u8; 32];
    b[..8].copy_from_slice(&h.to_be_bytes());
    block::Hash::new(b)
}

/// inverse of `seq_hash(h).to_string()` (hex); anything else maps to a value no height has
fn seq_of_hash(s: &str) -> u64 {
    if s.len() != 64 || !s[16..].bytes().all(|c| c == b'c' || c == b'1') {
        return u64::MAX;
    }
    u64::from_str_radix(&s[..16], 16).unwrap_or(u64::MAX)
}

fn id_of_hash(s: &str) -> u64 {
    s.strip_prefix('h').and_then(|x| x.parse().ok()).unwrap_or(u64::MAX)
}

// ---------------------------------------------------------------------------------------------
// the contract-enforcing rollup
// ---------------------------------------------------------------------------------------------

#[derive(Clone, Debug, PartialEq, Eq)]
struct Blk {
    number: u64,
    id: u64,
    parent: u64,
    seq: u64,
}

impl Blk {
    fn fmt(&self) -> String {
        format!("{}:{}:{}:{}", self.number, self.id, self.parent, self.seq)
    }

    fn to_raw(&self) -> raw::ExecutedBlockMetadata {
        raw::ExecutedBlockMetadata {
            number: self.number,
            hash: format!("h{}", self.id),
            parent_hash: format!("h{}", self.parent),
            timestamp: Some(pbjson_types::Timestamp {
                seconds: 1,
                nanos: 0,
            }),
            sequencer_block_hash: seq_hash(self.seq).to_string(),
        }
    }

    fn from_raw(m: &raw::ExecutedBlockMetadata) -> Blk {
        Blk {
            number: m.number,
            id: id_of_hash(&m.hash),
            parent: id_of_hash(&m.parent_hash),
            seq: seq_of_hash(&m.sequencer_block_hash),
        }
    }

    fn from_meta(m: &astria_core::execution::v2::ExecutedBlockMetadata) -> Blk {
        Blk {
            number: m.number(),
            id: id_of_hash(m.hash()),
            parent: id_of_hash(m.parent_hash()),
            seq: seq_of_hash(m.sequencer_block_hash()),
        }
    }
}

#[derive(Clone, Debug)]
struct Cfg {
    mode: CommitLevel,
    seq_start: u64,
    rollup_start: u64,
    firm0: u64,
    soft0: u64,
    cel0: u64,
    lookahead: u64,
    /// fault injection: 0 = honest rollup; k > 0 = the k-th answered ExecuteBlock carries a block
    /// number that violates the contract, and GetExecutedBlockMetadata answers with the block
    /// below the requested one
    lie: u64,
}

struct Fake {
    cfg: Cfg,
    session: String,
    blocks: Vec<Blk>, // oldest first
    firm: Blk,
    soft: Blk,
    cel: u64,
    next_id: u64,
    execs: u64,
    log: Vec<String>,
}

impl Fake {
    fn new(cfg: Cfg, session_no: u64) -> Fake {
        // blocks firm0 ..= soft0; block n has hash id n-firm0+1, parent id n-firm0, and was
        // executed from sequencer height S + n - R
        let span = cfg.soft0.saturating_sub(cfg.firm0);
        let blocks: Vec<Blk> = (0..=span)
            .map(|k| Blk {
                number: cfg.firm0 + k,
                id: k + 1,
                parent: k,
                seq: (cfg.seq_start + cfg.firm0 + k + 1)
                    .saturating_sub(cfg.rollup_start)
                    .saturating_sub(1),
            })
            .collect();
        Fake {
            session: format!("session-{session_no}"),
            firm: blocks[0].clone(),
            soft: blocks[blocks.len() - 1].clone(),
            cel: cfg.cel0,
            next_id: span + 2,
            execs: 0,
            blocks,
            cfg,
            log: vec![],
        }
    }

    fn commitment(&self) -> raw::CommitmentState {
        raw::CommitmentState {
            soft_executed_block_metadata: Some(self.soft.to_raw()),
            firm_executed_block_metadata: Some(self.firm.to_raw()),
            lowest_celestia_search_height: self.cel,
        }
    }

    fn initial_commitment(&self) -> raw::CommitmentState {
        // firm0 > soft0 is sent as such, so that the client's validation is exercised
        let mut c = self.commitment();
        if self.cfg.firm0 > self.cfg.soft0 {
            let mut soft = self.soft.to_raw();
            soft.number = self.cfg.soft0;
            c.soft_executed_block_metadata = Some(soft);
        }
        c
    }

    fn execute(&mut self, session: &str, parent: u64, seq: u64) -> Result<Blk, &'static str> {
        let res = if session != self.session {
            Err("bad-session")
        } else if parent != self.soft.id {
            Err("not-head")
        } else {
            let lying = self.cfg.lie != 0 && self.execs + 1 == self.cfg.lie;
            let b = Blk {
                number: self.soft.number + if lying { 2 } else { 1 },
                id: self.next_id,
                parent,
                seq,
            };
            self.next_id += 1;
            self.execs += 1;
            self.blocks.push(b.clone());
            Ok(b)
        };
        self.log.push(format!(
            "X,{seq},{parent},{}",
            match &res {
                Ok(b) => b.fmt(),
                Err(e) => format!("rej:{e}"),
            }
        ));
        res
    }

    fn update(&mut self, session: &str, f: Blk, s: Blk, cel: u64) -> Result<(), &'static str> {
        let res = if session != self.session {
            Err("bad-session")
        } else if !(self.blocks.contains(&f) && self.blocks.contains(&s)) {
            Err("unknown-block")
        } else if f.number > s.number {
            Err("firm-exceeds-soft")
        } else if f.number < self.firm.number || s.number < self.soft.number {
            Err("decrease")
        } else {
            self.firm = f.clone();
            self.soft = s.clone();
            self.cel = cel;
            Ok(())
        };
        self.log.push(format!(
            "U,{},{},{cel},{}",
            f.fmt(),
            s.fmt(),
            match &res {
                Ok(()) => "ok".to_string(),
                Err(e) => format!("rej:{e}"),
            }
        ));
        res
    }

    fn get(&mut self, n: u64) -> Result<Blk, &'static str> {
        let res = if n > self.soft.number {
            Err("no-such-block")
        } else {
            // newest block with that number
            let wanted = if self.cfg.lie != 0 { n.saturating_sub(1) } else { n };
            self.blocks.iter().rev().find(|b| b.number == wanted).cloned().ok_or("no-such-block")
        };
        self.log.push(format!(
            "G,{n},{}",
            match &res {
                Ok(b) => b.fmt(),
                Err(e) => format!("rej:{e}"),
            }
        ));
        res
    }
}

struct FakeService(Arc<Mutex<Fake>>);

// Only non-retryable status codes (see executor/client.rs::should_retry), so that a rejected
// request surfaces as an error of the delivery instead of an endless retry loop.
fn reject(why: &'static str) -> tonic::Status {
    tonic::Status::failed_precondition(why)
}

#[tonic::async_trait]
impl ExecutionService for FakeService {
    async fn get_executed_block_metadata(
        self: Arc<Self>,
        request: tonic::Request<raw::GetExecutedBlockMetadataRequest>,
    ) -> tonic::Result<tonic::Response<raw::ExecutedBlockMetadata>> {
        let req = request.into_inner();
        let n = match req.identifier.and_then(|i| i.identifier) {
            Some(raw::executed_block_identifier::Identifier::Number(n)) => n,
            _ => return Err(reject("bad-identifier")),
        };
        let mut f = self.0.lock().unwrap();
        f.get(n).map(|b| tonic::Response::new(b.to_raw())).map_err(reject)
    }

    async fn create_execution_session(
        self: Arc<Self>,
        _request: tonic::Request<raw::CreateExecutionSessionRequest>,
    ) -> tonic::Result<tonic::Response<raw::ExecutionSession>> {
        let f = self.0.lock().unwrap();
        Ok(tonic::Response::new(raw::ExecutionSession {
            session_id: f.session.clone(),
            execution_session_parameters: Some(raw::ExecutionSessionParameters {
                rollup_id: Some(ROLLUP_ID.into_raw()),
                rollup_start_block_number: f.cfg.rollup_start,
                rollup_end_block_number: 0,
                sequencer_chain_id: SEQ_CHAIN.to_string(),
                sequencer_start_block_height: f.cfg.seq_start,
                celestia_chain_id: "verif-celestia".to_string(),
                celestia_search_height_max_look_ahead: f.cfg.lookahead,
            }),
            commitment_state: Some(f.initial_commitment()),
        }))
    }

    async fn execute_block(
        self: Arc<Self>,
        request: tonic::Request<raw::ExecuteBlockRequest>,
    ) -> tonic::Result<tonic::Response<raw::ExecuteBlockResponse>> {
        let req = request.into_inner();
        let mut f = self.0.lock().unwrap();
        let parent = id_of_hash(&req.parent_hash);
        let seq = seq_of_hash(&req.sequencer_block_hash);
        f.execute(&req.session_id, parent, seq)
            .map(|b| {
                tonic::Response::new(raw::ExecuteBlockResponse {
                    executed_block_metadata: Some(b.to_raw()),
                })
            })
            .map_err(reject)
    }

    async fn update_commitment_state(
        self: Arc<Self>,
        request: tonic::Request<raw::UpdateCommitmentStateRequest>,
    ) -> tonic::Result<tonic::Response<raw::CommitmentState>> {
        let req = request.into_inner();
        let mut f = self.0.lock().unwrap();
        let Some(c) = req.commitment_state else {
            return Err(reject("no-commitment"));
        };
        let (Some(firm), Some(soft)) = (
            c.firm_executed_block_metadata.as_ref(),
            c.soft_executed_block_metadata.as_ref(),
        ) else {
            return Err(reject("no-commitment"));
        };
        f.update(
            &req.session_id,
            Blk::from_raw(firm),
            Blk::from_raw(soft),
            c.lowest_celestia_search_height,
        )
        .map_err(reject)?;
        Ok(tonic::Response::new(f.commitment()))
    }
}

// ---------------------------------------------------------------------------------------------
// blocks handed to the executor
// ---------------------------------------------------------------------------------------------

struct BlockFactory {
    template: SequencerBlock,
}

impl BlockFactory {
    fn new() -> Self {
        let template = astria_core::protocol::test_utils::ConfigureSequencerBlock {
            block_hash: Some(seq_hash(1)),
            chain_id: Some(SEQ_CHAIN.to_string()),
            height: 1,
            sequence_data: vec![(ROLLUP_ID, b"verif".to_vec())],
            unix_timestamp: (1i64, 1u32).into(),
            ..Default::default()
        }
        .make();
        Self {
            template,
        }
    }

    /// the template block with its header height and block hash replaced
    fn sequencer_block(&self, h: u64) -> SequencerBlock {
        let mut parts = self.template.clone().into_parts();
        let hp = parts.header.into_parts();
        parts.header = SequencerBlockHeader::unchecked_from_parts(SequencerBlockHeaderParts {
            height: SequencerHeight::try_from(h).expect("height fits tendermint's Height"),
            ..hp
        });
        parts.block_hash = seq_hash(h);
        SequencerBlock::unchecked_from_parts(parts)
    }

    fn soft(&self, h: u64) -> FilteredSequencerBlock {
        self.sequencer_block(h).into_filtered_block([ROLLUP_ID])
    }

    fn firm(&self, h: u64, celestia_height: u64) -> Box<ReconstructedBlock> {
        let parts = self.sequencer_block(h).into_filtered_block([ROLLUP_ID]).into_parts();
        let transactions = parts
            .rollup_transactions
            .get(&ROLLUP_ID)
            .map(|t| t.transactions().to_vec())
            .unwrap_or_default();
        Box::new(ReconstructedBlock {
            celestia_height,
            block_hash: parts.block_hash,
            header: parts.header,
            transactions,
            extended_commit_info: None,
        })
    }
}

// ---------------------------------------------------------------------------------------------
// sessions
// ---------------------------------------------------------------------------------------------

struct Env {
    rt: tokio::runtime::Runtime,
    fake: Arc<Mutex<Fake>>,
    addr: std::net::SocketAddr,
    metrics: &'static Metrics,
    blocks: BlockFactory,
    sessions: u64,
    timeouts: u32,
}

struct ExecSession {
    init: Initialized,
    cfg: Cfg,
    firm_tx: tokio::sync::mpsc::Sender<Box<ReconstructedBlock>>,
    soft_tx: tokio::sync::mpsc::Sender<FilteredSequencerBlock>,
}

#[derive(Debug)]
struct CBlock {
    height: u64,
    tag: u64,
}

impl GetSequencerHeight for CBlock {
    fn get_height(&self) -> SequencerHeight {
        SequencerHeight::try_from(self.height).unwrap()
    }
}

enum Session {
    None,
    Exec(ExecSession),
    Cache(BlockCache<CBlock>),
    Dead,
}

fn mode_name(m: CommitLevel) -> &'static str {
    match m {
        CommitLevel::SoftOnly => "soft",
        CommitLevel::FirmOnly => "firm",
        CommitLevel::SoftAndFirm => "both",
    }
}

fn parse_mode(s: &str) -> CommitLevel {
    match s {
        "soft" => CommitLevel::SoftOnly,
        "firm" => CommitLevel::FirmOnly,
        "both" => CommitLevel::SoftAndFirm,
        _ => panic!("bad mode {s}"),
    }
}

fn make_config(url: String, level: CommitLevel) -> crate::Config {
    crate::Config {
        celestia_block_time_ms: 0,
        celestia_node_http_url: String::new(),
        no_celestia_auth: true,
        celestia_bearer_token: String::new(),
        sequencer_grpc_url: String::new(),
        sequencer_cometbft_url: String::new(),
        sequencer_block_time_ms: 0,
        sequencer_requests_per_second: 1,
        execution_rpc_url: url,
        log: String::new(),
        execution_commit_level: level,
        force_stdout: false,
        no_otel: true,
        no_metrics: true,
        metrics_http_listener_addr: String::new(),
    }
}

/// the executor's error kinds, recognised by the messages of the real error chain
fn err_kind(e: &astria_eyre::eyre::Report) -> &'static str {
    let s = format!("{e:#}");
    let has = |p: &str| s.contains(p);
    if has("block received was out-of-order") {
        "out-of-order"
    } else if has("expected block at sequencer height") {
        "height-mismatch"
    } else if has("failed to map current block height to rollup number") {
        "map"
    } else if has("failed to execute block") {
        "execute"
    } else if has("execution API server violated contract") {
        "contract"
    } else if has("failed to get block at number") {
        "get-block"
    } else if has("failed constructing commitment state") {
        "update-build"
    } else if has("failed updating remote commitment state") {
        "update-rpc"
    } else if has("failed updating internal state tracking rollup state") {
        "update-state"
    } else {
        "other"
    }
}

fn dump_state(s: &ExecSession) -> String {
    let (firm, soft, cel) = (
        Blk::from_meta(&s.init.state.firm()),
        Blk::from_meta(&s.init.state.soft()),
        s.init.state.lowest_celestia_search_height(),
    );
    let r = s.init.state.rollup_start_block_number();
    // the accessors panic on an unmappable commitment (soft-only sessions may hold one for firm)
    let nf = if r <= firm.number + 1 {
        s.init.state.next_expected_firm_sequencer_height().value().to_string()
    } else {
        "-".to_string()
    };
    let ns = if r <= soft.number + 1 {
        s.init.state.next_expected_soft_sequencer_height().value().to_string()
    } else {
        "-".to_string()
    };
    let mut pend: Vec<(u64, Blk)> = s
        .init
        .blocks_pending_finalization
        .iter()
        .map(|(k, v)| (*k, Blk::from_meta(v)))
        .collect();
    pend.sort_by_key(|e| e.0);
    let pend = if pend.is_empty() {
        "-".to_string()
    } else {
        pend.iter().map(|(k, b)| format!("{k}/{}", b.fmt())).collect::<Vec<_>>().join(",")
    };
    format!("firm={} soft={} cel={cel} nf={nf} ns={ns} pend={pend}", firm.fmt(), soft.fmt())
}

fn take_log(env: &Env) -> String {
    let mut f = env.fake.lock().unwrap();
    let l = std::mem::take(&mut f.log);
    if l.is_empty() {
        "-".to_string()
    } else {
        l.join(";")
    }
}

const OP_TIMEOUT: Duration = Duration::from_secs(30);
/// after this many timed-out ops the executor part of the run is abandoned (a code change that
/// makes the executor hang must not stall the check; every abandoned op is a disagreement)
const MAX_TIMEOUTS: u32 = 4;

fn new_exec_session(env: &mut Env, cfg: Cfg) -> Result<ExecSession, &'static str> {
    env.sessions += 1;
    *env.fake.lock().unwrap() = Fake::new(cfg.clone(), env.sessions);
    let config = make_config(format!("http://{}", env.addr), cfg.mode);
    let metrics = env.metrics;
    env.rt.block_on(async {
        let executor = super::Builder {
            config,
            shutdown: CancellationToken::new(),
            metrics,
        }
        .build()
        .map_err(|_| "err:build")?;
        // the real initialisation: CreateExecutionSession + State::try_from_execution_session
        let state: StateSender =
            match tokio::time::timeout(OP_TIMEOUT, executor.create_initial_node_state()).await {
                Ok(Ok(s)) => s,
                Ok(Err(_)) => return Err("err:init"),
                Err(_) => return Err("err:timeout"),
            };
        let Channels {
            firm_sender,
            firm_receiver,
            soft_sender,
            soft_receiver,
        } = super::create_block_channels(cfg.mode, &state).map_err(|_| "err:channels")?;
        let init = Initialized {
            config: executor.config,
            client: executor.client,
            firm_blocks: firm_receiver,
            soft_blocks: soft_receiver,
            shutdown: executor.shutdown,
            state,
            blocks_pending_finalization: HashMap::new(),
            metrics: executor.metrics,
            reader_tasks: JoinMap::new(),
            reader_cancellation_token: CancellationToken::new(),
        };
        Ok(ExecSession {
            init,
            cfg,
            firm_tx: firm_sender,
            soft_tx: soft_sender,
        })
    })
}

fn outcome(res: Result<Result<(), astria_eyre::eyre::Report>, tokio::time::error::Elapsed>, had_rpc_or_ok_is_drop: bool) -> String {
    match res {
        Ok(Ok(())) => {
            if had_rpc_or_ok_is_drop {
                "drop".to_string()
            } else {
                "ok".to_string()
            }
        }
        Ok(Err(e)) => format!("err:{}", err_kind(&e)),
        Err(_) => "err:timeout".to_string(),
    }
}

fn parse_firm_list(s: &str) -> Vec<(u64, u64)> {
    if s == "-" {
        return vec![];
    }
    s.split(',')
        .map(|e| {
            let (h, c) = e.split_once('/').expect("h/c");
            (h.parse().unwrap(), c.parse().unwrap())
        })
        .collect()
}

fn parse_soft_list(s: &str) -> Vec<u64> {
    if s == "-" {
        return vec![];
    }
    s.split(',').map(|e| e.parse().unwrap()).collect()
}

fn dump_cache(c: &BlockCache<CBlock>) -> String {
    // the map itself is private to `block_cache`; its content is made observable by `cscan`
    format!("next={}", c.next_height_to_pop())
}

fn exec(env: &mut Env, sess: &mut Session, op: &str) -> String {
    let t: Vec<&str> = op.split(' ').collect();
    match t[0] {
        "reset" if t[1] == "exec" => {
            let cfg = Cfg {
                mode: parse_mode(t[2]),
                seq_start: t[3].parse().unwrap(),
                rollup_start: t[4].parse().unwrap(),
                firm0: t[5].parse().unwrap(),
                soft0: t[6].parse().unwrap(),
                cel0: t[7].parse().unwrap(),
                lookahead: t[8].parse().unwrap(),
                lie: t.get(9).map(|x| x.parse().unwrap()).unwrap_or(0),
            };
            if env.timeouts >= MAX_TIMEOUTS {
                *sess = Session::Dead;
                return "err:aborted".to_string();
            }
            match new_exec_session(env, cfg) {
                Ok(s) => {
                    let _ = take_log(env);
                    let d = dump_state(&s);
                    *sess = Session::Exec(s);
                    format!("ok | - | {d}")
                }
                Err(e) => {
                    *sess = Session::Dead;
                    e.to_string()
                }
            }
        }
        "reset" if t[1] == "cache" => {
            let n: u64 = t[2].parse().unwrap();
            match BlockCache::<CBlock>::with_next_height(SequencerHeight::try_from(n).unwrap()) {
                Ok(c) => {
                    let d = dump_cache(&c);
                    *sess = Session::Cache(c);
                    format!("ok | {d}")
                }
                Err(CacheError::ZeroHeightsNotSupported) => {
                    *sess = Session::Dead;
                    "err:zero".to_string()
                }
                Err(_) => {
                    *sess = Session::Dead;
                    "err:other".to_string()
                }
            }
        }
        "soft" | "firm" | "loop" => {
            let Session::Exec(s) = sess else {
                return "err:no-session".to_string();
            };
            if env.timeouts >= MAX_TIMEOUTS {
                return "err:aborted".to_string();
            }
            let res = match t[0] {
                "soft" => {
                    let h: u64 = t[1].parse().unwrap();
                    let block = env.blocks.soft(h);
                    let r = env.rt.block_on(async {
                        tokio::time::timeout(OP_TIMEOUT, s.init.execute_soft(block)).await
                    });
                    let log = take_log(env);
                    // `Ok(())` without any RPC is the silent drop of a stale block
                    let o = outcome(r, log == "-");
                    format!("{o} | {log}")
                }
                "firm" => {
                    let h: u64 = t[1].parse().unwrap();
                    let c: u64 = t[2].parse().unwrap();
                    let block = env.blocks.firm(h, c);
                    let r = env.rt.block_on(async {
                        tokio::time::timeout(OP_TIMEOUT, s.init.execute_firm(block)).await
                    });
                    let log = take_log(env);
                    let o = outcome(r, false);
                    format!("{o} | {log}")
                }
                _ => {
                    let firm = parse_firm_list(t[1]);
                    let soft = parse_soft_list(t[2]);
                    // blocks beyond the capacity chosen by the real `create_block_channels` are
                    // not delivered (a reader would be waiting for room)
                    for (h, c) in &firm {
                        if s.firm_tx.try_send(env.blocks.firm(*h, *c)).is_err() {
                            break;
                        }
                    }
                    for h in &soft {
                        if s.soft_tx.try_send(env.blocks.soft(*h)).is_err() {
                            break;
                        }
                    }
                    // closing the receivers lets the loop see `None` once the buffers are drained
                    s.init.firm_blocks.close();
                    s.init.soft_blocks.close();
                    let r = env.rt.block_on(async {
                        tokio::time::timeout(OP_TIMEOUT, s.init.run_event_loop()).await
                    });
                    let mut left_f = 0;
                    while s.init.firm_blocks.try_recv().is_ok() {
                        left_f += 1;
                    }
                    let mut left_s = 0;
                    while s.init.soft_blocks.try_recv().is_ok() {
                        left_s += 1;
                    }
                    // fresh channels for the rest of the session
                    match super::create_block_channels(s.cfg.mode, &s.init.state) {
                        Ok(ch) => {
                            s.init.firm_blocks = ch.firm_receiver;
                            s.init.soft_blocks = ch.soft_receiver;
                            s.firm_tx = ch.firm_sender;
                            s.soft_tx = ch.soft_sender;
                        }
                        Err(_) => return "err:channels".to_string(),
                    }
                    let log = take_log(env);
                    let o = match r {
                        Ok(Ok(Some(_))) => "ok".to_string(),
                        Ok(Ok(None)) => "ok-none".to_string(),
                        Ok(Err(e)) => format!("err:{}", err_kind(&e)),
                        Err(_) => "err:timeout".to_string(),
                    };
                    format!("{o} | {log} | {} | left={left_f},{left_s}", dump_state(s))
                }
            };
            if t[0] == "loop" {
                res
            } else {
                format!("{res} | {}", dump_state(s))
            }
        }
        "cins" | "cpop" | "cdrop" | "cscan" => {
            let Session::Cache(c) = sess else {
                return "err:no-session".to_string();
            };
            let r = match t[0] {
                "cins" => {
                    let height: u64 = t[1].parse().unwrap();
                    let tag: u64 = t[2].parse().unwrap();
                    match c.insert(CBlock {
                        height,
                        tag,
                    }) {
                        Ok(()) => "ok".to_string(),
                        Err(CacheError::Old {
                            ..
                        }) => "err:old".to_string(),
                        Err(CacheError::Occupied {
                            ..
                        }) => "err:occupied".to_string(),
                        Err(_) => "err:other".to_string(),
                    }
                }
                "cpop" => match c.pop() {
                    Some(b) => format!("some:{}:{}", b.height, b.tag),
                    None => "none".to_string(),
                },
                "cscan" => {
                    // reveal the whole content: try to insert a probe (tag 0) at every height from
                    // `next` to `hi` (occupied slots answer `Occupied`), then pop everything
                    // (at most 64 heights, so that a cache whose next height went astray cannot
                    // stall the run)
                    let lo = c.next_height_to_pop();
                    let hi: u64 = t[1].parse::<u64>().unwrap().min(lo + 63);
                    let mut occ = vec![];
                    let mut h = lo;
                    while h <= hi {
                        if let Err(CacheError::Occupied {
                            ..
                        }) = c.insert(CBlock {
                            height: h,
                            tag: 0,
                        }) {
                            occ.push(h.to_string());
                        }
                        h += 1;
                    }
                    let mut popped = vec![];
                    while let Some(b) = c.pop() {
                        popped.push(format!("{}:{}", b.height, b.tag));
                    }
                    format!(
                        "occ={} popped={}",
                        if occ.is_empty() { "-".to_string() } else { occ.join(",") },
                        if popped.is_empty() { "-".to_string() } else { popped.join(",") }
                    )
                }
                _ => {
                    let h: u64 = t[1].parse().unwrap();
                    c.drop_obsolete(SequencerHeight::try_from(h).unwrap());
                    "ok".to_string()
                }
            };
            format!("{r} | {}", dump_cache(c))
        }
        _ => panic!("unknown op {op}"),
    }
}

// ---------------------------------------------------------------------------------------------
// generator
// ---------------------------------------------------------------------------------------------

struct GenState {
    mode: CommitLevel,
    s: u64,
    r: u64,
    firm: u64, // rollup numbers as the generator believes them to be (only used to aim)
    soft: u64,
    lookahead: u64,
}

impl GenState {
    fn next_soft(&self) -> u64 {
        (self.s + self.soft + 1).saturating_sub(self.r).max(1)
    }

    fn next_firm(&self) -> u64 {
        (self.s + self.firm + 1).saturating_sub(self.r).max(1)
    }

    fn apply_soft(&mut self, h: u64) {
        if h == self.next_soft() {
            self.soft += 1;
        }
    }

    fn apply_firm(&mut self, h: u64) {
        if h == self.next_firm() {
            self.firm += 1;
            if self.firm > self.soft {
                self.soft = self.firm;
            }
        }
    }
}

fn gen_session(rng: &mut Rng, ops: &mut Vec<String>, idx: u64, thorough: bool) {
    let mode = match idx % 5 {
        0 => CommitLevel::SoftOnly,
        1 => CommitLevel::FirmOnly,
        _ => CommitLevel::SoftAndFirm,
    };
    // (sequencer start height, rollup start number)
    let (s, r) = match rng.below(8) {
        0 => (1, 0),
        1 => (1, 1),
        2 => (10, 3),
        3 => (1u64 << 32, 5),
        4 => (rng.range(1, 50), rng.range(0, 50)),
        5 => (rng.range(1, 1 << 40), rng.range(0, 1 << 20)),
        6 => (2, 1 << 33),
        _ => (rng.range(1, 1000), 1),
    };
    // initial commitment: fresh session (firm = soft = R-1, i.e. nothing executed yet), or a
    // restart with some firm / soft blocks already on the rollup
    let base = r.saturating_sub(1);
    let mut firm0 = match rng.below(4) {
        0 | 1 => base,
        _ => base + rng.below(6),
    };
    let mut soft0 = match rng.below(3) {
        0 => firm0,
        _ => firm0 + rng.below(5),
    };
    if mode == CommitLevel::FirmOnly && !rng.chance(8) {
        // a firm-only conductor on a rollup whose soft head is ahead of firm is rejected by the
        // rollup at the first ExecuteBlock (kept as a rare case for the correspondence only)
        soft0 = firm0;
    }
    let cel0 = rng.range(1, 100);
    let mut lookahead = match rng.below(10) {
        0..=2 => rng.range(1, 3),
        3..=5 => rng.range(3, 8),
        _ => rng.range(8, 100),
    };
    // sessions the conductor must refuse (or, for soft-only, accept although the firm number
    // cannot be mapped to a sequencer height)
    let mut refused = false;
    if rng.chance(5) {
        match rng.below(4) {
            0 if r >= 2 => {
                // rollup start number more than one above the firm number
                firm0 = rng.below(r - 1);
                soft0 = firm0 + rng.below(3);
                refused = mode != CommitLevel::SoftOnly || r > soft0 + 1;
            }
            1 => {
                // firm above soft
                firm0 = soft0 + rng.range(1, 3);
                refused = true;
            }
            2 if mode == CommitLevel::SoftAndFirm => {
                lookahead = 0;
                refused = true;
            }
            _ => {}
        }
    }
    // a rollup that violates the contract once (correspondence only: outside the theorems)
    let lie = if !refused && rng.chance(6) { rng.range(1, 4) } else { 0 };
    ops.push(format!(
        "reset exec {} {s} {r} {firm0} {soft0} {cel0} {lookahead}{}",
        mode_name(mode),
        if lie != 0 { format!(" {lie}") } else { String::new() }
    ));
    if refused {
        return;
    }
    let mut g = GenState {
        mode,
        s,
        r,
        firm: firm0,
        soft: soft0,
        lookahead,
    };
    let n = if thorough { rng.range(5, 40) } else { rng.range(3, 14) };
    let mut cel = cel0;
    let with_soft = mode != CommitLevel::FirmOnly;
    let with_firm = mode != CommitLevel::SoftOnly;
    for _ in 0..n {
        let c = rng.below(100);
        // occasionally run the real event loop over a batch
        if c < 7 {
            let nf = if with_firm { rng.below(5) } else { 0 };
            let ns = if with_soft {
                rng.below(8.min(if mode == CommitLevel::SoftAndFirm { lookahead } else { 8 }) + 1)
            } else {
                0
            };
            let mut fl = vec![];
            let mut gf = g.next_firm();
            for _ in 0..nf {
                cel += rng.below(3);
                let h = if rng.chance(85) { gf } else { gf + rng.below(3) };
                if h == gf {
                    gf += 1;
                }
                fl.push(format!("{h}/{cel}"));
            }
            let mut sl = vec![];
            let mut gs = g.next_soft();
            for _ in 0..ns {
                let h = if rng.chance(80) { gs } else { (gs + rng.below(4)).saturating_sub(2).max(1) };
                if h == gs {
                    gs += 1;
                }
                sl.push(h.to_string());
            }
            // keep the generator's belief roughly right: firm first, then soft
            for e in &fl {
                let h: u64 = e.split('/').next().unwrap().parse().unwrap();
                g.apply_firm(h);
            }
            for e in &sl {
                g.apply_soft(e.parse().unwrap());
            }
            ops.push(format!(
                "loop {} {}",
                if fl.is_empty() { "-".to_string() } else { fl.join(",") },
                if sl.is_empty() { "-".to_string() } else { sl.join(",") }
            ));
            continue;
        }
        // which reader delivers
        let soft_turn = if !with_firm {
            true
        } else if !with_soft {
            false
        } else {
            // soft usually leads; sometimes firm catches up or overtakes
            let lead = g.soft - g.firm;
            if lead == 0 { rng.chance(65) } else if lead > 4 { rng.chance(25) } else { rng.chance(50) }
        };
        if soft_turn {
            let e = g.next_soft();
            let h = match rng.below(100) {
                0..=71 => e,                                   // in order
                72..=79 => e.saturating_sub(1).max(1),         // duplicate of the last one
                80..=85 => e.saturating_sub(rng.range(1, 6)).max(1), // stale
                86..=91 => e + 1,                              // gap of one
                92..=95 => e + rng.range(2, 40),               // far ahead
                96..=97 => g.next_firm(),                      // the firm height
                _ => rng.range(1, e + 3),
            };
            g.apply_soft(h);
            ops.push(format!("soft {h}"));
        } else {
            let e = g.next_firm();
            let h = match rng.below(100) {
                0..=71 => e,
                72..=79 => e.saturating_sub(1).max(1),
                80..=84 => e.saturating_sub(rng.range(1, 6)).max(1),
                85..=90 => e + 1,
                91..=94 => e + rng.range(2, 40),
                95..=97 => g.next_soft(),
                _ => rng.range(1, e + 3),
            };
            cel += rng.below(3);
            g.apply_firm(h);
            ops.push(format!("firm {h} {cel}"));
        }
    }
}

fn gen_cache_session(rng: &mut Rng, ops: &mut Vec<String>, tag: &mut u64, thorough: bool) {
    let start = match rng.below(6) {
        0 => 0,
        1 => 1,
        2 => rng.range(1, 10),
        _ => rng.range(1, 1 << 33),
    };
    ops.push(format!("reset cache {start}"));
    if start == 0 {
        return;
    }
    let mut next = start; // generator's belief
    let mut hi = start;
    let n = if thorough { rng.range(5, 60) } else { rng.range(3, 25) };
    for _ in 0..n {
        match rng.below(100) {
            0..=54 => {
                let h = match rng.below(12) {
                    0..=4 => next,
                    5..=6 => next + 1,
                    7 => next + rng.range(2, 6),
                    8 => next.saturating_sub(1),
                    9 => next.saturating_sub(rng.range(1, 4)),
                    _ => next + rng.below(4),
                };
                *tag += 1;
                hi = hi.max(h);
                ops.push(format!("cins {h} {tag}"));
            }
            55..=86 => {
                ops.push("cpop".to_string());
                // the belief may be wrong when the slot was empty; it only aims the generator
                if rng.chance(55) {
                    next += 1;
                }
            }
            _ => {
                let h = match rng.below(6) {
                    0 => next,
                    1 => next + 1,
                    2 => next + rng.range(2, 5),
                    3 => next.saturating_sub(1),
                    4 => next.saturating_sub(rng.range(1, 4)),
                    _ => rng.range(0, next + 3),
                };
                if h > next {
                    next = h;
                }
                ops.push(format!("cdrop {h}"));
            }
        }
    }
    ops.push(format!("cscan {}", hi + 1));
}

fn gen_ops(rng: &mut Rng, thorough: bool) -> Vec<String> {
    let mut ops = Vec::new();
    let sessions = if thorough { 5000 } else { 400 };
    for i in 0..sessions {
        gen_session(rng, &mut ops, i, thorough);
    }
    let mut tag = 0;
    let cache_sessions = if thorough { 3000 } else { 300 };
    for _ in 0..cache_sessions {
        gen_cache_session(rng, &mut ops, &mut tag, thorough);
    }
    ops
}

#[test]
fn driver() {
    let mut trace = Trace::from_env();
    let mut rng = Rng::from_env();
    let thorough = common::is_thorough();

    let rt = tokio::runtime::Builder::new_multi_thread()
        .worker_threads(2)
        .enable_all()
        .build()
        .unwrap();
    let fake = Arc::new(Mutex::new(Fake::new(
        Cfg {
            mode: CommitLevel::SoftAndFirm,
            seq_start: 1,
            rollup_start: 1,
            firm0: 0,
            soft0: 0,
            cel0: 1,
            lookahead: 1,
            lie: 0,
        },
        0,
    )));
    let addr = rt.block_on(async {
        let listener = tokio::net::TcpListener::bind("127.0.0.1:0").await.unwrap();
        let addr = listener.local_addr().unwrap();
        let svc = ExecutionServiceServer::new(FakeService(fake.clone()));
        tokio::spawn(async move {
            tonic::transport::Server::builder()
                .add_service(svc)
                .serve_with_incoming(tokio_stream::wrappers::TcpListenerStream::new(listener))
                .await
                .unwrap();
        });
        addr
    });
    let _guard = rt.enter();
    let (metrics, _handle) = telemetry::metrics::ConfigBuilder::new()
        .set_global_recorder(false)
        .build::<Metrics>(&())
        .unwrap();
    let metrics: &'static Metrics = Box::leak(Box::new(metrics));
    drop(_guard);
    let mut env = Env {
        rt,
        fake,
        addr,
        metrics,
        blocks: BlockFactory::new(),
        sessions: 0,
        timeouts: 0,
    };

    let ops = match common::replay_lines() {
        Some(lines) => lines
            .into_iter()
            .map(|l| l.strip_prefix("executor ").map(str::to_string).unwrap_or(l))
            .collect(),
        None => {
            let mut ops: Vec<String> = common::corpus_lines()
                .into_iter()
                .map(|l| l.strip_prefix("executor ").map(str::to_string).unwrap_or(l))
                .collect();
            ops.extend(gen_ops(&mut rng, thorough));
            ops
        }
    };

    let mut sess = Session::None;
    for op in &ops {
        let res = exec(&mut env, &mut sess, op);
        if res.starts_with("err:timeout") {
            env.timeouts += 1;
        }
        trace.line(&format!("executor {op} => {res}"));
    }
    trace.finish();
}
