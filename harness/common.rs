// Shared helpers for the in-crate verification harnesses (included with #[path]).
// Everything random derives from one SplitMix64 state seeded by VERIF_SEED.
#![allow(dead_code)]

use std::{
    fmt::Write as _,
    io::Write as _,
};

pub struct Rng(pub u64);

impl Rng {
    pub fn from_env() -> Self {
        let seed = std::env::var("VERIF_SEED")
            .ok()
            .and_then(|s| s.parse::<u64>().ok())
            .unwrap_or(1);
        Rng(seed ^ 0x9E37_79B9_7F4A_7C15)
    }

    pub fn next(&mut self) -> u64 {
        self.0 = self.0.wrapping_add(0x9E37_79B9_7F4A_7C15);
        let mut z = self.0;
        z = (z ^ (z >> 30)).wrapping_mul(0xBF58_476D_1CE4_E5B9);
        z = (z ^ (z >> 27)).wrapping_mul(0x94D0_49BB_1331_11EB);
        z ^ (z >> 31)
    }

    /// uniform in [0, n)
    pub fn below(&mut self, n: u64) -> u64 {
        if n == 0 {
            0
        } else {
            self.next() % n
        }
    }

    pub fn range(&mut self, lo: u64, hi_incl: u64) -> u64 {
        lo + self.below(hi_incl - lo + 1)
    }

    pub fn chance(&mut self, percent: u64) -> bool {
        self.below(100) < percent
    }

    pub fn pick<'a, T>(&mut self, xs: &'a [T]) -> &'a T {
        &xs[self.below(xs.len() as u64) as usize]
    }

    pub fn bytes(&mut self, len: usize) -> Vec<u8> {
        (0..len).map(|_| self.next() as u8).collect()
    }
}

pub fn tier() -> String {
    std::env::var("VERIF_TIER").unwrap_or_else(|_| "quick".to_string())
}

pub fn is_thorough() -> bool {
    tier() == "thorough"
}

pub fn hex(bytes: &[u8]) -> String {
    if bytes.is_empty() {
        return "-".to_string();
    }
    let mut s = String::with_capacity(bytes.len() * 2);
    for b in bytes {
        write!(s, "{b:02x}").unwrap();
    }
    s
}

pub fn unhex(s: &str) -> Vec<u8> {
    if s == "-" {
        return vec![];
    }
    (0..s.len() / 2)
        .map(|i| u8::from_str_radix(&s[2 * i..2 * i + 2], 16).unwrap())
        .collect()
}

/// The trace file. One line per operation: `<area> <op> <args…> => <result>`.
pub struct Trace {
    out: std::io::BufWriter<std::fs::File>,
    pub lines: u64,
}

impl Trace {
    pub fn from_env() -> Self {
        let path = std::env::var("VERIF_OUT").expect("VERIF_OUT must be set");
        let file = std::fs::File::create(path).expect("can create VERIF_OUT");
        Trace {
            out: std::io::BufWriter::new(file),
            lines: 0,
        }
    }

    pub fn line(&mut self, s: &str) {
        debug_assert!(!s.contains('\n'));
        self.out.write_all(s.as_bytes()).unwrap();
        self.out.write_all(b"\n").unwrap();
        self.lines += 1;
    }

    pub fn finish(mut self) {
        self.out.flush().unwrap();
    }
}

/// Replay file given? (one op per line, without the `=> result` part or with it; the
/// harness re-executes the op and writes the fresh result)
pub fn replay_lines() -> Option<Vec<String>> {
    let path = std::env::var("VERIF_REPLAY").ok()?;
    if path.is_empty() {
        return None;
    }
    let text = std::fs::read_to_string(path).ok()?;
    Some(
        text.lines()
            .filter(|l| !l.trim().is_empty() && !l.starts_with('#'))
            .map(|l| match l.find(" => ") {
                Some(p) => l[..p].to_string(),
                None => l.to_string(),
            })
            .collect(),
    )
}

/// Minimised past failures / witnesses that every run replays first.
pub fn corpus_lines() -> Vec<String> {
    let Ok(path) = std::env::var("VERIF_CORPUS") else {
        return vec![];
    };
    if path.is_empty() {
        return vec![];
    }
    let Ok(text) = std::fs::read_to_string(path) else {
        return vec![];
    };
    text.lines()
        .filter(|l| !l.trim().is_empty() && !l.starts_with('#'))
        .map(|l| match l.find(" => ") {
            Some(p) => l[..p].to_string(),
            None => l.to_string(),
        })
        .collect()
}

/// Run `f`, mapping a panic to `None`. The default panic hook is silenced while `f` runs.
pub fn no_panic<T>(f: impl FnOnce() -> T + std::panic::UnwindSafe) -> Option<T> {
    std::panic::catch_unwind(f).ok()
}

pub fn silence_panics() {
    if std::env::var("VERIF_SHOW_PANIC").is_ok() {
        return;
    }
    std::panic::set_hook(Box::new(|_| {}));
}
