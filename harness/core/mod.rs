// In-crate verification harness for astria-core. Hooked as a child module of
// `oracles::price_feed::utils` (private `median`); everything else is reached through
// `crate::` paths.  Compiled only with `--features verif` under cfg(test).
#![allow(clippy::pedantic, clippy::all, dead_code)]

#[path = "/verif/harness/common.rs"]
mod common;

use common::{
    no_panic,
    Rng,
    Trace,
};

use crate::oracles::price_feed::types::v2::Price;

fn exec(op: &str) -> String {
    let t: Vec<&str> = op.split(' ').collect();
    match t[0] {
        "median" => {
            // median <p1,p2,…|.>
            let ps: Vec<Price> = if t[1] == "." {
                vec![]
            } else {
                t[1].split(',').map(|s| Price::new(s.parse::<i128>().unwrap())).collect()
            };
            match no_panic(move || super::median(ps)) {
                Some(Some(m)) => m.get().to_string(),
                Some(None) => "none".to_string(),
                None => "panic".to_string(),
            }
        }
        _ => panic!("unknown op {op}"),
    }
}

fn gen_price(rng: &mut Rng) -> i128 {
    match rng.below(10) {
        0 => i128::MAX - rng.below(3) as i128,
        1 => i128::MIN + rng.below(3) as i128,
        2 => -(rng.below(10) as i128),
        3 => rng.below(10) as i128,
        4 => -((rng.next() as i128) << rng.below(60)),
        5 => (rng.next() as i128) << rng.below(60),
        6 => -(rng.below(1000) as i128) * 2 - 1,
        _ => (rng.next() % 200_000) as i128 - 100_000,
    }
}

fn gen_ops(rng: &mut Rng, thorough: bool) -> Vec<String> {
    let mut ops = vec!["median .".to_string()];
    // exhaustive small: all lists of length ≤ 3 over -4..=4
    for a in -4i128..=4 {
        ops.push(format!("median {a}"));
        for b in -4i128..=4 {
            ops.push(format!("median {a},{b}"));
            if thorough {
                for c in -4i128..=4 {
                    for d in -4i128..=4 {
                        ops.push(format!("median {a},{b},{c},{d}"));
                    }
                }
            }
        }
    }
    let n = if thorough { 100_000 } else { 4000 };
    for _ in 0..n {
        let len = rng.range(1, 9) as usize;
        let ps: Vec<String> = (0..len).map(|_| gen_price(rng).to_string()).collect();
        ops.push(format!("median {}", ps.join(",")));
    }
    ops
}

#[test]
fn driver() {
    common::silence_panics();
    let mut rng = Rng::from_env();
    let mut trace = Trace::from_env();
    let ops = match common::replay_lines() {
        Some(lines) => lines,
        None => {
            let mut v = common::corpus_lines();
            v.extend(gen_ops(&mut rng, common::is_thorough()));
            v
        }
    };
    for op in ops {
        let op = op.strip_prefix("core ").unwrap_or(&op).to_string();
        let res = exec(&op);
        trace.line(&format!("core {op} => {res}"));
    }
    trace.finish();
}
