// In-crate verification harness for astria-composer's bundle factory (C16).
// Included as a child module of `executor::bundle_factory` so that the private fields are
// readable for the state dump.  Compiled only with `--features verif` under cfg(test).
#![allow(clippy::pedantic, clippy::all, dead_code)]

#[path = "/verif/harness/common.rs"]
mod common;

use astria_core::{
    primitive::v1::RollupId,
    protocol::transaction::v1::{
        action::RollupDataSubmission,
        Action,
    },
    Protobuf as _,
};
use common::{
    Rng,
    Trace,
};
use prost::Message as _;

use super::{
    BundleFactory,
    BundleFactoryError,
    SizedBundle,
};

fn action(id: u64, data_len: usize, rollup: u8) -> RollupDataSubmission {
    let mut data = id.to_be_bytes().to_vec();
    data.resize(data_len.max(8), 0xAB);
    RollupDataSubmission {
        rollup_id: RollupId::new([rollup; 32]),
        data: data.into(),
        fee_asset: "nria".parse().unwrap(),
    }
}

/// The size the factory is specified to account for: the prost encoded length of the action
/// after its fee asset was converted to the ibc-prefixed form. Computed independently here.
fn spec_len(a: &RollupDataSubmission) -> usize {
    let a = RollupDataSubmission {
        fee_asset: a.fee_asset.to_ibc_prefixed().into(),
        ..a.clone()
    };
    a.to_raw().encoded_len()
}

fn id_of(a: &Action) -> u64 {
    match a {
        Action::RollupDataSubmission(r) => u64::from_be_bytes(r.data[..8].try_into().unwrap()),
        _ => u64::MAX,
    }
}

fn fmt_bundle(b: &SizedBundle) -> String {
    let ids: Vec<String> = b.buffer.iter().map(|a| id_of(a).to_string()).collect();
    // the size the executor would actually put on the wire for these actions
    let real: usize = b
        .buffer
        .iter()
        .map(|a| match a {
            Action::RollupDataSubmission(r) => r.to_raw().encoded_len(),
            _ => 0,
        })
        .sum();
    format!("[{}]:{}:{}", ids.join(","), b.curr_size, real)
}

fn dump(f: &BundleFactory) -> String {
    let fin: Vec<String> = f.finished.iter().map(fmt_bundle).collect();
    format!(
        "curr={} fin={} full={}",
        fmt_bundle(&f.curr_bundle),
        if fin.is_empty() { "-".to_string() } else { fin.join("/") },
        f.is_full()
    )
}

struct Session {
    f: BundleFactory,
}

fn exec(s: &mut Option<Session>, op: &str) -> String {
    let t: Vec<&str> = op.split(' ').collect();
    match t[0] {
        "reset" => {
            let max: usize = t[1].parse().unwrap();
            let cap: usize = t[2].parse().unwrap();
            *s = Some(Session {
                f: BundleFactory::new(max, cap),
            });
            format!("ok | {}", dump(&s.as_ref().unwrap().f))
        }
        "push" => {
            let id: u64 = t[1].parse().unwrap();
            let d: usize = t[2].parse().unwrap();
            let r: u8 = t[3].parse().unwrap();
            let a = action(id, d, r);
            let len = spec_len(&a);
            let f = &mut s.as_mut().unwrap().f;
            let res = match f.try_push(a) {
                Ok(()) => "ok",
                Err(BundleFactoryError::SequenceActionTooLarge {
                    ..
                }) => "too-large",
                Err(BundleFactoryError::FinishedQueueFull(_)) => "queue-full",
            };
            format!("{res} len={len} | {}", dump(f))
        }
        "popfin" => {
            let f = &mut s.as_mut().unwrap().f;
            let res = match f.next_finished() {
                Some(n) => fmt_bundle(&n.pop()),
                None => "none".to_string(),
            };
            format!("{res} | {}", dump(f))
        }
        "popnow" => {
            let f = &mut s.as_mut().unwrap().f;
            let b = f.pop_now();
            format!("{} | {}", fmt_bundle(&b), dump(f))
        }
        _ => panic!("unknown op {op}"),
    }
}

fn gen_ops(rng: &mut Rng, thorough: bool) -> Vec<String> {
    let mut ops = Vec::new();
    let sessions = if thorough { 6000 } else { 400 };
    let mut id = 0u64;
    // overhead of an empty-data action, to aim sizes around the limit
    let base = spec_len(&action(0, 8, 1)) - 8;
    for s in 0..sessions {
        let max = match s % 5 {
            0 => rng.range(base as u64 + 8, base as u64 + 40),
            1 => rng.range(200, 400),
            _ => rng.range(100, 1200),
        } as usize;
        let cap = if s % 7 == 0 { rng.range(4, 64) } else { rng.below(4) };
        ops.push(format!("reset {max} {cap}"));
        let n = if thorough { rng.range(10, 120) } else { rng.range(5, 60) };
        for _ in 0..n {
            let c = rng.below(100);
            if c < 72 {
                id += 1;
                // lengths: tiny, around max/k, exactly max, max+1, way above
                let target = match rng.below(8) {
                    0 => max,
                    1 => max + 1,
                    2 => max.saturating_sub(1),
                    3 => max / 2,
                    4 => max / 2 + 1,
                    5 => max / 3,
                    6 => max * 2,
                    _ => rng.range(0, max as u64 + 10) as usize,
                };
                let d = target.saturating_sub(base + 2).max(8);
                ops.push(format!("push {id} {d} {}", rng.range(1, 3)));
            } else if c < 86 {
                ops.push("popfin".to_string());
            } else {
                ops.push("popnow".to_string());
            }
        }
        // drain so that everything accepted is observed
        for _ in 0..rng.range(0, 3) {
            ops.push("popnow".to_string());
        }
    }
    ops
}

#[test]
fn driver() {
    common::silence_panics();
    let mut rng = Rng::from_env();
    let mut trace = Trace::from_env();
    let ops = match common::replay_lines() {
        Some(lines) => lines,
        None => {
            let mut v = common::corpus_lines();
            v.extend(gen_ops(&mut rng, common::is_thorough()));
            v
        }
    };
    let mut session = None;
    for op in ops {
        let op = op.strip_prefix("composer ").unwrap_or(&op).to_string();
        let res = exec(&mut session, &op);
        trace.line(&format!("composer {op} => {res}"));
    }
    trace.finish();
}
