// In-crate verification harness for property C12 (area `batch`), see /verif/docs/SLICE_GUIDE.md.
//
// Hooked as `relayer::write::verif` (child of `relayer/write/mod.rs`), so it reaches the private
// `BlobSubmitter` (fields `next_submission`, `pending_block`, methods `has_capacity`,
// `add_sequencer_block_to_next_submission`) and the `pub(super)` API of `write::conversion`
// (`NextSubmission::{new,try_add,take}`, `Submission::*`, `InputMeta` via serde).
//
// What is REAL code here: `BlobSubmitter::{has_capacity, add_sequencer_block_to_next_submission}`
// (hence `NextSubmission::try_add`, `Input::extend_from_sequencer_block`, `try_into_payload`,
// brotli, `Blob::new`), `NextSubmission::take` / `TakeSubmission::poll`, every `Submission`
// accessor, `IncludeRollup::parse/should_include`, `SequencerBlock::split_for_celestia`, and the
// decode functions conductor uses (`decompress_bytes`, prost decode of the two list types,
// `SubmittedMetadata::try_from_raw`, `SubmittedRollupData::try_from_raw`).
// Two kinds of sessions:
//  * step sessions (`batch reset|recv|take|takedrop|done|end`): the harness plays the arms of
//    `BlobSubmitter::run` one at a time around the real functions, so every intermediate result is
//    visible. REPLICATED here: the three lines of the `recv` arm (capacity guard, "already
//    submitted" skip), the `pending_block.take()` hand-over after a take, and the completion of
//    the in-flight submission;
//  * end-to-end sessions (`batch e2e-…`): the REAL `BlobSubmitter::run` select loop runs as a
//    task against an in-process Celestia app (gRPC on 127.0.0.1:0) that confirms one `BlobTx` at
//    a time; blocks go through the real `BlobSubmitterHandle`, the `BlobTx` blobs the mock
//    receives are decoded and compared.
// The relayer crate cannot depend on astria-conductor, so conductor's `convert.rs` steps are
// replicated with the same astria-core functions.
#![allow(clippy::pedantic, clippy::all, dead_code, unused_imports)]

#[path = "/verif/harness/common.rs"]
mod common;

use std::{
    collections::{
        BTreeMap,
        HashMap,
    },
    sync::Arc,
};

use astria_core::{
    brotli::{
        compress_bytes,
        decompress_bytes,
    },
    crypto::SigningKey,
    generated::astria::sequencerblock::v1::{
        SubmittedMetadata as RawMeta,
        SubmittedMetadataList,
        SubmittedRollupData as RawRollup,
        SubmittedRollupDataList,
    },
    primitive::v1::RollupId,
    protocol::test_utils::{
        ConfigureSequencerBlock,
        UnixTimeStamp,
    },
    sequencerblock::v1::{
        block,
        SubmittedMetadata,
        SubmittedRollupData,
    },
};
use base64::prelude::*;
use celestia_types::{
    nmt::Namespace,
    Blob,
};
use common::{
    hex,
    unhex,
    Rng,
    Trace,
};
use futures::FutureExt as _;
use prost::Message as _;
use sequencer_client::SequencerBlock;
use sha2::{
    Digest as _,
    Sha256,
};
use telemetry::Metrics as _;
use tokio_util::sync::CancellationToken;

use super::{
    conversion::{
        self,
        NextSubmission,
        Submission,
        TryAddError,
    },
    BlobSubmitter,
};
use crate::{
    metrics::Metrics,
    IncludeRollup,
};

/// `conversion::MAX_PAYLOAD_SIZE_BYTES` is private to `conversion`; the property fixes it.
const LIMIT: usize = 1_000_000;

// ---------------------------------------------------------------------------------------------
// deterministic block construction
// ---------------------------------------------------------------------------------------------

fn rollup_id(k: u8) -> RollupId {
    // ids 0/1 and 2/3 share their first 10 bytes, i.e. their Celestia namespace
    let g = if k < 4 { k / 2 } else { k };
    let mut b = [0u8; 32];
    for (i, x) in b.iter_mut().enumerate() {
        *x = if i < 10 {
            0xA0u8.wrapping_add(g)
        } else {
            k.wrapping_mul(17).wrapping_add(i as u8)
        };
    }
    RollupId::new(b)
}

fn fill_random(seed: u64, len: usize) -> Vec<u8> {
    let mut rng = Rng(seed ^ 0x5851_F42D_4C95_7F2D);
    let mut v = Vec::with_capacity(len + 8);
    while v.len() < len {
        v.extend_from_slice(&rng.next().to_le_bytes());
    }
    v.truncate(len);
    v
}

#[derive(Clone, Debug)]
struct BlockSpec {
    height: u32,
    chain: u8,
    seed: u64,
    flags: u8,
    /// (rollup index, kind 'r' random / 'z' zeros, length)
    data: Vec<(u8, char, usize)>,
}

impl BlockSpec {
    fn to_tokens(&self) -> String {
        let d = if self.data.is_empty() {
            "-".to_string()
        } else {
            self.data
                .iter()
                .map(|(k, c, l)| format!("{k}:{c}:{l}"))
                .collect::<Vec<_>>()
                .join(",")
        };
        format!(
            "h={} c={} s={} f={} d={}",
            self.height, self.chain, self.seed, self.flags, d
        )
    }

    fn parse(words: &[&str]) -> Option<Self> {
        let mut spec = BlockSpec {
            height: 0,
            chain: 0,
            seed: 0,
            flags: 3,
            data: vec![],
        };
        for w in words {
            let (k, v) = w.split_once('=')?;
            match k {
                "h" => spec.height = v.parse().ok()?,
                "c" => spec.chain = v.parse().ok()?,
                "s" => spec.seed = v.parse().ok()?,
                "f" => spec.flags = v.parse().ok()?,
                "d" => {
                    if v != "-" {
                        for item in v.split(',') {
                            let mut it = item.split(':');
                            let k: u8 = it.next()?.parse().ok()?;
                            let c: char = it.next()?.chars().next()?;
                            let l: usize = it.next()?.parse().ok()?;
                            spec.data.push((k, c, l));
                        }
                    }
                }
                _ => return None,
            }
        }
        Some(spec)
    }

    fn chain_id(&self) -> String {
        format!("batch-{}", self.chain)
    }

    fn make(&self) -> SequencerBlock {
        let mut hash = [0u8; 32];
        let d = Sha256::digest(format!("{}|{}|{}", self.height, self.chain, self.seed));
        hash.copy_from_slice(&d);
        let sequence_data = self
            .data
            .iter()
            .enumerate()
            .map(|(i, (k, c, l))| {
                let bytes = match c {
                    'z' => vec![0u8; *l],
                    _ => fill_random(self.seed.wrapping_mul(31).wrapping_add(i as u64), *l),
                };
                (rollup_id(*k), bytes)
            })
            .collect();
        ConfigureSequencerBlock {
            block_hash: Some(block::Hash::new(hash)),
            chain_id: Some(self.chain_id()),
            height: self.height,
            proposer_address: Some(tendermint::account::Id::new([7u8; 20])),
            signing_key: Some(SigningKey::from([9u8; 32])),
            sequence_data,
            deposits: vec![],
            unix_timestamp: UnixTimeStamp {
                secs: 1_700_000_000 + i64::from(self.height),
                nanos: 0,
            },
            use_data_items: true,
            with_aspen: self.flags & 1 != 0,
            with_extended_commit_info: self.flags & 2 != 0,
        }
        .make()
    }
}

// ---------------------------------------------------------------------------------------------
// canonical text of entries
// ---------------------------------------------------------------------------------------------

fn dig(bytes: &[u8]) -> String {
    hex(&Sha256::digest(bytes)[..6])
}

fn ns_text(ns: &Namespace) -> String {
    match ns.id_v0() {
        Some(id) => hex(id),
        None => hex(ns.as_bytes()),
    }
}

fn raw_meta_height(raw: &RawMeta) -> u64 {
    raw.header.as_ref().map_or(0, |h| h.height)
}

fn raw_rollup_id_hex(raw: &RawRollup) -> String {
    raw.rollup_id
        .as_ref()
        .map_or_else(|| "-".to_string(), |id| hex(&id.inner))
}

fn meta_entry_text(raw: &RawMeta) -> String {
    format!("{}.{}", raw_meta_height(raw), dig(&raw.encode_to_vec()))
}

fn rollup_entry_text(raw: &RawRollup) -> String {
    format!("{}.{}", raw_rollup_id_hex(raw), dig(&raw.encode_to_vec()))
}

/// A source block in split form (`split_for_celestia`), raw.
#[derive(Clone)]
struct Source {
    block: SequencerBlock,
    height: u64,
    hash: [u8; 32],
    seq_ns: Namespace,
    meta: RawMeta,
    rollups: Vec<(RollupId, RawRollup)>,
}

impl Source {
    fn new(block: SequencerBlock) -> Self {
        let (meta, rollups) = block.clone().split_for_celestia();
        let seq_ns = astria_core::celestia::namespace_v0_from_sha256_of_bytes(
            meta.cometbft_chain_id().as_str().as_bytes(),
        );
        let mut hash = [0u8; 32];
        hash.copy_from_slice(block.block_hash().as_bytes());
        Source {
            height: block.height().value(),
            hash,
            seq_ns,
            meta: meta.into_raw(),
            rollups: rollups
                .into_iter()
                .map(|r| (r.rollup_id(), r.into_raw()))
                .collect(),
            block,
        }
    }

    /// `blk=<height>:<chain namespace>:<metadata digest>:<rollup>.<digest>+…` (block order)
    fn text(&self) -> String {
        let rs = if self.rollups.is_empty() {
            "-".to_string()
        } else {
            self.rollups
                .iter()
                .map(|(_, raw)| rollup_entry_text(raw))
                .collect::<Vec<_>>()
                .join("+")
        };
        format!(
            "{}:{}:{}:{}",
            self.height,
            ns_text(&self.seq_ns),
            dig(&self.meta.encode_to_vec()),
            rs
        )
    }
}

// ---------------------------------------------------------------------------------------------
// reference computation of the candidate payload size (the `csize` oracle of the model)
// ---------------------------------------------------------------------------------------------

#[derive(Clone, Default)]
struct Shadow {
    seq_ns: Option<Namespace>,
    metadata: Vec<RawMeta>,
    rollups: Vec<(Namespace, Vec<RawRollup>)>,
}

impl Shadow {
    fn extended(&self, src: &Source, filter: &IncludeRollup) -> Shadow {
        let mut s = self.clone();
        s.seq_ns.get_or_insert(src.seq_ns);
        s.metadata.push(src.meta.clone());
        for (id, raw) in &src.rollups {
            if filter.should_include(id) {
                let ns = astria_core::celestia::namespace_v0_from_rollup_id(*id);
                match s.rollups.iter_mut().find(|(n, _)| *n == ns) {
                    Some((_, list)) => list.push(raw.clone()),
                    None => s.rollups.push((ns, vec![raw.clone()])),
                }
            }
        }
        s
    }

    /// sum of the brotli-compressed sizes of the protobuf-encoded lists
    fn csize(&self) -> usize {
        let mut total = compress_bytes(
            &SubmittedMetadataList {
                entries: self.metadata.clone(),
            }
            .encode_to_vec(),
        )
        .expect("compress")
        .len();
        for (_, entries) in &self.rollups {
            total += compress_bytes(
                &SubmittedRollupDataList {
                    entries: entries.clone(),
                }
                .encode_to_vec(),
            )
            .expect("compress")
            .len();
        }
        total
    }
}

struct Decoded {
    blobs_text: String,
    real: usize,
    ureal: usize,
    malformed: usize,
    orphans: usize,
    dec: String,
}

/// Conductor-style decoding of the blobs of one submission (`celestia/convert.rs`) and the
/// comparison with the source blocks.
fn decode_blobs(
    blobs: &[(Namespace, Vec<u8>)],
    sources: &HashMap<[u8; 32], Source>,
    filter: &IncludeRollup,
) -> Decoded {
let real: usize = blobs.iter().map(|b| b.1.len()).sum();

    // --- conductor-style decoding (convert.rs): decompress, decode the list, try_from_raw ---
    let mut ureal = 0usize;
    let mut blob_texts: Vec<String> = vec![];
    let mut dec_meta: Vec<RawMeta> = vec![];
    let mut dec_rollup: Vec<(Namespace, RawRollup)> = vec![];
    let mut malformed = 0usize;
    let seq_ns_real = blobs.first().map(|b| b.0);
    for (i, (blob_ns, blob_data)) in blobs.iter().enumerate() {
        let ns = ns_text(blob_ns);
        let Ok(data) = decompress_bytes(blob_data) else {
            blob_texts.push(format!("{ns}:X:decompress"));
            malformed += 1;
            continue;
        };
        ureal += data.len();
        // the first blob is the metadata list (conductor fetches it under the sequencer
        // namespace); all others are rollup lists (fetched under the rollup's namespace)
        if i == 0 {
            match SubmittedMetadataList::decode(&*data) {
                Ok(list) => {
                    blob_texts.push(format!(
                        "{ns}:M:{}",
                        list.entries.iter().map(meta_entry_text).collect::<Vec<_>>().join("+")
                    ));
                    let all_ok = list
                        .entries
                        .iter()
                        .all(|raw| SubmittedMetadata::try_from_raw(raw.clone()).is_ok());
                    if all_ok {
                        dec_meta.extend(list.entries);
                    } else {
                        malformed += 1;
                    }
                }
                Err(_) => {
                    blob_texts.push(format!("{ns}:X:decode"));
                    malformed += 1;
                }
            }
        } else {
            match SubmittedRollupDataList::decode(&*data) {
                Ok(list) => {
                    blob_texts.push(format!(
                        "{ns}:R:{}",
                        list.entries.iter().map(rollup_entry_text).collect::<Vec<_>>().join("+")
                    ));
                    let all_ok = list
                        .entries
                        .iter()
                        .all(|raw| SubmittedRollupData::try_from_raw(raw.clone()).is_ok());
                    if all_ok {
                        dec_rollup.extend(list.entries.into_iter().map(|e| (*blob_ns, e)));
                    } else {
                        malformed += 1;
                    }
                }
                Err(_) => {
                    blob_texts.push(format!("{ns}:X:decode"));
                    malformed += 1;
                }
            }
        }
    }
    // canonical order: metadata blob first, then rollup blobs by namespace (HashMap order in the code)
    let split = usize::from(!blob_texts.is_empty());
    let (first, rest) = blob_texts.split_at_mut(split);
    rest.sort();
    let blobs_text = first
        .iter()
        .chain(rest.iter())
        .cloned()
        .collect::<Vec<_>>()
        .join(";");

    // --- per source block: is what conductor would get exactly the block's data? ---
    let mut dec: Vec<String> = vec![];
    let mut used_rollup = vec![false; dec_rollup.len()];
    let mut orphans = 0usize;
    for m in &dec_meta {
        let mut hash = [0u8; 32];
        if m.block_hash.len() == 32 {
            hash.copy_from_slice(&m.block_hash);
        }
        let Some(src) = sources.get(&hash) else {
            orphans += 1;
            continue;
        };
        let meta_ok = *m == src.meta
            && seq_ns_real.is_some()
            && dec_meta.iter().filter(|x| x.block_hash == m.block_hash).count() == 1;
        let mut want = 0usize;
        let mut got = 0usize;
        for (id, raw) in &src.rollups {
            if !filter.should_include(id) {
                continue;
            }
            want += 1;
            let ns = astria_core::celestia::namespace_v0_from_rollup_id(*id);
            let hits: Vec<usize> = dec_rollup
                .iter()
                .enumerate()
                .filter(|(_, (n, e))| {
                    *n == ns
                        && e.sequencer_block_hash == raw.sequencer_block_hash
                        && e.rollup_id == raw.rollup_id
                })
                .map(|(i, _)| i)
                .collect();
            if hits.len() == 1 && dec_rollup[hits[0]].1 == *raw {
                got += 1;
            }
            for i in hits {
                used_rollup[i] = true;
            }
        }
        dec.push(format!("{}:{}:{got}/{want}", src.height, u8::from(meta_ok)));
    }
    orphans += used_rollup.iter().filter(|u| !**u).count();

    Decoded {
        blobs_text,
        real,
        ureal,
        malformed,
        orphans,
        dec: if dec.is_empty() { "-".to_string() } else { dec.join(",") },
    }
}

// ---------------------------------------------------------------------------------------------
// session = one BlobSubmitter
// ---------------------------------------------------------------------------------------------

fn metrics() -> &'static Metrics {
    Box::leak(Box::new(Metrics::noop_metrics(&()).unwrap()))
}

struct Session {
    sub: BlobSubmitter,
    _tx: tokio::sync::mpsc::Sender<Box<SequencerBlock>>,
    filter: IncludeRollup,
    last: u64,
    inflight: Option<u64>,
    failed: bool,
    shadow: Shadow,
    sources: HashMap<[u8; 32], Source>,
}

fn new_submitter(filter: IncludeRollup, m: &'static Metrics) -> (BlobSubmitter, tokio::sync::mpsc::Sender<Box<SequencerBlock>>) {
    let state = Arc::new(crate::relayer::State::new());
    let key = tendermint::private_key::Secp256k1::from_slice(
        &unhex("c8076374e2a4a58db1c924e3dafc055e9685481054fe99e58ed67f5c6ed80e62"),
    )
    .unwrap();
    let client_builder = crate::relayer::CelestiaClientBuilder::new(
        "celestia-verif".to_string(),
        0.002,
        "http://127.0.0.1:1".parse().unwrap(),
        crate::relayer::CelestiaKeys::from(key),
        state.clone(),
    )
    .unwrap();
    let (tx, rx) = tokio::sync::mpsc::channel(8);
    let sub = BlobSubmitter {
        client_builder,
        blocks: rx,
        next_submission: NextSubmission::new(filter, m),
        state,
        submission_state_at_startup: None,
        submitter_shutdown_token: CancellationToken::new(),
        pending_block: None,
        metrics: m,
    };
    (sub, tx)
}

fn classify(err: &astria_eyre::eyre::Report) -> String {
    for cause in err.chain() {
        if let Some(e) = cause.downcast_ref::<TryAddError>() {
            return match e {
                TryAddError::Full(_) => "err:full-escaped".to_string(),
                TryAddError::IntoPayload(_) => "err:into-payload".to_string(),
                TryAddError::OversizedBlock {
                    sequencer_height,
                    compressed_size,
                } => format!("err:oversized:{}:{}", sequencer_height.value(), compressed_size),
            };
        }
    }
    "err:other".to_string()
}

impl Session {
    fn new(filter_ids: &[RollupId], last: u64, m: &'static Metrics) -> Self {
        let text = filter_ids
            .iter()
            .map(|id| BASE64_STANDARD.encode(id.as_ref()))
            .collect::<Vec<_>>()
            .join(",");
        let filter = IncludeRollup::parse(&text).expect("filter parses");
        let (sub, tx) = new_submitter(filter.clone(), m);
        Session {
            sub,
            _tx: tx,
            filter,
            last,
            inflight: None,
            failed: false,
            shadow: Shadow::default(),
            sources: HashMap::new(),
        }
    }

    fn pend_text(&self) -> String {
        self.sub
            .pending_block
            .as_ref()
            .map_or_else(|| "-".to_string(), |b| b.height().value().to_string())
    }

    /// `add_sequencer_block_to_next_submission` on the real submitter; returns
    /// (result word, candidate size, pending block is the very block handed in?)
    fn add(&mut self, src: &Source) -> (String, usize, bool) {
        let cand = self.shadow.extended(src, &self.filter);
        let csize = cand.csize();
        self.sources.insert(src.hash, src.clone());
        let res = self
            .sub
            .add_sequencer_block_to_next_submission(src.block.clone());
        match res {
            Ok(()) => {
                if let Some(p) = &self.sub.pending_block {
                    ("full".to_string(), csize, *p == src.block)
                } else {
                    self.shadow = cand;
                    ("ok".to_string(), csize, true)
                }
            }
            Err(e) => {
                self.failed = true;
                (classify(&e), csize, true)
            }
        }
    }

    fn recv(&mut self, spec: &BlockSpec) -> String {
        let src = Source::new(spec.make());
        let blk = src.text();
        // --- replica of the `recv` arm of `BlobSubmitter::run` ---
        if self.failed {
            return format!("stopped blk={blk} cand=- pend={}", self.pend_text());
        }
        if !self.sub.has_capacity() {
            return format!("blocked blk={blk} cand=- pend={}", self.pend_text());
        }
        if src.height <= self.last {
            return format!("skipped blk={blk} cand=- pend={}", self.pend_text());
        }
        let (res, csize, same) = self.add(&src);
        format!(
            "{res} blk={blk} cand={csize} pend={} # same={same}",
            self.pend_text()
        )
    }

    fn takedrop(&mut self) -> String {
        // the future is created and dropped without being polled: nothing may move
        let fut = self.sub.next_submission.take();
        drop(fut);
        "ok".to_string()
    }

    fn take(&mut self) -> String {
        // --- replica of the `take` arm of `BlobSubmitter::run` ---
        if self.failed {
            return "stopped".to_string();
        }
        if self.inflight.is_some() {
            return "busy".to_string();
        }
        let taken = self
            .sub
            .next_submission
            .take()
            .now_or_never()
            .expect("TakeSubmission is ready on first poll");
        let Some(submission) = taken else {
            return "none".to_string();
        };
        let (cmp, extra, greatest) = self.dump_submission(submission);
        self.inflight = Some(greatest);
        self.shadow = Shadow::default();
        let mut ho = "ho=- hblk=- hcand=-".to_string();
        let mut same = true;
        if let Some(block) = self.sub.pending_block.take() {
            let src = Source::new(block);
            let (res, csize, s) = self.add(&src);
            same = s;
            ho = format!("ho={res} hblk={} hcand={csize}", src.text());
        }
        format!("sub {cmp} {ho} pend={} # {extra} same={same}", self.pend_text())
    }

    fn done(&mut self) -> String {
        // --- replica of the completion arm (+ `PreparedSubmission::construct_and_write` ensure!) ---
        if self.failed {
            return "stopped".to_string();
        }
        match self.inflight.take() {
            None => "idle".to_string(),
            Some(h) => {
                if h > self.last {
                    self.last = h;
                    format!("completed:{h}")
                } else {
                    self.failed = true;
                    "submit-failed".to_string()
                }
            }
        }
    }

    fn end(&mut self) -> String {
        format!(
            "pend={} cap={} failed={}",
            self.pend_text(),
            self.sub.has_capacity(),
            self.failed
        )
    }

    /// Everything observable about a `Submission`; returns (compared part, implementation-only
    /// part, greatest height).
    fn dump_submission(&self, submission: Submission) -> (String, String, u64) {
        let nb = submission.num_blocks();
        let nblobs = submission.num_blobs();
        let csz = submission.compressed_size();
        let usz = submission.uncompressed_size();
        let greatest = submission.greatest_sequencer_height().value();
        let meta = serde_json::to_value(submission.input_metadata()).expect("InputMeta serializes");
        let heights = meta["sequencer_heights"]
            .as_array()
            .map(|a| {
                a.iter()
                    .map(|v| v.as_u64().map_or_else(|| v.to_string(), |n| n.to_string()))
                    .collect::<Vec<_>>()
                    .join(",")
            })
            .unwrap_or_default();
        let b64 = |s: &str| -> Vec<u8> {
            BASE64_STANDARD
                .decode(s)
                .or_else(|_| BASE64_URL_SAFE.decode(s))
                .unwrap_or_default()
        };
        let ns_of_b64 = |s: &str| -> String {
            let bytes = b64(s);
            if bytes.len() == 29 {
                hex(&bytes[19..])
            } else {
                hex(&bytes)
            }
        };
        let seqns = meta["sequencer_namespace"]
            .as_str()
            .map_or_else(|| "-".to_string(), |s| ns_of_b64(s));
        let mut incl: Vec<String> = meta["rollups_included"]
            .as_object()
            .map(|m| {
                m.iter()
                    .map(|(k, v)| format!("{}>{}", hex(&b64(k)), ns_of_b64(v.as_str().unwrap_or(""))))
                    .collect()
            })
            .unwrap_or_default();
        incl.sort();
        let mut excl: Vec<String> = meta["rollups_excluded"]
            .as_array()
            .map(|a| a.iter().map(|v| hex(&b64(v.as_str().unwrap_or("")))).collect())
            .unwrap_or_default();
        excl.sort();

        let blobs: Vec<(Namespace, Vec<u8>)> = submission
            .into_blobs()
            .into_iter()
            .map(|b| (b.namespace, b.data))
            .collect();
        let d = decode_blobs(&blobs, &self.sources, &self.filter);
        let (blobs_text, real, ureal, malformed, orphans) =
            (d.blobs_text, d.real, d.ureal, d.malformed, d.orphans);
        let dec = d.dec;

        let cmp = format!(
            "nb={nb} nblobs={nblobs} gh={greatest} hs={} csz={csz} seqns={seqns} incl={} excl={} blobs={blobs_text}",
            if heights.is_empty() { "-".to_string() } else { heights },
            if incl.is_empty() { "-".to_string() } else { incl.join(",") },
            if excl.is_empty() { "-".to_string() } else { excl.join(",") },
        );
        let extra = format!(
            "usz={usz} ureal={ureal} real={real} malformed={malformed} orph={orphans} dec={dec}"
        );
        (cmp, extra, greatest)
    }
}

// ---------------------------------------------------------------------------------------------
// end-to-end sessions: the REAL `BlobSubmitter::run` select loop against an in-process Celestia
// app (gRPC over a 127.0.0.1:0 listener). The mock confirms a broadcast `BlobTx` only when the
// script says so, which makes the batching of the real loop deterministic.
// ---------------------------------------------------------------------------------------------
mod e2e {
    use std::sync::{
        Arc,
        Mutex,
    };

    use astria_core::generated::{
        celestia::v1::{
            query_server::{
                Query as BlobQueryService,
                QueryServer as BlobQueryServer,
            },
            Params as BlobParams,
            QueryParamsRequest as QueryBlobParamsRequest,
            QueryParamsResponse as QueryBlobParamsResponse,
        },
        cosmos::{
            auth::v1beta1::{
                query_server::{
                    Query as AuthQueryService,
                    QueryServer as AuthQueryServer,
                },
                BaseAccount,
                Params as AuthParams,
                QueryAccountRequest,
                QueryAccountResponse,
                QueryParamsRequest as QueryAuthParamsRequest,
                QueryParamsResponse as QueryAuthParamsResponse,
            },
            base::{
                abci::v1beta1::TxResponse,
                node::v1beta1::{
                    service_server::{
                        Service as MinGasPriceService,
                        ServiceServer as MinGasPriceServer,
                    },
                    ConfigRequest as MinGasPriceRequest,
                    ConfigResponse as MinGasPriceResponse,
                },
                tendermint::v1beta1::{
                    service_server::{
                        Service as NodeInfoService,
                        ServiceServer as NodeInfoServer,
                    },
                    GetNodeInfoRequest,
                    GetNodeInfoResponse,
                },
            },
            tx::v1beta1::{
                service_server::{
                    Service as TxService,
                    ServiceServer as TxServer,
                },
                BroadcastTxRequest,
                BroadcastTxResponse,
                GetTxRequest,
                GetTxResponse,
            },
        },
        tendermint::{
            p2p::DefaultNodeInfo,
            types::BlobTx,
        },
    };
    use prost::{
        Message as _,
        Name as _,
    };
    use tonic::{
        transport::Server,
        Request,
        Response,
        Status,
    };

    pub const CELESTIA_CHAIN_ID: &str = "celestia-verif";

    #[derive(Default)]
    pub struct Captured {
        /// per broadcast `BlobTx`: (namespace id, blob data)
        pub broadcasts: Vec<Vec<(Vec<u8>, Vec<u8>)>>,
        /// number of broadcasts that `GetTx` reports as included
        pub confirmed: usize,
    }

    #[derive(Clone, Default)]
    pub struct Mock(pub Arc<Mutex<Captured>>);

    #[async_trait::async_trait]
    impl NodeInfoService for Mock {
        async fn get_node_info(
            self: Arc<Self>,
            _: Request<GetNodeInfoRequest>,
        ) -> Result<Response<GetNodeInfoResponse>, Status> {
            Ok(Response::new(GetNodeInfoResponse {
                default_node_info: Some(DefaultNodeInfo {
                    network: CELESTIA_CHAIN_ID.to_string(),
                    ..Default::default()
                }),
                ..Default::default()
            }))
        }
    }

    #[async_trait::async_trait]
    impl AuthQueryService for Mock {
        async fn account(
            self: Arc<Self>,
            request: Request<QueryAccountRequest>,
        ) -> Result<Response<QueryAccountResponse>, Status> {
            let account = BaseAccount {
                address: request.into_inner().address,
                pub_key: None,
                account_number: 10,
                sequence: 53,
            };
            Ok(Response::new(QueryAccountResponse {
                account: Some(pbjson_types::Any {
                    type_url: BaseAccount::type_url(),
                    value: account.encode_to_vec().into(),
                }),
            }))
        }

        async fn params(
            self: Arc<Self>,
            _: Request<QueryAuthParamsRequest>,
        ) -> Result<Response<QueryAuthParamsResponse>, Status> {
            Ok(Response::new(QueryAuthParamsResponse {
                params: Some(AuthParams {
                    max_memo_characters: 256,
                    tx_sig_limit: 7,
                    tx_size_cost_per_byte: 10,
                    sig_verify_cost_ed25519: 590,
                    sig_verify_cost_secp256k1: 1000,
                }),
            }))
        }
    }

    #[async_trait::async_trait]
    impl BlobQueryService for Mock {
        async fn params(
            self: Arc<Self>,
            _: Request<QueryBlobParamsRequest>,
        ) -> Result<Response<QueryBlobParamsResponse>, Status> {
            Ok(Response::new(QueryBlobParamsResponse {
                params: Some(BlobParams {
                    gas_per_blob_byte: 8,
                    gov_max_square_size: 64,
                }),
            }))
        }
    }

    #[async_trait::async_trait]
    impl MinGasPriceService for Mock {
        async fn config(
            self: Arc<Self>,
            _: Request<MinGasPriceRequest>,
        ) -> Result<Response<MinGasPriceResponse>, Status> {
            Ok(Response::new(MinGasPriceResponse {
                minimum_gas_price: "0.002000000000000000utia".to_string(),
            }))
        }
    }

    #[async_trait::async_trait]
    impl TxService for Mock {
        async fn get_tx(
            self: Arc<Self>,
            request: Request<GetTxRequest>,
        ) -> Result<Response<GetTxResponse>, Status> {
            let hash = request.into_inner().hash;
            let index = usize::from_str_radix(hash.trim_start_matches('0'), 16).unwrap_or(0);
            let confirmed = self.0.lock().unwrap().confirmed;
            if index < 1 || index > confirmed {
                return Err(Status::not_found("tx not found"));
            }
            Ok(Response::new(GetTxResponse {
                tx: None,
                tx_response: Some(TxResponse {
                    height: 100 + index as i64,
                    txhash: hash,
                    code: 0,
                    ..TxResponse::default()
                }),
            }))
        }

        async fn broadcast_tx(
            self: Arc<Self>,
            request: Request<BroadcastTxRequest>,
        ) -> Result<Response<BroadcastTxResponse>, Status> {
            let blob_tx = BlobTx::decode(request.into_inner().tx_bytes.as_ref())
                .map_err(|e| Status::invalid_argument(e.to_string()))?;
            let blobs = blob_tx
                .blobs
                .iter()
                .map(|b| (b.namespace_id.to_vec(), b.data.to_vec()))
                .collect();
            let mut cap = self.0.lock().unwrap();
            cap.broadcasts.push(blobs);
            // tx hashes are 1, 2, 3, … (64 hex digits)
            let txhash = format!("{:064x}", cap.broadcasts.len());
            Ok(Response::new(BroadcastTxResponse {
                tx_response: Some(TxResponse {
                    txhash,
                    code: 0,
                    ..TxResponse::default()
                }),
            }))
        }
    }

    /// Serves the mock on an OS-assigned local port; returns the address.
    pub async fn spawn(mock: Mock) -> std::net::SocketAddr {
        let listener = tokio::net::TcpListener::bind("127.0.0.1:0").await.unwrap();
        let addr = listener.local_addr().unwrap();
        tokio::spawn(async move {
            let _ = Server::builder()
                .add_service(NodeInfoServer::new(mock.clone()))
                .add_service(AuthQueryServer::new(mock.clone()))
                .add_service(BlobQueryServer::new(mock.clone()))
                .add_service(MinGasPriceServer::new(mock.clone()))
                .add_service(TxServer::new(mock))
                .serve_with_incoming(tokio_stream::wrappers::TcpListenerStream::new(listener))
                .await;
        });
        addr
    }
}

struct E2eSession {
    mock: e2e::Mock,
    state: Arc<crate::relayer::State>,
    handle: super::BlobSubmitterHandle,
    token: CancellationToken,
    join: Option<tokio::task::JoinHandle<astria_eyre::eyre::Result<()>>>,
    _state_file: tempfile::NamedTempFile,
    filter: IncludeRollup,
    sources: HashMap<[u8; 32], Source>,
    stuck: bool,
    exit: String,
}

const E2E_WAIT: std::time::Duration = std::time::Duration::from_secs(30);

impl E2eSession {
    async fn new(filter_ids: &[RollupId], m: &'static Metrics) -> Self {
        use std::io::Write as _;
        let text = filter_ids
            .iter()
            .map(|id| BASE64_STANDARD.encode(id.as_ref()))
            .collect::<Vec<_>>()
            .join(",");
        let filter = IncludeRollup::parse(&text).expect("filter parses");
        let mock = e2e::Mock::default();
        let addr = e2e::spawn(mock.clone()).await;
        let state = Arc::new(crate::relayer::State::new());
        let key = tendermint::private_key::Secp256k1::from_slice(&unhex(
            "c8076374e2a4a58db1c924e3dafc055e9685481054fe99e58ed67f5c6ed80e62",
        ))
        .unwrap();
        let client_builder = crate::relayer::CelestiaClientBuilder::new(
            e2e::CELESTIA_CHAIN_ID.to_string(),
            0.002,
            format!("http://{addr}").parse().unwrap(),
            crate::relayer::CelestiaKeys::from(key),
            state.clone(),
        )
        .unwrap();
        let mut state_file = tempfile::NamedTempFile::new().unwrap();
        state_file.write_all(br#"{"state":"fresh"}"#).unwrap();
        state_file.flush().unwrap();
        let startup = crate::relayer::SubmissionStateAtStartup::new_from_path(state_file.path())
            .await
            .expect("fresh submission state");
        let token = CancellationToken::new();
        let (submitter, handle) =
            BlobSubmitter::new(client_builder, filter.clone(), state.clone(), startup, token.clone(), m);
        let join = tokio::spawn(submitter.run());
        E2eSession {
            mock,
            state,
            handle,
            token,
            join: Some(join),
            _state_file: state_file,
            filter,
            sources: HashMap::new(),
            stuck: false,
            exit: "-".to_string(),
        }
    }

    fn queued(&self) -> usize {
        self.handle.tx.max_capacity() - self.handle.tx.capacity()
    }

    fn broadcasts(&self) -> usize {
        self.mock.0.lock().unwrap().broadcasts.len()
    }

    /// number of submissions whose completion the loop has processed: `submit_blobs` publishes the
    /// Celestia height (the mock answers 100 + k for the k-th BlobTx) right before it returns to
    /// the select arm that advances `started_submission`
    fn completed(&self) -> usize {
        let snapshot = *self.state.subscribe().borrow();
        serde_json::to_value(snapshot)
            .ok()
            .and_then(|v| v["latest_confirmed_celestia_height"].as_u64())
            .map_or(0, |h| h.saturating_sub(100) as usize)
    }

    async fn send(&mut self, spec: &BlockSpec) -> String {
        let src = Source::new(spec.make());
        // compressed size of the block alone (the model's size oracle for the e2e sessions is the
        // sum of these; the scripted sessions stay several percent away from the limit)
        let solo = Shadow::default().extended(&src, &self.filter).csize();
        let text = src.text();
        self.sources.insert(src.hash, src.clone());
        match self.handle.send(Box::new(src.block)).await {
            Ok(()) => format!("sent blk={text} solo={solo}"),
            Err(_) => format!("closed blk={text} solo={solo}"),
        }
    }

    async fn wait(&mut self, queued: usize, broadcasts: usize, completed: usize) -> String {
        let report = |s: &Self| {
            format!(
                "timeout queued={} broadcasts={} completed={}",
                s.queued(),
                s.broadcasts(),
                s.completed()
            )
        };
        if self.stuck {
            return report(self);
        }
        let t0 = std::time::Instant::now();
        loop {
            if self.queued() == queued && self.broadcasts() == broadcasts && self.completed() == completed {
                return "ok".to_string();
            }
            if t0.elapsed() > E2E_WAIT || self.join.as_ref().map_or(true, |j| j.is_finished()) {
                self.stuck = true;
                return report(self);
            }
            tokio::time::sleep(std::time::Duration::from_millis(20)).await;
        }
    }

    fn confirm(&mut self) -> String {
        let mut cap = self.mock.0.lock().unwrap();
        cap.confirmed = cap.broadcasts.len();
        "ok".to_string()
    }

    /// shut the loop down the way the relayer does and wait for it
    async fn finish(&mut self) -> String {
        self.confirm();
        self.token.cancel();
        if let Some(join) = self.join.take() {
            self.exit = match tokio::time::timeout(E2E_WAIT, join).await {
                Ok(Ok(Ok(()))) => "ok".to_string(),
                Ok(Ok(Err(e))) => {
                    eprintln!("batch: e2e loop exited with an error: {e:#}");
                    "err".to_string()
                }
                Ok(Err(_)) => "panic".to_string(),
                Err(_) => "timeout".to_string(),
            };
        }
        format!("subs={} exit={}", self.broadcasts(), self.exit)
    }

    fn sub(&self, i: usize) -> String {
        let cap = self.mock.0.lock().unwrap();
        let Some(raw) = cap.broadcasts.get(i) else {
            return "none".to_string();
        };
        let blobs: Vec<(Namespace, Vec<u8>)> = raw
            .iter()
            .map(|(ns, data)| {
                (
                    Namespace::new_v0(&ns[ns.len().saturating_sub(10)..]).unwrap_or(Namespace::TRANSACTION),
                    data.clone(),
                )
            })
            .collect();
        let d = decode_blobs(&blobs, &self.sources, &self.filter);
        format!(
            "nblobs={} blobs={} # real={} ureal={} malformed={} orph={} dec={}",
            blobs.len(),
            d.blobs_text,
            d.real,
            d.ureal,
            d.malformed,
            d.orphans,
            d.dec
        )
    }
}

// ---------------------------------------------------------------------------------------------
// op lines
// ---------------------------------------------------------------------------------------------

struct Exec<'a> {
    rt: &'a tokio::runtime::Runtime,
    session: Option<Session>,
    e2e: Option<E2eSession>,
    metrics: &'static Metrics,
}

fn parse_filter(words: &[&str]) -> Option<(Vec<RollupId>, u64)> {
    let mut ids = vec![];
    let mut last = 0u64;
    for w in words {
        if let Some(v) = w.strip_prefix("filter=") {
            if v != "all" {
                for h in v.split(',') {
                    let bytes = unhex(h);
                    if bytes.len() != 32 {
                        return None;
                    }
                    let mut b = [0u8; 32];
                    b.copy_from_slice(&bytes);
                    ids.push(RollupId::new(b));
                }
            }
        } else if let Some(v) = w.strip_prefix("last=") {
            last = v.parse().unwrap_or(0);
        }
    }
    Some((ids, last))
}

impl Exec<'_> {
    /// ops of the end-to-end sessions (`batch e2e-…`)
    fn exec_e2e(&mut self, words: &[&str]) -> String {
        if words[1] == "e2e-reset" {
            let Some((ids, _)) = parse_filter(&words[2..]) else {
                return "err:bad-op".to_string();
            };
            if let Some(mut old) = self.e2e.take() {
                let _ = self.rt.block_on(old.finish());
            }
            self.e2e = Some(self.rt.block_on(E2eSession::new(&ids, self.metrics)));
            return "ok".to_string();
        }
        let Some(s) = self.e2e.as_mut() else {
            return "err:no-session".to_string();
        };
        let arg = |key: &str| -> usize {
            words
                .iter()
                .find_map(|w| w.strip_prefix(key).and_then(|v| v.strip_prefix('=')))
                .and_then(|v| v.parse().ok())
                .unwrap_or(0)
        };
        match words[1] {
            "e2e-send" => match BlockSpec::parse(&words[2..]) {
                Some(spec) => self.rt.block_on(s.send(&spec)),
                None => "err:bad-op".to_string(),
            },
            "e2e-wait" => {
                let (q, b, c) = (arg("queued"), arg("broadcasts"), arg("completed"));
                self.rt.block_on(s.wait(q, b, c))
            }
            "e2e-confirm" => s.confirm(),
            "e2e-finish" => self.rt.block_on(s.finish()),
            "e2e-sub" => s.sub(words.get(2).and_then(|w| w.parse().ok()).unwrap_or(usize::MAX)),
            "e2e-end" => "ok".to_string(),
            _ => "err:bad-op".to_string(),
        }
    }

    fn exec(&mut self, op: &str) -> String {
        let words: Vec<&str> = op.split(' ').filter(|w| !w.is_empty()).collect();
        if words.len() < 2 || words[0] != "batch" {
            return "err:bad-op".to_string();
        }
        if words[1].starts_with("e2e-") {
            return self.exec_e2e(&words);
        }
        if words[1] == "reset" {
            // batch reset filter=all|<hex>,<hex> last=<n>
            let Some((ids, last)) = parse_filter(&words[2..]) else {
                return "err:bad-op".to_string();
            };
            self.session = Some(Session::new(&ids, last, self.metrics));
            return "ok".to_string();
        }
        let Some(s) = self.session.as_mut() else {
            return "err:no-session".to_string();
        };
        match words[1] {
            "recv" => match BlockSpec::parse(&words[2..]) {
                Some(spec) => s.recv(&spec),
                None => "err:bad-op".to_string(),
            },
            "take" => s.take(),
            "takedrop" => s.takedrop(),
            "done" => s.done(),
            "end" => s.end(),
            _ => "err:bad-op".to_string(),
        }
    }
}

// ---------------------------------------------------------------------------------------------
// generation
// ---------------------------------------------------------------------------------------------

fn filter_token(ids: &[u8]) -> String {
    if ids.is_empty() {
        "all".to_string()
    } else {
        ids.iter()
            .map(|k| hex(rollup_id(*k).as_ref()))
            .collect::<Vec<_>>()
            .join(",")
    }
}

fn random_filter(rng: &mut Rng) -> Vec<u8> {
    match rng.below(6) {
        0 | 1 => vec![],                         // include everything
        2 => vec![*rng.pick(&[0u8, 1, 2, 4, 5])], // one rollup
        3 => vec![0, 2, 5],                      // several, incl. one half of each shared namespace
        4 => vec![1, 3, 4, 6, 7],
        _ => vec![200],                          // a rollup that never occurs: everything filtered
    }
}

struct Gen {
    rng: Rng,
    next_seed: u64,
}

impl Gen {
    fn spec(&mut self, height: u32, chain: u8, data: Vec<(u8, char, usize)>) -> BlockSpec {
        self.next_seed += 1;
        BlockSpec {
            height,
            chain,
            seed: self.next_seed.wrapping_mul(0x9E37) ^ self.rng.below(1 << 20),
            flags: self.rng.below(4) as u8,
            data,
        }
    }

    fn small_data(&mut self) -> Vec<(u8, char, usize)> {
        let n = match self.rng.below(10) {
            0 => 0,
            1..=4 => self.rng.range(1, 2),
            5..=8 => self.rng.range(3, 5),
            _ => self.rng.range(6, 9),
        };
        (0..n)
            .map(|_| {
                let k = self.rng.below(8) as u8;
                let c = if self.rng.chance(25) { 'z' } else { 'r' };
                let l = match self.rng.below(4) {
                    0 => 0,
                    1 => self.rng.range(1, 40),
                    2 => self.rng.range(41, 600),
                    _ => self.rng.range(601, 3000),
                } as usize;
                (k, c, l)
            })
            .collect()
    }

    /// interleave take / done / takedrop around the recvs
    fn glue(&mut self, ops: &mut Vec<String>, density: u64) {
        while self.rng.chance(density) {
            match self.rng.below(10) {
                0..=3 => ops.push("batch take".to_string()),
                4..=7 => ops.push("batch done".to_string()),
                _ => ops.push("batch takedrop".to_string()),
            }
        }
    }

    fn drain(ops: &mut Vec<String>) {
        for _ in 0..3 {
            ops.push("batch done".to_string());
            ops.push("batch take".to_string());
        }
        ops.push("batch end".to_string());
    }

    /// many small blocks, never near the limit
    fn small_session(&mut self) -> Vec<String> {
        let filter = random_filter(&mut self.rng);
        let last = if self.rng.chance(30) { self.rng.range(1, 6) } else { 0 };
        let mut ops = vec![format!("batch reset filter={} last={last}", filter_token(&filter))];
        let adversarial = self.rng.chance(30);
        let n = self.rng.range(3, 12);
        let mut h = if self.rng.chance(50) { 1 } else { self.rng.range(1, 8) } as u32;
        for _ in 0..n {
            let chain = if adversarial && self.rng.chance(20) { 1 } else { 0 };
            let data = self.small_data();
            let spec = self.spec(h, chain, data);
            ops.push(format!("batch recv {}", spec.to_tokens()));
            self.glue(&mut ops, 35);
            if adversarial {
                // duplicates, gaps, going backwards
                match self.rng.below(6) {
                    0 => {}
                    1 => h = h.saturating_sub(self.rng.range(1, 3) as u32).max(1),
                    2 => h += self.rng.range(2, 5) as u32,
                    _ => h += 1,
                }
            } else {
                h += 1;
            }
        }
        Self::drain(&mut ops);
        ops
    }

    /// blocks of about LIMIT/div incompressible bytes: `div` or `div-1` of them fit
    fn straddle_session(&mut self, div: usize, n: usize) -> Vec<String> {
        let filter = if self.rng.chance(70) { vec![] } else { vec![0, 1, 4] };
        let mut ops = vec![format!("batch reset filter={} last=0", filter_token(&filter))];
        for i in 0..n {
            let base = LIMIT / div;
            let jitter = self.rng.range(0, (base / 6) as u64) as usize;
            let total = base - base / 12 + jitter;
            // spread over 1..3 rollups (all passing the filter)
            let parts = self.rng.range(1, 3) as usize;
            let ks = [0u8, 1, 4];
            let data = (0..parts).map(|p| (ks[p], 'r', total / parts)).collect();
            let spec = self.spec(1 + i as u32, 0, data);
            ops.push(format!("batch recv {}", spec.to_tokens()));
            if self.rng.chance(30) {
                ops.push("batch takedrop".to_string());
            }
            // let the batch fill up: take only every `div` blocks (the last of them fits or not,
            // depending on the jitter), sometimes earlier, sometimes while a submission is in flight
            if (i + 1) % div.max(2) == 0 || self.rng.chance(12) {
                if self.rng.chance(80) {
                    ops.push("batch done".to_string());
                }
                ops.push("batch take".to_string());
            }
        }
        Self::drain(&mut ops);
        ops
    }

    /// many blocks of ~110 KB: the batch fills up over 8-9 blocks; `recv` is also attempted while
    /// a block is pending (no capacity)
    fn medium_session(&mut self, n: usize) -> Vec<String> {
        let mut ops = vec![format!("batch reset filter={} last=0", filter_token(&[0, 1, 2, 3, 4]))];
        for i in 0..n {
            let total = 100_000 + self.rng.range(0, 25_000) as usize;
            let data = vec![(0u8, 'r', total / 2), (1, 'r', total / 4), (3, 'r', total / 4), (7, 'r', 50_000)];
            let spec = self.spec(10 + i as u32, 0, data);
            ops.push(format!("batch recv {}", spec.to_tokens()));
            if self.rng.chance(15) {
                ops.push("batch done".to_string());
                ops.push("batch take".to_string());
            }
        }
        Self::drain(&mut ops);
        ops
    }

    /// one block that is too large alone: hard error, first on an empty batch, then as the
    /// pending block after a take
    fn oversize_sessions(&mut self) -> Vec<Vec<String>> {
        let mut out = vec![];
        let big = LIMIT + 2_000 + self.rng.range(0, 5_000) as usize;
        let mut ops = vec!["batch reset filter=all last=0".to_string()];
        let spec = self.spec(1, 0, vec![(4, 'r', big)]);
        ops.push(format!("batch recv {}", spec.to_tokens()));
        let spec = self.spec(2, 0, vec![(4, 'r', 10)]);
        ops.push(format!("batch recv {}", spec.to_tokens()));
        Self::drain(&mut ops);
        out.push(ops);

        let mut ops = vec!["batch reset filter=all last=0".to_string()];
        let spec = self.spec(1, 0, vec![(5, 'r', 2_000)]);
        ops.push(format!("batch recv {}", spec.to_tokens()));
        let spec = self.spec(2, 0, vec![(5, 'r', big)]);
        ops.push(format!("batch recv {}", spec.to_tokens()));
        let spec = self.spec(3, 0, vec![(5, 'r', 10)]);
        ops.push(format!("batch recv {}", spec.to_tokens()));
        Self::drain(&mut ops);
        out.push(ops);
        out
    }

    /// the limit is on the COMPRESSED size, and filtered data does not count
    fn compressible_session(&mut self) -> Vec<String> {
        // rollup 6 is excluded: its 1.2 MB of random data never reach the payload
        let mut ops = vec![format!("batch reset filter={} last=0", filter_token(&[0, 1, 2, 4]))];
        for i in 0..3u32 {
            let spec = self.spec(
                1 + i,
                0,
                vec![(0, 'z', 1_500_000), (6, 'r', 1_200_000), (2, 'r', 700)],
            );
            ops.push(format!("batch recv {}", spec.to_tokens()));
        }
        Self::drain(&mut ops);
        ops
    }

    /// The real `BlobSubmitter::run` loop against the in-process Celestia mock. Blocks of about
    /// `LIMIT/div` incompressible bytes (several percent away from the limit, so that which blocks
    /// fit together does not depend on compression details); the script confirms one submission at
    /// a time and waits for the loop to settle, so the batching is deterministic. A block whose
    /// height was already submitted is sent again (must be skipped).
    fn e2e_session(&mut self, div: usize, n: usize, filter: &[u8]) -> Vec<String> {
        let mut ops = vec![format!("batch e2e-reset filter={}", filter_token(filter))];
        // per block: about 0.96 * LIMIT / div bytes on rollups that pass the filter
        let size = LIMIT * 96 / 100 / div;
        let mk = |g: &mut Gen, h: u32| {
            let data = vec![(0u8, 'r', size / 2), (4, 'r', size / 2), (6, 'r', 3_000)];
            g.spec(h, 0, data)
        };
        // the generator's own bookkeeping of the scripted loop (only used to choose the `e2e-wait`
        // arguments; the Lean model is the judge): queued heights, number of blocks and greatest
        // height of the accumulating batch, pending height, greatest height in flight
        let mut queued: Vec<u32> = vec![];
        let mut batch = 0usize;
        let mut pending: Option<u32> = None;
        let mut inflight: Option<u32> = None;
        let mut batch_max = 0u32;
        let mut last = 0u32;
        let mut broadcasts = 0usize;
        let mut completed = 0usize;
        let settle = |queued: &mut Vec<u32>,
                      batch: &mut usize,
                      pending: &mut Option<u32>,
                      inflight: &mut Option<u32>,
                      batch_max: &mut u32,
                      last: u32,
                      broadcasts: &mut usize| {
            loop {
                if inflight.is_none() && *batch > 0 {
                    *inflight = Some(*batch_max);
                    *broadcasts += 1;
                    *batch = 0;
                    *batch_max = 0;
                    if let Some(p) = pending.take() {
                        *batch = 1;
                        *batch_max = p;
                    }
                    continue;
                }
                if pending.is_none() && !queued.is_empty() {
                    let h = queued.remove(0);
                    if h <= last {
                        continue;
                    }
                    if *batch < div {
                        *batch += 1;
                        *batch_max = (*batch_max).max(h);
                    } else {
                        *pending = Some(h);
                    }
                    continue;
                }
                break;
            }
        };
        let mut h = 1u32;
        let mut sent = 0usize;
        // first block alone, so that a submission is in flight while the others arrive
        let spec = mk(self, h);
        ops.push(format!("batch e2e-send {}", spec.to_tokens()));
        queued.push(h);
        sent += 1;
        settle(&mut queued, &mut batch, &mut pending, &mut inflight, &mut batch_max, last, &mut broadcasts);
        ops.push(format!("batch e2e-wait queued={} broadcasts={broadcasts} completed={completed}", queued.len()));
        while sent < n {
            // a burst of blocks while the submission is in flight; one of them repeats a height
            let burst = (div + 2).min(n - sent);
            for i in 0..burst {
                h += 1;
                let spec = mk(self, h);
                ops.push(format!("batch e2e-send {}", spec.to_tokens()));
                queued.push(h);
                sent += 1;
                if i == 0 && sent > 2 {
                    // a block at exactly the height submitted last: `<=` must skip it
                    let dup = mk(self, last.max(1));
                    ops.push(format!("batch e2e-send {}", dup.to_tokens()));
                    queued.push(last.max(1));
                }
            }
            settle(&mut queued, &mut batch, &mut pending, &mut inflight, &mut batch_max, last, &mut broadcasts);
            ops.push(format!("batch e2e-wait queued={} broadcasts={broadcasts} completed={completed}", queued.len()));
            // confirm submissions one at a time until the burst is consumed
            for _ in 0..(2 * n + 4) {
                if queued.is_empty() && pending.is_none() && batch == 0 && inflight.is_none() {
                    break;
                }
                ops.push("batch e2e-confirm".to_string());
                if let Some(g) = inflight.take() {
                    last = last.max(g);
                    completed += 1;
                }
                settle(&mut queued, &mut batch, &mut pending, &mut inflight, &mut batch_max, last, &mut broadcasts);
                ops.push(format!("batch e2e-wait queued={} broadcasts={broadcasts} completed={completed}", queued.len()));
                if queued.is_empty() && pending.is_none() && batch == 0 && inflight.is_none() {
                    break;
                }
                if queued.is_empty() && pending.is_none() && sent < n {
                    break;
                }
            }
        }
        for _ in 0..(2 * n + 4) {
            if pending.is_some() || batch > 0 || inflight.is_some() || !queued.is_empty() {
                ops.push("batch e2e-confirm".to_string());
                if let Some(g) = inflight.take() {
                    last = last.max(g);
                    completed += 1;
                }
                settle(&mut queued, &mut batch, &mut pending, &mut inflight, &mut batch_max, last, &mut broadcasts);
                ops.push(format!("batch e2e-wait queued={} broadcasts={broadcasts} completed={completed}", queued.len()));
            }
        }
        // quiescent now: a block at EXACTLY the last submitted height must be skipped (`<=`), the
        // next height must go through
        for hh in [last, last + 1] {
            let spec = mk(self, hh);
            ops.push(format!("batch e2e-send {}", spec.to_tokens()));
            queued.push(hh);
            settle(&mut queued, &mut batch, &mut pending, &mut inflight, &mut batch_max, last, &mut broadcasts);
            ops.push(format!("batch e2e-wait queued={} broadcasts={broadcasts} completed={completed}", queued.len()));
        }
        ops.push("batch e2e-confirm".to_string());
        if inflight.take().is_some() {
            completed += 1;
        }
        ops.push(format!("batch e2e-wait queued=0 broadcasts={broadcasts} completed={completed}"));
        ops.push("batch e2e-finish".to_string());
        for i in 0..(broadcasts + 1) {
            ops.push(format!("batch e2e-sub {i}"));
        }
        ops.push("batch e2e-end".to_string());
        ops
    }

    /// find data lengths so that the candidate payload is exactly LIMIT and LIMIT+1 bytes
    fn boundary_sessions(&mut self, two_blocks: bool) -> Vec<Vec<String>> {
        let filter = IncludeRollup::parse("").unwrap();
        let first = if two_blocks {
            Some(self.spec(1, 0, vec![(1, 'r', 480_000)]))
        } else {
            None
        };
        let base = first
            .as_ref()
            .map(|f| Shadow::default().extended(&Source::new(f.make()), &filter))
            .unwrap_or_default();
        // two knobs: a large incompressible entry (coarse; its compressed size jumps by a few
        // bytes at brotli meta-block boundaries) and a small one in another blob (fine)
        let mut probe = self.spec(
            2,
            0,
            vec![(4, 'r', if two_blocks { 515_000 } else { 998_000 }), (5, 'r', 60)],
        );
        let mut found: Option<(usize, usize)> = None;
        let size_at = |len: usize, fine: usize, probe: &mut BlockSpec| -> usize {
            probe.data[0].2 = len;
            probe.data[1].2 = fine;
            base.extended(&Source::new(probe.make()), &filter).csize()
        };
        let mut len = probe.data[0].2;
        let mut fine = probe.data[1].2;
        let mut c = size_at(len, fine, &mut probe);
        for _ in 0..6 {
            let gap = LIMIT as i64 - c as i64;
            if (0..=40).contains(&gap) {
                break;
            }
            len = (len as i64 + gap - 10).max(1) as usize;
            c = size_at(len, fine, &mut probe);
        }
        let mut seen: Vec<(usize, usize)> = vec![];
        for it in 0..18 {
            let gap = LIMIT as i64 - c as i64;
            if gap == 0 {
                found = Some((len, fine));
                break;
            }
            seen.push((len, fine));
            // alternate the knobs; on a cycle nudge the coarse one off the jump
            if it % 2 == 0 && fine as i64 + gap >= 0 {
                fine = (fine as i64 + gap) as usize;
            } else {
                len = (len as i64 + gap).max(1) as usize;
            }
            if seen.contains(&(len, fine)) {
                len -= 3 + it;
            }
            c = size_at(len, fine, &mut probe);
        }
        let mut out = vec![];
        let Some((len, fine)) = found else {
            eprintln!("batch: no exact-boundary payload found (last size {c})");
            return out;
        };
        // the smallest increment of the fine knob that pushes the payload over the limit
        let mut over = 1usize;
        while over < 8 && size_at(len, fine + over, &mut probe) <= LIMIT {
            over += 1;
        }
        for delta in [0usize, over] {
            let mut ops = vec!["batch reset filter=all last=0".to_string()];
            if let Some(f) = &first {
                ops.push(format!("batch recv {}", f.to_tokens()));
            }
            let mut spec = probe.clone();
            spec.data[0].2 = len;
            spec.data[1].2 = fine + delta;
            ops.push(format!("batch recv {}", spec.to_tokens()));
            Self::drain(&mut ops);
            out.push(ops);
        }
        out
    }
}

#[test]
fn driver() {
    let rt = tokio::runtime::Builder::new_current_thread()
        .enable_all()
        .build()
        .unwrap();
    let _guard = rt.enter();
    let mut trace = Trace::from_env();
    let mut exec = Exec {
        rt: &rt,
        session: None,
        e2e: None,
        metrics: metrics(),
    };
    let run = |trace: &mut Trace, exec: &mut Exec, op: &str| {
        let res = exec.exec(op);
        trace.line(&format!("{op} => {res}"));
    };

    if let Some(lines) = common::replay_lines() {
        for l in lines {
            run(&mut trace, &mut exec, &l);
        }
        trace.finish();
        return;
    }
    for l in common::corpus_lines() {
        run(&mut trace, &mut exec, &l);
    }

    let thorough = common::is_thorough();
    let mut g = Gen {
        rng: Rng::from_env(),
        next_seed: 0,
    };
    let t0 = std::time::Instant::now();
    let mut sessions: Vec<Vec<String>> = vec![];
    for _ in 0..(if thorough { 400 } else { 100 }) {
        sessions.push(g.small_session());
    }
    sessions.push(g.straddle_session(2, if thorough { 6 } else { 4 }));
    sessions.push(g.straddle_session(2, if thorough { 5 } else { 3 }));
    sessions.push(g.straddle_session(3, if thorough { 8 } else { 5 }));
    sessions.push(g.straddle_session(4, if thorough { 9 } else { 6 }));
    sessions.push(g.medium_session(if thorough { 14 } else { 10 }));
    sessions.push(g.straddle_session(2, 4));
    sessions.push(g.straddle_session(3, 6));
    if thorough {
        sessions.push(g.straddle_session(3, 7));
        sessions.push(g.straddle_session(4, 9));
        sessions.push(g.straddle_session(1, 3));
        sessions.push(g.medium_session(12));
    }
    sessions.extend(g.oversize_sessions());
    sessions.push(g.compressible_session());
    sessions.extend(g.boundary_sessions(false));
    sessions.extend(g.boundary_sessions(true));
    sessions.push(g.e2e_session(1, 5, &[]));
    sessions.push(g.e2e_session(2, 6, &[0, 4]));
    if thorough {
        sessions.push(g.e2e_session(2, 9, &[]));
        sessions.push(g.e2e_session(3, 10, &[0, 4, 6]));
    }
    eprintln!("batch: generated {} sessions in {:?}", sessions.len(), t0.elapsed());
    for s in sessions {
        for op in s {
            run(&mut trace, &mut exec, &op);
        }
    }
    eprintln!("batch: {} lines in {:?}", trace.lines, t0.elapsed());
    trace.finish();
}
