// In-crate verification harness for property C11 (area `crash`).
//
// Child module `relayer::verif` of astria-sequencer-relayer (feature `verif-crash`, cfg(test)).
// It runs the REAL `Relayer::run` (reader + `BlobSubmitter::run` + the submission-state file code)
// against three in-process fakes (Celestia app gRPC, sequencer gRPC, CometBFT JSON-RPC) inside a
// current-thread tokio runtime with paused time, and lets a seeded controller decide, step by
// step, what the environment does next: run the one queued blocking file-system operation,
// answer a held RPC with some outcome, let time pass, include / drop a mempool transaction,
// produce more sequencer blocks, kill the process (drop the runtime) or restart it from the
// state file.  One trace line per controller step with the state file, the temp file, the held
// requests, the fake chain and the relayer's public status after the step.
//
// Determinism: every blocking fs operation of the relayer is held behind a gate task on a
// one-thread blocking pool and released one at a time (handshake over std channels); RPC
// handlers park their request until the controller answers; the controller only continues
// once every task of the runtime is idle (`on_thread_park`) for several I/O polls in a row;
// time moves only by explicit `advance`.
#![allow(clippy::pedantic, clippy::all, dead_code, unused_imports)]

#[path = "/verif/harness/common.rs"]
mod common;

use std::{
    collections::HashMap,
    path::PathBuf,
    sync::{
        atomic::{
            AtomicU64,
            Ordering,
        },
        Arc,
        Mutex,
    },
    time::Duration,
};

use astria_core::{
    generated::{
        astria::sequencerblock::v1::{
            sequencer_service_server::{
                SequencerService,
                SequencerServiceServer,
            },
            FilteredSequencerBlock as RawFilteredSequencerBlock,
            GetFilteredSequencerBlockRequest,
            GetPendingNonceRequest,
            GetPendingNonceResponse,
            GetSequencerBlockRequest,
            SequencerBlock as RawSequencerBlock,
            SubmittedMetadataList,
        },
        celestia::v1::{
            query_server::{
                Query as BlobQueryService,
                QueryServer as BlobQueryServer,
            },
            Params as BlobParams,
            QueryParamsRequest as QueryBlobParamsRequest,
            QueryParamsResponse as QueryBlobParamsResponse,
        },
        cosmos::{
            auth::v1beta1::{
                query_server::{
                    Query as AuthQueryService,
                    QueryServer as AuthQueryServer,
                },
                BaseAccount,
                Params as AuthParams,
                QueryAccountRequest,
                QueryAccountResponse,
                QueryParamsRequest as QueryAuthParamsRequest,
                QueryParamsResponse as QueryAuthParamsResponse,
            },
            base::{
                abci::v1beta1::TxResponse,
                node::v1beta1::{
                    service_server::{
                        Service as MinGasPriceService,
                        ServiceServer as MinGasPriceServer,
                    },
                    ConfigRequest as MinGasPriceRequest,
                    ConfigResponse as MinGasPriceResponse,
                },
                tendermint::v1beta1::{
                    service_server::{
                        Service as NodeInfoService,
                        ServiceServer as NodeInfoServer,
                    },
                    GetNodeInfoRequest,
                    GetNodeInfoResponse,
                },
            },
            tx::v1beta1::{
                service_server::{
                    Service as TxService,
                    ServiceServer as TxServer,
                },
                BroadcastTxRequest,
                BroadcastTxResponse,
                GetTxRequest,
                GetTxResponse,
            },
        },
        sequencerblock::v1::{
            GetUpgradesInfoRequest,
            GetUpgradesInfoResponse,
            GetValidatorNameRequest,
            GetValidatorNameResponse,
        },
        tendermint::{
            p2p::DefaultNodeInfo,
            types::BlobTx,
        },
    },
    primitive::v1::RollupId,
    protocol::test_utils::ConfigureSequencerBlock,
    sequencerblock::v1::block,
};
use common::{
    Rng,
    Trace,
};
use prost::{
    Message as _,
    Name as _,
};
use sha2::{
    Digest as _,
    Sha256,
};
use telemetry::Metrics as _;
use tokio::sync::{
    oneshot,
    Notify,
};
use tonic::{
    transport::Server,
    Request,
    Response,
    Status,
};

const SEQUENCER_CHAIN_ID: &str = "verif-sequencer";
const CELESTIA_CHAIN_ID: &str = "verif-celestia";
/// consecutive quiet rounds (all tasks idle + one I/O poll without any fake seeing anything)
/// before the system counts as quiescent
const QUIET_ROUNDS: u32 = 12;

// ---------------------------------------------------------------------------------------------
// persistent world (survives crashes): fake Celestia chain + mempool, sequencer height, disk
// ---------------------------------------------------------------------------------------------

struct TxRec {
    hash: String, // lower-case hex of sha256(BlobTx.tx)
    heights: Vec<u64>,
}

enum Responder {
    Fetch(oneshot::Sender<Result<RawSequencerBlock, Status>>),
    Bcast(oneshot::Sender<Result<BroadcastTxResponse, Status>>),
    GetTx(oneshot::Sender<Result<GetTxResponse, Status>>),
}

impl Responder {
    fn is_closed(&self) -> bool {
        match self {
            Responder::Fetch(s) => s.is_closed(),
            Responder::Bcast(s) => s.is_closed(),
            Responder::GetTx(s) => s.is_closed(),
        }
    }
}

#[derive(Clone, Copy, PartialEq, Eq, PartialOrd, Ord)]
enum PKind {
    Fetch(u64),
    Bcast(u64),
    GetTx(u64),
}

struct Pending {
    kind: PKind,
    responder: Responder,
}

struct World {
    base: u64,
    /// hash -> tx id (1-based, in order of first appearance anywhere: temp file, state file, RPC)
    ids: HashMap<String, u64>,
    txs: Vec<TxRec>, // index = id - 1
    mempool: Vec<u64>,
    chain: Vec<(u64, u64)>, // (celestia height, tx id)
    cheight: u64,
    latest: u64,
    acct_seq: u64,
    n_prepare: u64,
    // disk while the relayer is down (while it is up the session directory is the truth)
    file: Option<Vec<u8>>,
    tmp: Option<Vec<u8>>,
    saved_file: Option<Option<Vec<u8>>>,
    // in-session
    pending: Vec<Pending>,
    graveyard: Vec<Pending>,
    activity: u64,
    celestia_rpcs: u64,
}

impl World {
    fn new(base: u64) -> Self {
        let file = if base == 0 {
            br#"{"state":"fresh"}"#.to_vec()
        } else {
            format!(
                "{{\n  \"state\": \"started\",\n  \"last_submission\": {{\n    \
                 \"celestia_height\": 5,\n    \"sequencer_height\": {base}\n  }}\n}}"
            )
            .into_bytes()
        };
        World {
            base,
            ids: HashMap::new(),
            txs: vec![],
            mempool: vec![],
            chain: vec![],
            cheight: 10,
            latest: base,
            acct_seq: 53,
            n_prepare: 0,
            file: Some(file),
            tmp: None,
            saved_file: None,
            pending: vec![],
            graveyard: vec![],
            activity: 0,
            celestia_rpcs: 0,
        }
    }

    fn id_of_hash(&mut self, hash: &str) -> u64 {
        let hash = hash.to_ascii_lowercase();
        if let Some(id) = self.ids.get(&hash) {
            return *id;
        }
        self.txs.push(TxRec {
            hash: hash.clone(),
            heights: vec![],
        });
        let id = self.txs.len() as u64;
        self.ids.insert(hash, id);
        id
    }

    fn fmt_tx(&self, id: u64) -> String {
        let hs: Vec<String> = self.txs[(id - 1) as usize]
            .heights
            .iter()
            .map(u64::to_string)
            .collect();
        format!("t{id}[{}]", hs.join(","))
    }

    fn confirmed_at(&self, id: u64) -> Option<u64> {
        self.chain.iter().find(|(_, t)| *t == id).map(|(h, _)| *h)
    }
}

type Shared = Arc<Mutex<World>>;

// ---------------------------------------------------------------------------------------------
// fakes
// ---------------------------------------------------------------------------------------------

#[derive(Clone)]
struct CelestiaFake(Shared);

#[async_trait::async_trait]
impl NodeInfoService for CelestiaFake {
    async fn get_node_info(
        self: Arc<Self>,
        _request: Request<GetNodeInfoRequest>,
    ) -> Result<Response<GetNodeInfoResponse>, Status> {
        self.0.lock().unwrap().activity += 1;
        Ok(Response::new(GetNodeInfoResponse {
            default_node_info: Some(DefaultNodeInfo {
                network: CELESTIA_CHAIN_ID.to_string(),
                ..Default::default()
            }),
            ..Default::default()
        }))
    }
}

#[async_trait::async_trait]
impl AuthQueryService for CelestiaFake {
    async fn account(
        self: Arc<Self>,
        request: Request<QueryAccountRequest>,
    ) -> Result<Response<QueryAccountResponse>, Status> {
        let sequence = {
            let mut w = self.0.lock().unwrap();
            w.activity += 1;
            w.celestia_rpcs += 1;
            w.n_prepare += 1;
            // every prepared transaction gets its own account sequence, so that every BlobTx the
            // relayer ever signs is distinct (the real chain bumps it with every included tx)
            w.acct_seq += 1;
            w.acct_seq
        };
        let account = BaseAccount {
            address: request.into_inner().address,
            pub_key: None,
            account_number: 10,
            sequence,
        };
        let account_as_any = pbjson_types::Any {
            type_url: BaseAccount::type_url(),
            value: account.encode_to_vec().into(),
        };
        Ok(Response::new(QueryAccountResponse {
            account: Some(account_as_any),
        }))
    }

    async fn params(
        self: Arc<Self>,
        _request: Request<QueryAuthParamsRequest>,
    ) -> Result<Response<QueryAuthParamsResponse>, Status> {
        self.0.lock().unwrap().activity += 1;
        Ok(Response::new(QueryAuthParamsResponse {
            params: Some(AuthParams {
                max_memo_characters: 256,
                tx_sig_limit: 7,
                tx_size_cost_per_byte: 10,
                sig_verify_cost_ed25519: 590,
                sig_verify_cost_secp256k1: 1000,
            }),
        }))
    }
}

#[async_trait::async_trait]
impl BlobQueryService for CelestiaFake {
    async fn params(
        self: Arc<Self>,
        _request: Request<QueryBlobParamsRequest>,
    ) -> Result<Response<QueryBlobParamsResponse>, Status> {
        self.0.lock().unwrap().activity += 1;
        Ok(Response::new(QueryBlobParamsResponse {
            params: Some(BlobParams {
                gas_per_blob_byte: 8,
                gov_max_square_size: 64,
            }),
        }))
    }
}

#[async_trait::async_trait]
impl MinGasPriceService for CelestiaFake {
    async fn config(
        self: Arc<Self>,
        _request: Request<MinGasPriceRequest>,
    ) -> Result<Response<MinGasPriceResponse>, Status> {
        self.0.lock().unwrap().activity += 1;
        Ok(Response::new(MinGasPriceResponse {
            minimum_gas_price: "0.002000000000000000utia".to_string(),
        }))
    }
}

/// The sequencer heights whose data a BlobTx carries: decoded from the blob in the sequencer
/// namespace (brotli-compressed `SubmittedMetadataList`), i.e. from what would be stored on
/// Celestia, not from anything the relayer says about it.
fn heights_in_blob_tx(blob_tx: &BlobTx) -> Vec<u64> {
    let mut heights = vec![];
    for blob in &blob_tx.blobs {
        let Ok(raw) = astria_core::brotli::decompress_bytes(&blob.data) else {
            continue;
        };
        let Ok(list) = SubmittedMetadataList::decode(&*raw) else {
            continue;
        };
        let mut hs = vec![];
        let mut all = !list.entries.is_empty();
        for entry in &list.entries {
            match entry.header.as_ref() {
                Some(header) if header.chain_id == SEQUENCER_CHAIN_ID => hs.push(header.height),
                _ => all = false,
            }
        }
        if all {
            heights.extend(hs);
        }
    }
    heights
}

#[async_trait::async_trait]
impl TxService for CelestiaFake {
    async fn get_tx(
        self: Arc<Self>,
        request: Request<GetTxRequest>,
    ) -> Result<Response<GetTxResponse>, Status> {
        let (tx, rx) = oneshot::channel();
        {
            let mut w = self.0.lock().unwrap();
            w.activity += 1;
            w.celestia_rpcs += 1;
            let id = w.id_of_hash(&request.into_inner().hash);
            w.pending.push(Pending {
                kind: PKind::GetTx(id),
                responder: Responder::GetTx(tx),
            });
        }
        let res = rx
            .await
            .unwrap_or_else(|_| Err(Status::aborted("fake dropped")));
        self.0.lock().unwrap().activity += 1;
        res.map(Response::new)
    }

    async fn broadcast_tx(
        self: Arc<Self>,
        request: Request<BroadcastTxRequest>,
    ) -> Result<Response<BroadcastTxResponse>, Status> {
        let (tx, rx) = oneshot::channel();
        {
            let request = request.into_inner();
            let blob_tx = BlobTx::decode(request.tx_bytes.as_ref())
                .map_err(|_| Status::invalid_argument("not a BlobTx"))?;
            let hash = hex::encode(Sha256::digest(&blob_tx.tx));
            let heights = heights_in_blob_tx(&blob_tx);
            let mut w = self.0.lock().unwrap();
            w.activity += 1;
            w.celestia_rpcs += 1;
            let id = w.id_of_hash(&hash);
            w.txs[(id - 1) as usize].heights = heights;
            w.pending.push(Pending {
                kind: PKind::Bcast(id),
                responder: Responder::Bcast(tx),
            });
        }
        let res = rx
            .await
            .unwrap_or_else(|_| Err(Status::aborted("fake dropped")));
        self.0.lock().unwrap().activity += 1;
        res.map(Response::new)
    }
}

struct SequencerFake(Shared);

#[tonic::async_trait]
impl SequencerService for SequencerFake {
    async fn get_sequencer_block(
        self: Arc<Self>,
        request: Request<GetSequencerBlockRequest>,
    ) -> Result<Response<RawSequencerBlock>, Status> {
        let (tx, rx) = oneshot::channel();
        {
            let mut w = self.0.lock().unwrap();
            w.activity += 1;
            w.pending.push(Pending {
                kind: PKind::Fetch(request.into_inner().height),
                responder: Responder::Fetch(tx),
            });
        }
        let res = rx
            .await
            .unwrap_or_else(|_| Err(Status::aborted("fake dropped")));
        self.0.lock().unwrap().activity += 1;
        res.map(Response::new)
    }

    async fn get_filtered_sequencer_block(
        self: Arc<Self>,
        _request: Request<GetFilteredSequencerBlockRequest>,
    ) -> Result<Response<RawFilteredSequencerBlock>, Status> {
        Err(Status::unimplemented("not used by the relayer"))
    }

    async fn get_pending_nonce(
        self: Arc<Self>,
        _request: Request<GetPendingNonceRequest>,
    ) -> Result<Response<GetPendingNonceResponse>, Status> {
        Err(Status::unimplemented("not used by the relayer"))
    }

    async fn get_upgrades_info(
        self: Arc<Self>,
        _request: Request<GetUpgradesInfoRequest>,
    ) -> Result<Response<GetUpgradesInfoResponse>, Status> {
        Err(Status::unimplemented("not used by the relayer"))
    }

    async fn get_validator_name(
        self: Arc<Self>,
        _request: Request<GetValidatorNameRequest>,
    ) -> Result<Response<GetValidatorNameResponse>, Status> {
        Err(Status::unimplemented("not used by the relayer"))
    }
}

fn make_block(height: u64) -> RawSequencerBlock {
    ConfigureSequencerBlock {
        block_hash: Some(block::Hash::new([height as u8; 32])),
        chain_id: Some(SEQUENCER_CHAIN_ID.to_string()),
        height: height as u32,
        proposer_address: Some(tendermint::account::Id::try_from(vec![0u8; 20]).unwrap()),
        sequence_data: vec![(
            RollupId::from_unhashed_bytes(b"verif_rollup"),
            format!("block {height}").into_bytes(),
        )],
        ..Default::default()
    }
    .make()
    .into_raw()
}

const STATUS_RESULT: &str = r#"{
  "node_info": {
    "protocol_version": { "p2p": "8", "block": "11", "app": "0" },
    "id": "a1d3bbddb7800c6da2e64169fec281494e963ba3",
    "listen_addr": "tcp://0.0.0.0:26656",
    "network": "verif-sequencer",
    "version": "0.38.6",
    "channels": "40202122233038606100",
    "moniker": "fullnode",
    "other": { "tx_index": "on", "rpc_address": "tcp://0.0.0.0:26657" }
  },
  "sync_info": {
    "latest_block_hash": "A4202E4E367712AC2A797860265A7EBEA8A3ACE513CB0105C2C9058449641202",
    "latest_app_hash": "BCC9C9B82A49EC37AADA41D32B4FBECD2441563703955413195BDA2236775A68",
    "latest_block_height": "452605",
    "latest_block_time": "2024-05-09T15:59:17.849713071Z",
    "earliest_block_hash": "C34B7B0B82423554B844F444044D7D08A026D6E413E6F72848DB2F8C77ACE165",
    "earliest_app_hash": "6B776065775471CEF46AC75DE09A4B869A0E0EB1D7725A04A342C0E46C16F472",
    "earliest_block_height": "1",
    "earliest_block_time": "2024-04-23T00:49:11.964127Z",
    "catching_up": false
  },
  "validator_info": {
    "address": "0B46F33BA2FA5C2E2AD4C4C4E5ECE3F1CA03D195",
    "pub_key": { "type": "tendermint/PubKeyEd25519", "value": "bA6GipHUijVuiYhv+4XymdePBsn8EeTqjGqNQrBGZ4I=" },
    "voting_power": "0"
  }
}"#;

/// CometBFT JSON-RPC: `status` (chain id) and `abci_info` (latest height), answered at once.
async fn cometbft_handler(
    axum::extract::State(shared): axum::extract::State<Shared>,
    body: String,
) -> axum::response::Response {
    use axum::response::IntoResponse as _;
    let req: serde_json::Value = serde_json::from_str(&body).unwrap_or(serde_json::Value::Null);
    let id = req.get("id").cloned().unwrap_or(serde_json::Value::Null);
    let method = req.get("method").and_then(|m| m.as_str()).unwrap_or("");
    let result: serde_json::Value = match method {
        "status" => serde_json::from_str(STATUS_RESULT).unwrap(),
        "abci_info" => {
            let latest = {
                let mut w = shared.lock().unwrap();
                w.activity += 1;
                w.latest
            };
            use tendermint::{
                abci,
                hash::AppHash,
            };
            let resp = tendermint_rpc::endpoint::abci_info::Response {
                response: abci::response::Info {
                    data: "verif".into(),
                    version: "1.0.0".into(),
                    app_version: 1,
                    last_block_height: u32::try_from(latest).unwrap().into(),
                    last_block_app_hash: AppHash::try_from([0; 32].to_vec()).unwrap(),
                },
            };
            serde_json::to_value(resp).unwrap()
        }
        _ => serde_json::Value::Null,
    };
    shared.lock().unwrap().activity += 1;
    let body = serde_json::json!({ "jsonrpc": "2.0", "id": id, "result": result });
    (
        [(http::header::CONTENT_TYPE, "application/json")],
        body.to_string(),
    )
        .into_response()
}

// ---------------------------------------------------------------------------------------------
// one relayer process = one tokio runtime
// ---------------------------------------------------------------------------------------------

struct Session {
    rt: tokio::runtime::Runtime,
    idle: Arc<Notify>,
    parks: Arc<AtomicU64>,
    gate: std::sync::mpsc::Sender<()>,
    relayer: tokio::task::JoinHandle<astria_eyre::eyre::Result<()>>,
    state_rx: tokio::sync::watch::Receiver<super::StateSnapshot>,
    dir: PathBuf,
}

/// Accepted connections get TCP_NODELAY: without it Nagle + delayed ACK hold back the second
/// small write of a response for ~40 ms of wall-clock time, which the (virtual-time) controller
/// would mistake for quiescence.
fn nodelay_incoming(
    listener: tokio::net::TcpListener,
) -> impl tokio_stream::Stream<Item = std::io::Result<tokio::net::TcpStream>> {
    use tokio_stream::StreamExt as _;
    tokio_stream::wrappers::TcpListenerStream::new(listener).map(|res| {
        res.map(|stream| {
            let _ = stream.set_nodelay(true);
            stream
        })
    })
}

fn metrics() -> &'static crate::metrics::Metrics {
    static M: std::sync::OnceLock<&'static crate::metrics::Metrics> = std::sync::OnceLock::new();
    M.get_or_init(|| Box::leak(Box::new(crate::metrics::Metrics::noop_metrics(&()).unwrap())))
}

async fn wait_idle(idle: &Notify, parks: &AtomicU64) {
    let p0 = parks.load(Ordering::SeqCst);
    loop {
        idle.notified().await;
        if parks.load(Ordering::SeqCst) > p0 {
            return;
        }
    }
}

/// Runs the runtime until nothing moves any more: every task idle, and QUIET_ROUNDS I/O polls
/// in a row during which no fake saw a request, finished a response, and nothing was woken.
async fn pump(shared: &Shared, idle: &Notify, parks: &AtomicU64) {
    let mut quiet = 0;
    while quiet < QUIET_ROUNDS {
        let a0 = {
            let mut w = shared.lock().unwrap();
            // requests whose client went away (timeout, crash)
            w.pending.retain(|p| !p.responder.is_closed());
            w.activity
        };
        wait_idle(idle, parks).await;
        tokio::task::yield_now().await;
        wait_idle(idle, parks).await;
        let a1 = shared.lock().unwrap().activity;
        if a0 == a1 {
            quiet += 1;
        } else {
            quiet = 0;
        }
    }
    let mut w = shared.lock().unwrap();
    w.pending.retain(|p| !p.responder.is_closed());
}

impl Session {
    fn start(shared: &Shared, root: &PathBuf, sess_no: u64, keyfile: &PathBuf) -> Session {
        let dir = root.join(format!("s{sess_no}"));
        std::fs::create_dir_all(&dir).unwrap();
        {
            let w = shared.lock().unwrap();
            if let Some(bytes) = &w.file {
                std::fs::write(dir.join("state.json"), bytes).unwrap();
            }
            if let Some(bytes) = &w.tmp {
                std::fs::write(dir.join("state.json.tmp"), bytes).unwrap();
            }
        }
        let idle = Arc::new(Notify::new());
        let parks = Arc::new(AtomicU64::new(0));
        let rt = {
            let idle = idle.clone();
            let parks = parks.clone();
            tokio::runtime::Builder::new_current_thread()
                .enable_all()
                .start_paused(true)
                .max_blocking_threads(1)
                .on_thread_park(move || {
                    parks.fetch_add(1, Ordering::SeqCst);
                    idle.notify_one();
                })
                .build()
                .unwrap()
        };
        // the gate: occupies the only blocking thread; every fs operation of the relayer queues
        // behind it and is let through one at a time by `fs_step`
        let (gate, gate_rx) = std::sync::mpsc::channel::<()>();
        let (started_tx, started_rx) = std::sync::mpsc::channel::<()>();
        drop(rt.spawn_blocking(move || {
            let _ = started_tx.send(());
            let _ = gate_rx.recv();
        }));
        started_rx.recv().unwrap();

        let (relayer, state_rx) = rt.block_on(async {
            let celestia = tokio::net::TcpListener::bind("127.0.0.1:0").await.unwrap();
            let celestia_addr = celestia.local_addr().unwrap();
            let sequencer = tokio::net::TcpListener::bind("127.0.0.1:0").await.unwrap();
            let sequencer_addr = sequencer.local_addr().unwrap();
            let cometbft = tokio::net::TcpListener::bind("127.0.0.1:0").await.unwrap();
            let cometbft_addr = cometbft.local_addr().unwrap();
            {
                let fake = CelestiaFake(shared.clone());
                tokio::spawn(async move {
                    let _ = Server::builder()
                        .add_service(NodeInfoServer::new(fake.clone()))
                        .add_service(AuthQueryServer::new(fake.clone()))
                        .add_service(BlobQueryServer::new(fake.clone()))
                        .add_service(MinGasPriceServer::new(fake.clone()))
                        .add_service(TxServer::new(fake))
                        .serve_with_incoming(nodelay_incoming(celestia))
                        .await;
                });
            }
            {
                let fake = SequencerFake(shared.clone());
                tokio::spawn(async move {
                    let _ = Server::builder()
                        .add_service(SequencerServiceServer::new(fake))
                        .serve_with_incoming(nodelay_incoming(sequencer))
                        .await;
                });
            }
            {
                let app = axum::Router::new()
                    .route("/", axum::routing::post(cometbft_handler))
                    .with_state(shared.clone());
                tokio::spawn(async move {
                    let _ = axum::serve(cometbft, app).tcp_nodelay(true).await;
                });
            }
            let relayer = super::Builder {
                relayer_shutdown_token: tokio_util::sync::CancellationToken::new(),
                sequencer_chain_id: SEQUENCER_CHAIN_ID.to_string(),
                celestia_chain_id: CELESTIA_CHAIN_ID.to_string(),
                celestia_default_min_gas_price: 0.002,
                celestia_app_grpc_endpoint: format!("http://{celestia_addr}"),
                celestia_app_key_file: keyfile.to_string_lossy().to_string(),
                cometbft_endpoint: format!("http://{cometbft_addr}"),
                sequencer_poll_period: Duration::from_secs(1),
                sequencer_grpc_endpoint: format!("http://{sequencer_addr}"),
                rollup_filter: crate::IncludeRollup::parse("").unwrap(),
                submission_state_path: dir.join("state.json"),
                metrics: metrics(),
            }
            .build()
            .unwrap();
            let state_rx = relayer.subscribe_to_state();
            (tokio::spawn(relayer.run()), state_rx)
        });
        let s = Session {
            rt,
            idle,
            parks,
            gate,
            relayer,
            state_rx,
            dir,
        };
        s.pump(shared);
        s
    }

    fn pump(&self, shared: &Shared) {
        self.rt.block_on(pump(shared, &self.idle, &self.parks));
    }

    /// Lets exactly one queued blocking operation (if any) run to completion.
    fn fs_step(&mut self, shared: &Shared) {
        let (gate, gate_rx) = std::sync::mpsc::channel::<()>();
        let (started_tx, started_rx) = std::sync::mpsc::channel::<()>();
        drop(self.rt.spawn_blocking(move || {
            let _ = started_tx.send(());
            let _ = gate_rx.recv();
        }));
        let old = std::mem::replace(&mut self.gate, gate);
        let _ = old.send(());
        started_rx.recv().unwrap();
        self.pump(shared);
    }

    fn tick(&self, shared: &Shared) {
        self.rt.block_on(async {
            tokio::time::advance(Duration::from_secs(1)).await;
            pump(shared, &self.idle, &self.parks).await;
        });
    }

    fn read_disk(&self) -> (Option<Vec<u8>>, Option<Vec<u8>>) {
        (
            std::fs::read(self.dir.join("state.json")).ok(),
            std::fs::read(self.dir.join("state.json.tmp")).ok(),
        )
    }

    /// The process dies: nothing of it runs any more.  The queued blocking operation (if any)
    /// is never executed against the state directory: the directory is snapshotted and removed
    /// before the gate thread is released.
    fn kill(self, shared: &Shared) {
        let (file, tmp) = self.read_disk();
        {
            let mut w = shared.lock().unwrap();
            w.file = file;
            w.tmp = tmp;
            w.pending.clear();
            w.graveyard.clear();
        }
        let Session {
            rt,
            gate,
            dir,
            ..
        } = self;
        rt.shutdown_background();
        let _ = std::fs::remove_dir_all(&dir);
        drop(gate);
    }
}

// ---------------------------------------------------------------------------------------------
// controller
// ---------------------------------------------------------------------------------------------

struct Harness {
    shared: Shared,
    session: Option<Session>,
    root: PathBuf,
    keyfile: PathBuf,
    sess_no: u64,
}

fn fmt_state(w: &mut World, bytes: &Option<Vec<u8>>) -> String {
    let Some(bytes) = bytes else {
        return "-".to_string();
    };
    let Ok(v) = serde_json::from_slice::<serde_json::Value>(bytes) else {
        return "bad".to_string();
    };
    let sub = |v: &serde_json::Value| -> Option<(u64, u64)> {
        Some((
            v.get("celestia_height")?.as_u64()?,
            v.get("sequencer_height")?.as_u64()?,
        ))
    };
    let parsed = (|| -> Option<String> {
        match v.get("state")?.as_str()? {
            "fresh" => Some("fresh".to_string()),
            "started" => {
                let (c, s) = sub(v.get("last_submission")?)?;
                Some(format!("started:{c}:{s}"))
            }
            "prepared" => {
                let (c, s) = sub(v.get("last_submission")?)?;
                let h = v.get("sequencer_height")?.as_u64()?;
                let hash = v.get("blob_tx_hash")?.as_str()?;
                v.get("at")?.as_str()?;
                if hash.len() != 64 || !hash.bytes().all(|b| b.is_ascii_hexdigit()) {
                    return None;
                }
                let id = w.id_of_hash(hash);
                Some(format!("prepared:{h}:{c}:{s}:t{id}"))
            }
            _ => None,
        }
    })();
    parsed.unwrap_or_else(|| "bad".to_string())
}

impl Harness {
    fn dump(&mut self) -> String {
        let (file, tmp) = match &self.session {
            Some(s) => s.read_disk(),
            None => {
                let w = self.shared.lock().unwrap();
                (w.file.clone(), w.tmp.clone())
            }
        };
        let status = match &self.session {
            Some(s) => {
                let snap = *s.state_rx.borrow();
                let v = serde_json::to_value(snap).unwrap();
                let f = |k: &str| match v.get(k).and_then(|x| x.as_u64()) {
                    Some(n) => n.to_string(),
                    None => "-".to_string(),
                };
                format!(
                    "up obs={} req={} fet={} cc={}",
                    f("latest_observed_sequencer_height"),
                    f("latest_requested_sequencer_height"),
                    f("latest_fetched_sequencer_height"),
                    f("latest_confirmed_celestia_height")
                )
            }
            None => "down".to_string(),
        };
        let mut w = self.shared.lock().unwrap();
        // temp first: a prepared state shows up there first
        let tmp_s = fmt_state(&mut w, &tmp);
        let file_s = match &file {
            None => "missing".to_string(),
            some => fmt_state(&mut w, some),
        };
        let mut pend: Vec<PKind> = w.pending.iter().map(|p| p.kind).collect();
        pend.sort();
        let pend: Vec<String> = pend
            .iter()
            .map(|k| match k {
                PKind::Fetch(h) => format!("fetch:{h}"),
                PKind::Bcast(id) => format!("bcast:{}", w.fmt_tx(*id)),
                PKind::GetTx(id) => format!("gettx:t{id}"),
            })
            .collect();
        let mem: Vec<String> = w.mempool.iter().map(|id| w.fmt_tx(*id)).collect();
        let chain: Vec<String> = w
            .chain
            .iter()
            .map(|(h, id)| format!("{h}:{}", w.fmt_tx(*id)))
            .collect();
        let j = |v: Vec<String>| {
            if v.is_empty() {
                "-".to_string()
            } else {
                v.join(",")
            }
        };
        format!(
            "file={file_s} tmp={tmp_s} pend={} mem={} chain={} latest={} np={} proc={status}",
            j(pend),
            j(mem),
            j(chain),
            w.latest,
            w.n_prepare
        )
    }

    /// after an in-session step: did the relayer process end by itself?
    fn check_exit(&mut self) -> Option<String> {
        let finished = self.session.as_ref().map_or(false, |s| s.relayer.is_finished());
        if !finished {
            return None;
        }
        let mut s = self.session.take().unwrap();
        let res = s.rt.block_on(&mut s.relayer);
        let kind = match res {
            Ok(Ok(())) => "clean".to_string(),
            Ok(Err(e)) => {
                let msg = format!("{e:#}");
                if msg.contains("failed reading submission state file")
                    || msg.contains("failed parsing the contents")
                    || msg.contains("should be greater than last successful submission")
                {
                    "unreadable".to_string()
                } else if msg.contains("failed writing just-read submission state") {
                    "unwritable".to_string()
                } else if msg.contains("Celestia submission task returned") {
                    "submitter".to_string()
                } else {
                    "other".to_string()
                }
            }
            Err(_) => "panic".to_string(),
        };
        s.kill(&self.shared);
        Some(format!("exit:{kind}"))
    }

    fn celestia_pending(&self) -> bool {
        let w = self.shared.lock().unwrap();
        w.pending
            .iter()
            .any(|p| matches!(p.kind, PKind::Bcast(_) | PKind::GetTx(_)))
    }

    fn take_pending(&self, pred: impl Fn(&PKind) -> bool) -> Option<Pending> {
        let mut w = self.shared.lock().unwrap();
        let i = w.pending.iter().position(|p| pred(&p.kind))?;
        Some(w.pending.remove(i))
    }

    fn with_exit(&mut self, res: &str) -> String {
        match self.check_exit() {
            Some(e) => format!("{res} {e}"),
            None => res.to_string(),
        }
    }

    fn answer_gettx(&self, p: Pending, mode: &str) -> &'static str {
        let PKind::GetTx(id) = p.kind else {
            unreachable!()
        };
        let Responder::GetTx(tx) = p.responder else {
            unreachable!()
        };
        let (conf, hash) = {
            let w = self.shared.lock().unwrap();
            (w.confirmed_at(id), w.txs[(id - 1) as usize].hash.to_ascii_uppercase())
        };
        let ok = |height: i64| {
            Ok(GetTxResponse {
                tx: None,
                tx_response: Some(TxResponse {
                    height,
                    txhash: hash.clone(),
                    code: 0,
                    ..TxResponse::default()
                }),
            })
        };
        let (resp, what) = match (mode, conf) {
            ("err", _) => (Err(Status::internal("verif: transient failure")), "error"),
            // a response that must NOT count as a confirmation: non-zero result code (a failed
            // transaction stores no blobs), no `tx_response`, negative height
            ("code5", _) => (
                Ok(GetTxResponse {
                    tx: None,
                    tx_response: Some(TxResponse {
                        height: 77,
                        txhash: hash.clone(),
                        code: 5,
                        raw_log: "out of gas".to_string(),
                        ..TxResponse::default()
                    }),
                }),
                "error",
            ),
            ("empty", _) => (
                Ok(GetTxResponse {
                    tx: None,
                    tx_response: None,
                }),
                "error",
            ),
            ("negative", _) => (ok(-5), "error"),
            (_, Some(h)) => (ok(h as i64), "confirmed"),
            ("h0", None) => (ok(0), "pending"),
            (_, None) => (Err(Status::not_found("tx not found")), "unknown"),
        };
        let _ = tx.send(resp);
        what
    }

    fn exec(&mut self, op: &str) -> String {
        let t: Vec<&str> = op.split(' ').collect();
        match t[0] {
            "reset" => {
                if let Some(s) = self.session.take() {
                    s.kill(&self.shared);
                }
                let base: u64 = t[1].parse().unwrap();
                *self.shared.lock().unwrap() = World::new(base);
                "ok".to_string()
            }
            "bump" => {
                self.shared.lock().unwrap().latest += t[1].parse::<u64>().unwrap();
                "ok".to_string()
            }
            "include" | "drop" => {
                let id: u64 = t[1].trim_start_matches('t').parse().unwrap();
                let mut w = self.shared.lock().unwrap();
                let Some(i) = w.mempool.iter().position(|x| *x == id) else {
                    return "err:not-in-mempool".to_string();
                };
                w.mempool.remove(i);
                if t[0] == "include" {
                    w.cheight += 1;
                    let h = w.cheight;
                    w.chain.push((h, id));
                }
                "ok".to_string()
            }
            "corrupttmp" | "tamper" => {
                if self.session.is_some() {
                    return "err:up".to_string();
                }
                let mut w = self.shared.lock().unwrap();
                if t[0] == "tamper" && t[1] == "restore" && w.saved_file.is_none() {
                    return "err:nosave".to_string();
                }
                let cur = if t[0] == "tamper" { w.file.clone() } else { w.tmp.clone() };
                let file_now = w.file.clone();
                let new: Option<Vec<u8>> = match t[1] {
                    "none" => None,
                    "garbage" => Some(b"\x00\x01{{{ not json".to_vec()),
                    "empty" => Some(vec![]),
                    // a prefix of what is (or, for the temp file, would be) written
                    "trunc" => {
                        let src = cur.or(file_now).unwrap_or_default();
                        let pct: usize = t[2].parse().unwrap();
                        let n = (src.len().saturating_sub(1)) * pct / 100;
                        Some(src[..n.min(src.len())].to_vec())
                    }
                    // a complete, well-formed `started` state claiming far more than was ever
                    // confirmed: must never be promoted to the state file
                    "stale" => Some(
                        br#"{"state":"started","last_submission":{"celestia_height":9,"sequencer_height":1000000}}"#
                            .to_vec(),
                    ),
                    // well-formed JSON that violates the read-time sanity check
                    "badprep" => Some(
                        br#"{"state":"prepared","sequencer_height":3,"last_submission":{"celestia_height":9,"sequencer_height":3},"blob_tx_hash":"0909090909090909090909090909090909090909090909090909090909090909","at":"2024-06-24T22:22:22.222222222Z"}"#
                            .to_vec(),
                    ),
                    "unknownstate" => Some(br#"{"state":"submitted"}"#.to_vec()),
                    "restore" => w.saved_file.clone().unwrap(),
                    _ => panic!("unknown corruption {op}"),
                };
                if t[0] == "tamper" {
                    if t[1] != "restore" && w.saved_file.is_none() {
                        w.saved_file = Some(w.file.clone());
                    }
                    if t[1] == "restore" {
                        w.saved_file = None;
                    }
                    w.file = new;
                } else {
                    w.tmp = new;
                }
                "ok".to_string()
            }
            "restart" => {
                if self.session.is_some() {
                    return "err:up".to_string();
                }
                if t.get(1) == Some(&"aged") {
                    // the process was down for a long time: the `at` stamp of a prepared state
                    // is old, so the startup confirmation only polls for the 15 s minimum
                    let mut w = self.shared.lock().unwrap();
                    if let Some(bytes) = &w.file {
                        if let Ok(mut v) = serde_json::from_slice::<serde_json::Value>(bytes) {
                            if v.get("at").is_some() {
                                v["at"] = serde_json::Value::String("2020-01-01T00:00:00Z".into());
                                w.file = Some(serde_json::to_vec_pretty(&v).unwrap());
                            }
                        }
                    }
                }
                self.sess_no += 1;
                let s = Session::start(&self.shared, &self.root, self.sess_no, &self.keyfile);
                self.session = Some(s);
                self.with_exit("ok")
            }
            "crash" => match self.session.take() {
                Some(s) => {
                    s.kill(&self.shared);
                    "ok".to_string()
                }
                None => "err:down".to_string(),
            },
            _ if self.session.is_none() => "err:down".to_string(),
            "fs" => {
                self.session.as_mut().unwrap().fs_step(&self.shared);
                self.with_exit("ok")
            }
            "torn" => {
                // the queued fs operation starts and the process dies in the middle of it: if it
                // was a write, only a prefix of the data reaches the file it was writing (a
                // rename is atomic: it happened or it did not)
                // which file does the operation write? both files get an old modification time
                // first; a rename carries the temp file's (old) time over, a write sets a new one
                let dir = self.session.as_ref().unwrap().dir.clone();
                let sentinel = std::time::UNIX_EPOCH + Duration::from_secs(86_400);
                for name in ["state.json", "state.json.tmp"] {
                    if let Ok(f) = std::fs::OpenOptions::new().write(true).open(dir.join(name)) {
                        let _ = f.set_modified(sentinel);
                    }
                }
                self.session.as_mut().unwrap().fs_step(&self.shared);
                if let Some(e) = self.check_exit() {
                    return format!("ok:none {e}");
                }
                // (registers the transaction number of a freshly written `prepared` state in
                // the same order as a plain `fs` step would)
                let _ = self.dump();
                let written = |name: &str| {
                    std::fs::metadata(dir.join(name))
                        .and_then(|m| m.modified())
                        .map_or(false, |t| t != sentinel)
                };
                let which = if written("state.json.tmp") {
                    "tmp"
                } else if written("state.json") {
                    "file"
                } else {
                    "none"
                };
                self.session.take().unwrap().kill(&self.shared);
                let mut w = self.shared.lock().unwrap();
                let cut = |b: &Option<Vec<u8>>| {
                    b.as_ref().map(|b| b[..b.len().saturating_sub(1) / 2].to_vec())
                };
                match which {
                    "tmp" => w.tmp = cut(&w.tmp),
                    "file" => w.file = cut(&w.file),
                    _ => {}
                }
                format!("ok:{which}")
            }
            "fetch" => {
                let Some(p) = self.take_pending(|k| matches!(k, PKind::Fetch(_))) else {
                    return "err:none".to_string();
                };
                let PKind::Fetch(h) = p.kind else {
                    unreachable!()
                };
                let Responder::Fetch(tx) = p.responder else {
                    unreachable!()
                };
                let _ = tx.send(Ok(make_block(h)));
                self.session.as_ref().unwrap().pump(&self.shared);
                self.with_exit("ok")
            }
            "bcast" => {
                let Some(p) = self.take_pending(|k| matches!(k, PKind::Bcast(_))) else {
                    return "err:none".to_string();
                };
                let PKind::Bcast(id) = p.kind else {
                    unreachable!()
                };
                let hash = self.shared.lock().unwrap().txs[(id - 1) as usize]
                    .hash
                    .to_ascii_uppercase();
                let resp = |code: u32, log: &str| {
                    Ok(BroadcastTxResponse {
                        tx_response: Some(TxResponse {
                            txhash: hash.clone(),
                            code,
                            raw_log: log.to_string(),
                            ..TxResponse::default()
                        }),
                    })
                };
                let mode = t[1];
                if mode == "timeout-acc" || mode == "timeout-noacc" {
                    {
                        let mut w = self.shared.lock().unwrap();
                        if mode == "timeout-acc" {
                            w.mempool.push(id);
                        }
                        w.graveyard.push(p);
                    }
                    // the request is never answered: the 5 s gRPC timeout expires, the attempt
                    // fails, the retry first tries to confirm the timed-out transaction
                    let c0 = self.shared.lock().unwrap().celestia_rpcs;
                    let mut res = "err:stuck";
                    for _ in 0..16 {
                        self.session.as_ref().unwrap().tick(&self.shared);
                        if self.shared.lock().unwrap().celestia_rpcs != c0 {
                            res = "ok";
                            break;
                        }
                    }
                    return self.with_exit(res);
                }
                let Responder::Bcast(tx) = p.responder else {
                    unreachable!()
                };
                let answer = match mode {
                    "ok" => {
                        self.shared.lock().unwrap().mempool.push(id);
                        resp(0, "")
                    }
                    // accepted by the node we talk to, then evicted before it is ever included
                    "lost" => resp(0, ""),
                    "code13" => resp(
                        13,
                        "insufficient fees; got: 1utia required: 123456utia: insufficient fee",
                    ),
                    "code5" => resp(5, "some other failure"),
                    "unavail" => Err(Status::unavailable("verif: node unavailable")),
                    "empty" => Ok(BroadcastTxResponse {
                        tx_response: None,
                    }),
                    _ => panic!("unknown bcast outcome {op}"),
                };
                let _ = tx.send(answer);
                self.session.as_ref().unwrap().pump(&self.shared);
                self.with_exit("ok")
            }
            "gettx" => {
                let Some(p) = self.take_pending(|k| matches!(k, PKind::GetTx(_))) else {
                    return "err:none".to_string();
                };
                let what = self.answer_gettx(p, t[1]);
                self.session.as_ref().unwrap().pump(&self.shared);
                self.with_exit(what)
            }
            "giveup" => {
                // answer "unknown" until the relayer stops asking (only a timed confirmation does)
                let id = {
                    let w = self.shared.lock().unwrap();
                    w.pending.iter().find_map(|p| match p.kind {
                        PKind::GetTx(id) => Some(id),
                        _ => None,
                    })
                };
                let Some(id) = id else {
                    return "err:none".to_string();
                };
                if self.shared.lock().unwrap().confirmed_at(id).is_some() {
                    return "err:confirmed".to_string();
                }
                let mut res = "stuck";
                for _ in 0..64 {
                    let Some(p) = self.take_pending(|k| *k == PKind::GetTx(id)) else {
                        res = "ok";
                        break;
                    };
                    self.answer_gettx(p, "truth");
                    self.session.as_ref().unwrap().pump(&self.shared);
                    if self.session.as_ref().unwrap().relayer.is_finished() {
                        break;
                    }
                    self.session.as_ref().unwrap().tick(&self.shared);
                }
                self.with_exit(res)
            }
            "wait" => {
                if self.celestia_pending() {
                    return "err:busy".to_string();
                }
                let c0 = self.shared.lock().unwrap().celestia_rpcs;
                let mut res = "idle";
                for _ in 0..16 {
                    self.session.as_ref().unwrap().tick(&self.shared);
                    if self.shared.lock().unwrap().celestia_rpcs != c0 {
                        res = "ok";
                        break;
                    }
                    if self.session.as_ref().unwrap().relayer.is_finished() {
                        break;
                    }
                }
                self.with_exit(res)
            }
            _ => panic!("unknown op {op}"),
        }
    }
}

// ---------------------------------------------------------------------------------------------
// generation: systematic (every crash point x every outcome of the in-flight BlobTx along a
// canonical run) + seeded random controller
// ---------------------------------------------------------------------------------------------

#[derive(Default, Clone)]
struct Obs {
    up: bool,
    fetch: Option<u64>,
    bcast: Option<u64>,
    gettx: Option<u64>,
    mempool: Vec<u64>,
    chain_len: usize,
    latest: u64,
    file: String,
}

impl Harness {
    fn obs(&mut self) -> Obs {
        let dump = self.dump();
        let file = dump
            .split(' ')
            .find_map(|w| w.strip_prefix("file="))
            .unwrap_or("")
            .to_string();
        let w = self.shared.lock().unwrap();
        let mut o = Obs {
            up: self.session.is_some(),
            mempool: w.mempool.clone(),
            chain_len: w.chain.len(),
            latest: w.latest,
            file,
            ..Obs::default()
        };
        for p in &w.pending {
            match p.kind {
                PKind::Fetch(h) => o.fetch = Some(h),
                PKind::Bcast(t) => o.bcast = Some(t),
                PKind::GetTx(t) => o.gettx = Some(t),
            }
        }
        o
    }

    fn confirmed(&self, t: u64) -> bool {
        self.shared.lock().unwrap().confirmed_at(t).is_some()
    }
}

/// executes ops, writes the trace, tracks when a blocking fs operation may be queued
struct Runner {
    h: Harness,
    trace: Trace,
    fs_todo: u32,
    last_res: String,
    last_dump: String,
    ops: u64,
}

impl Runner {
    fn run(&mut self, op: &str) -> String {
        let op = op.strip_prefix("crash ").unwrap_or(op).to_string();
        let res = self.h.exec(&op);
        let dump = self.h.dump();
        self.trace.line(&format!("crash {op} => {res} | {dump}"));
        self.ops += 1;
        let word = op.split(' ').next().unwrap();
        if !self.h.session.is_some() {
            self.fs_todo = 0;
        } else if word == "restart" {
            self.fs_todo = 3;
        } else if word == "fs" {
            self.fs_todo = if dump != self.last_dump {
                self.fs_todo.saturating_sub(1).max(1)
            } else {
                self.fs_todo.saturating_sub(1)
            };
        } else if !res.starts_with("err")
            && (matches!(word, "fetch" | "gettx" | "giveup") || (word == "wait" && res.starts_with("idle")))
            || (word == "wait" && self.fs_todo == 0 && dump != self.last_dump)
        {
            // steps after which the relayer may have queued a state-file write (a `wait` that
            // found nothing to wait for is followed by one probe: the controller cannot see
            // the blocking queue)
            self.fs_todo = self.fs_todo.max(1);
        }
        self.last_dump = dump;
        self.last_res = res.clone();
        res
    }
}

#[derive(Clone, Copy, PartialEq, Eq, Debug)]
enum Outcome {
    /// the in-flight transaction never makes it (evicted)
    Lost,
    /// it is included while the relayer is down
    ConfirmedWhileDown,
    /// it is still pending at the first poll after the restart, included afterwards
    PendingThenConfirmed,
    /// it is not included before the relayer gives up on it, and is included late, after the
    /// relayer has resubmitted the same heights (duplicates)
    TimedOutThenLate,
}

/// a deterministic environment that lets the relayer make progress
struct Auto {
    eager_fetch: bool,
    /// txs that must not be included before the chain has grown beyond `hold_until`
    hold: Vec<u64>,
    hold_until: usize,
    pending_once: bool,
    steps: u32,
    /// consecutive steps that changed nothing observable
    stall: u32,
    seen: String,
}

impl Auto {
    fn new(eager_fetch: bool) -> Self {
        Auto {
            eager_fetch,
            hold: vec![],
            hold_until: 0,
            pending_once: false,
            steps: 0,
            stall: 0,
            seen: String::new(),
        }
    }

    fn next(&mut self, r: &mut Runner) -> Option<String> {
        self.steps += 1;
        if self.steps > 400 {
            return None;
        }
        // a relayer that no longer reacts (only possible if the code under test changed):
        // give the scenario up instead of waiting out the step budget
        if r.last_dump == self.seen {
            self.stall += 1;
            if self.stall >= 8 {
                return None;
            }
        } else {
            self.stall = 0;
            self.seen = r.last_dump.clone();
        }
        let o = r.h.obs();
        if !o.up {
            return Some("restart aged".to_string());
        }
        if r.last_res.starts_with("stuck") {
            // an untimed confirmation of a transaction that will not come: only a restart helps
            return Some("crash".to_string());
        }
        if r.fs_todo > 0 {
            return Some("fs".to_string());
        }
        if !self.hold.is_empty() && o.chain_len > self.hold_until {
            let t = self.hold.remove(0);
            if o.mempool.contains(&t) {
                return Some(format!("include t{t}"));
            }
        }
        if self.eager_fetch && o.fetch.is_some() {
            return Some("fetch".to_string());
        }
        if o.bcast.is_some() {
            return Some("bcast ok".to_string());
        }
        if let Some(t) = o.gettx {
            if r.h.confirmed(t) {
                return Some("gettx truth".to_string());
            }
            if o.mempool.contains(&t) {
                if self.hold.contains(&t) {
                    return Some("giveup".to_string());
                }
                if self.pending_once {
                    self.pending_once = false;
                    return Some("gettx h0".to_string());
                }
                return Some(format!("include t{t}"));
            }
            return Some("giveup".to_string());
        }
        if o.fetch.is_some() {
            return Some("fetch".to_string());
        }
        let done = o.file.starts_with("started:")
            && o.file.ends_with(&format!(":{}", o.latest))
            && o.mempool.iter().all(|t| self.hold.contains(t));
        if done {
            // late inclusions that never got their chance
            if let Some(t) = self.hold.pop() {
                if o.mempool.contains(&t) {
                    return Some(format!("include t{t}"));
                }
            }
            return None;
        }
        Some("wait".to_string())
    }

    fn drive(&mut self, r: &mut Runner) {
        while let Some(op) = self.next(r) {
            r.run(&op);
        }
    }

    /// `drive`, then one more sequencer block and `drive` again: a block that got lost on the
    /// way (and would simply never be relayed) turns into a visible gap once a later block is
    /// confirmed
    fn drive_and_extend(&mut self, r: &mut Runner) {
        self.drive(r);
        r.run("bump 1");
        self.steps = 0;
        self.stall = 0;
        self.drive(r);
    }
}

/// the canonical run: `blocks` sequencer blocks relayed without any fault
fn canonical(r: &mut Runner, base: u64, blocks: u64, eager: bool) -> Vec<String> {
    let first = r.trace.lines;
    let _ = first;
    let mut ops = vec![format!("reset {base}"), format!("bump {blocks}")];
    for op in ops.clone() {
        r.run(&op);
    }
    let mut auto = Auto::new(eager);
    while let Some(op) = auto.next(r) {
        r.run(&op);
        ops.push(op);
    }
    ops
}

fn after_crash(r: &mut Runner, outcome: Outcome, eager: bool) {
    let o = r.h.obs();
    let mut auto = Auto::new(eager);
    match outcome {
        Outcome::Lost => {
            for t in &o.mempool {
                r.run(&format!("drop t{t}"));
            }
        }
        Outcome::ConfirmedWhileDown => {
            for t in &o.mempool {
                r.run(&format!("include t{t}"));
            }
        }
        Outcome::PendingThenConfirmed => auto.pending_once = true,
        Outcome::TimedOutThenLate => {
            auto.hold = o.mempool.clone();
            auto.hold_until = o.chain_len;
        }
    }
    auto.drive_and_extend(r);
}

const OUTCOMES: [Outcome; 4] = [
    Outcome::Lost,
    Outcome::ConfirmedWhileDown,
    Outcome::PendingThenConfirmed,
    Outcome::TimedOutThenLate,
];

/// every single crash point of the canonical run x every outcome of the in-flight BlobTx
fn single_crashes(r: &mut Runner, base: u64, blocks: u64, eager: bool, stride: usize) {
    let ops = canonical(r, base, blocks, eager);
    let mut k = 3;
    while k <= ops.len() {
        let mut outcomes_done = 0;
        for outcome in OUTCOMES {
            for op in &ops[..k] {
                r.run(op);
            }
            if r.h.session.is_none() {
                break;
            }
            let in_flight = !r.h.obs().mempool.is_empty();
            if !in_flight && outcomes_done > 0 {
                break;
            }
            r.run("crash");
            after_crash(r, outcome, eager);
            outcomes_done += 1;
        }
        k += stride;
    }
}

/// the process dies in the middle of each of its fs operations (torn write of whatever file
/// the operation was writing), then recovery
fn torn_writes(r: &mut Runner, blocks: u64, eager: bool) {
    let canon = canonical(r, 0, blocks, eager);
    // a second run: crash right after the first broadcast was accepted, the transaction is
    // confirmed (even runs: lost) while down, recovery through the start-up confirmation
    let mut runs = vec![canon.clone()];
    for lost in [false, true] {
        let Some(k) = canon.iter().position(|op| op == "bcast ok") else {
            continue;
        };
        let mut ops: Vec<String> = canon[..=k].to_vec();
        for op in &ops {
            r.run(op);
        }
        let t = r.h.obs().mempool.first().copied();
        let mut rest = vec!["crash".to_string()];
        if let Some(t) = t {
            rest.push(format!("{} t{t}", if lost { "drop" } else { "include" }));
        }
        for op in &rest {
            r.run(op);
        }
        ops.extend(rest);
        let mut auto = Auto::new(eager);
        while let Some(op) = auto.next(r) {
            r.run(&op);
            ops.push(op);
        }
        runs.push(ops);
    }
    for ops in runs {
        for k in 0..ops.len() {
            if ops[k] != "fs" {
                continue;
            }
            for op in &ops[..k] {
                r.run(op);
            }
            if r.h.session.is_none() {
                continue;
            }
            r.run("torn");
            Auto::new(eager).drive_and_extend(r);
        }
    }
}

/// two crash points: the second one `gap` controller steps into the recovery from the first
fn double_crashes(r: &mut Runner, blocks: u64, eager: bool, stride: usize, gaps: &[u32]) {
    let ops = canonical(r, 0, blocks, eager);
    let outcomes = [
        Outcome::Lost,
        Outcome::ConfirmedWhileDown,
        Outcome::TimedOutThenLate,
    ];
    let mut k = 3;
    let mut n = 0usize;
    while k <= ops.len() {
        for gap in gaps {
            let o1 = outcomes[n % 3];
            let o2 = outcomes[(n / 3 + 1) % 3];
            n += 1;
            for op in &ops[..k] {
                r.run(op);
            }
            if r.h.session.is_none() {
                continue;
            }
            r.run("crash");
            // recovery from the first crash, interrupted after `gap` steps
            let o = r.h.obs();
            let mut auto = Auto::new(eager);
            match o1 {
                Outcome::Lost => {
                    for t in &o.mempool {
                        r.run(&format!("drop t{t}"));
                    }
                }
                Outcome::ConfirmedWhileDown => {
                    for t in &o.mempool {
                        r.run(&format!("include t{t}"));
                    }
                }
                _ => {
                    auto.hold = o.mempool.clone();
                    auto.hold_until = o.chain_len;
                }
            }
            for _ in 0..*gap {
                match auto.next(r) {
                    Some(op) => {
                        r.run(&op);
                    }
                    None => break,
                }
            }
            if r.h.session.is_some() {
                r.run("crash");
            }
            after_crash(r, o2, eager);
        }
        k += stride;
    }
}

/// the submitter is still confirming the last session's transaction while the reader runs far
/// ahead: the channel between them (128 blocks) fills up, the next block is parked
/// (`forward_once_free`) and the block stream pauses; after the confirmation everything must
/// come out in order, once
fn channel_full(r: &mut Runner) {
    for op in [
        "reset 0", "bump 1", "restart aged", "fs", "fs", "fs", "fetch", "fs", "fs", "bcast ok", "crash",
        "bump 135", "restart aged", "fs", "fs", "fs",
    ] {
        r.run(op);
    }
    for _ in 0..131 {
        r.run("fetch");
    }
    r.run("include t1");
    Auto::new(true).drive_and_extend(r);
}

/// the adversarial file scenarios: left-over / garbage / truncated temp file, truncated /
/// garbage / missing / semantically invalid state file
fn file_scenarios(r: &mut Runner) {
    let tmp_kinds = ["garbage", "empty", "trunc 50", "trunc 99", "stale", "none"];
    for (i, kind) in tmp_kinds.iter().enumerate() {
        // crash between the temp write and the rename of `prepared` / `started`, then the temp
        // file is additionally damaged while the process is down
        let mut pre: Vec<String> = vec!["reset 0".into(), "bump 2".into(), "restart aged".into()];
        pre.extend(["fs", "fs", "fs", "fetch", "fs"].iter().map(|s| s.to_string()));
        if i % 2 == 1 {
            // go on to the temp write of `started`
            pre.extend(
                ["fs", "bcast ok", "include t1", "wait", "gettx truth", "fs"]
                    .iter()
                    .map(|s| s.to_string()),
            );
        }
        for op in &pre {
            r.run(op);
        }
        r.run("crash");
        r.run(&format!("corrupttmp {kind}"));
        Auto::new(true).drive(r);
    }
    let file_kinds = [
        "garbage",
        "empty",
        "trunc 10",
        "trunc 50",
        "trunc 90",
        "trunc 100",
        "none",
        "badprep",
        "unknownstate",
    ];
    for (i, kind) in file_kinds.iter().enumerate() {
        let mut pre: Vec<String> = vec![
            format!("reset {}", if i % 3 == 0 { 4 } else { 0 }),
            "bump 2".into(),
            "restart aged".into(),
        ];
        pre.extend(["fs", "fs", "fs", "fetch", "fs", "fs"].iter().map(|s| s.to_string()));
        if i % 2 == 0 {
            pre.extend(
                ["bcast ok", "include t1", "wait", "gettx truth", "fs", "fs"]
                    .iter()
                    .map(|s| s.to_string()),
            );
        }
        for op in &pre {
            r.run(op);
        }
        r.run("crash");
        r.run(&format!("tamper {kind}"));
        r.run("restart recent");
        r.run("fs");
        r.run("fs");
        r.run("fs");
        r.run("crash");
        r.run("tamper restore");
        Auto::new(false).drive(r);
    }
}

fn random_session(r: &mut Runner, rng: &mut Rng, len: u32) {
    let base = if rng.chance(65) { 0 } else { rng.range(1, 30) };
    r.run(&format!("reset {base}"));
    r.run(&format!("bump {}", rng.range(1, 5)));
    let mut sleeper = false;
    let mut queue: std::collections::VecDeque<String> = Default::default();
    for _ in 0..len {
        if let Some(op) = queue.pop_front() {
            r.run(&op);
            continue;
        }
        let o = r.h.obs();
        let op: String = if !o.up {
            let c = rng.below(100);
            if c < 50 {
                if rng.chance(75) { "restart aged".into() } else { "restart recent".into() }
            } else if c < 68 && !o.mempool.is_empty() {
                let t = *rng.pick(&o.mempool);
                if rng.chance(70) { format!("include t{t}") } else { format!("drop t{t}") }
            } else if c < 78 {
                format!("bump {}", rng.range(1, 3))
            } else if c < 90 {
                let kinds = ["garbage", "empty", "trunc 30", "trunc 70", "trunc 99", "stale", "none"];
                format!("corrupttmp {}", rng.pick(&kinds))
            } else if c < 94 {
                let kinds = ["garbage", "empty", "trunc 20", "trunc 60", "trunc 100", "none", "badprep", "unknownstate"];
                queue.extend(
                    ["restart recent", "fs", "fs", "crash", "tamper restore"]
                        .iter()
                        .map(|s| s.to_string()),
                );
                format!("tamper {}", rng.pick(&kinds))
            } else {
                "restart aged".into()
            }
        } else {
            let celestia_held = o.bcast.is_some() || o.gettx.is_some();
            let mut cand: Vec<(u64, &str)> = vec![];
            cand.push((if r.fs_todo > 0 { 55 } else { 3 }, "fs"));
            if r.fs_todo > 0 {
                cand.push((4, "torn"));
            }
            if o.fetch.is_some() {
                cand.push((22, "fetch"));
            }
            if o.bcast.is_some() {
                cand.push((30, "bcast"));
            }
            if o.gettx.is_some() {
                cand.push((30, "gettx"));
                cand.push((4, "giveup"));
            }
            if !celestia_held {
                cand.push((if sleeper { 30 } else { 5 }, "wait"));
            }
            if !o.mempool.is_empty() {
                cand.push((14, "include"));
                cand.push((4, "drop"));
            }
            cand.push((4, "bump"));
            cand.push((7, "crash"));
            let total: u64 = cand.iter().map(|c| c.0).sum();
            let mut x = rng.below(total);
            let mut pick = "fs";
            for (w, name) in &cand {
                if x < *w {
                    pick = name;
                    break;
                }
                x -= *w;
            }
            match pick {
                "bcast" => {
                    sleeper = true;
                    let c = rng.below(100);
                    let o = if c < 55 {
                        "ok"
                    } else if c < 65 {
                        "lost"
                    } else if c < 73 {
                        "code13"
                    } else if c < 77 {
                        "code5"
                    } else if c < 82 {
                        "unavail"
                    } else if c < 85 {
                        "empty"
                    } else if c < 93 {
                        "timeout-acc"
                    } else {
                        "timeout-noacc"
                    };
                    format!("bcast {o}")
                }
                "gettx" => {
                    sleeper = true;
                    let c = rng.below(100);
                    format!(
                        "gettx {}",
                        if c < 66 {
                            "truth"
                        } else if c < 84 {
                            "h0"
                        } else if c < 90 {
                            "err"
                        } else if c < 94 {
                            "code5"
                        } else if c < 97 {
                            "empty"
                        } else {
                            "negative"
                        }
                    )
                }
                "include" | "drop" => format!("{pick} t{}", rng.pick(&o.mempool)),
                "bump" => format!("bump {}", rng.range(1, 3)),
                other => other.to_string(),
            }
        };
        let res = r.run(&op);
        if op == "wait" {
            sleeper = res.starts_with("ok");
        }
        if op.starts_with("restart") {
            sleeper = true;
        }
    }
}

#[test]
fn driver() {
    let mut rng = Rng::from_env();
    let trace = Trace::from_env();
    if std::env::var_os("VERIF_LOG").is_some() {
        let _ = telemetry::configure()
            .set_no_otel(true)
            .set_force_stdout(true)
            .set_filter_directives("astria_sequencer_relayer=trace,info")
            .try_init::<crate::metrics::Metrics>(&())
            .unwrap();
    }
    let root = std::env::temp_dir().join(format!("verif-crash-{}", std::process::id()));
    let _ = std::fs::remove_dir_all(&root);
    std::fs::create_dir_all(&root).unwrap();
    let keyfile = root.join("celestia.key");
    std::fs::write(
        &keyfile,
        b"c8076374e2a4a58db1c924e3dafc055e9685481054fe99e58ed67f5c6ed80e62",
    )
    .unwrap();
    let h = Harness {
        shared: Arc::new(Mutex::new(World::new(0))),
        session: None,
        root: root.clone(),
        keyfile,
        sess_no: 0,
    };
    let mut r = Runner {
        h,
        trace,
        fs_todo: 0,
        last_res: String::new(),
        last_dump: String::new(),
        ops: 0,
    };
    match common::replay_lines() {
        Some(lines) => {
            for op in lines {
                r.run(&op);
            }
        }
        None => {
            for op in common::corpus_lines() {
                r.run(&op);
            }
            let thorough = common::is_thorough();
            file_scenarios(&mut r);
            channel_full(&mut r);
            torn_writes(&mut r, if thorough { 4 } else { 2 }, true);
            // every crash point of a 6-block run x 4 outcomes of the in-flight BlobTx
            single_crashes(&mut r, 0, 6, true, 1);
            single_crashes(&mut r, 0, if thorough { 6 } else { 3 }, false, 1);
            single_crashes(&mut r, 17, if thorough { 12 } else { 3 }, true, if thorough { 1 } else { 2 });
            if thorough {
                double_crashes(&mut r, 6, true, 1, &[1, 2, 3, 4, 6, 9, 13]);
                double_crashes(&mut r, 4, false, 1, &[2, 4, 7, 9, 12]);
            } else {
                double_crashes(&mut r, 3, true, 3, &[2, 5, 9]);
            }
            let sessions = if thorough { 400 } else { 40 };
            for _ in 0..sessions {
                let len = rng.range(40, 160) as u32;
                random_session(&mut r, &mut rng, len);
            }
        }
    }
    if let Some(s) = r.h.session.take() {
        s.kill(&r.h.shared);
    }
    let _ = std::fs::remove_dir_all(&root);
    eprintln!("crash harness: {} ops", r.ops);
    r.trace.finish();
}
