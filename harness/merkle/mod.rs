// In-crate verification harness for astria-merkle (C08, parts of C17).
// Compiled only with `--features verif` under cfg(test); see /verif/DESIGN.md §2.1.
#![allow(clippy::pedantic, clippy::all, dead_code)]

#[path = "/verif/harness/common.rs"]
mod common;

use common::{
    hex,
    no_panic,
    unhex,
    Rng,
    Trace,
};

use crate::{
    audit::Proof,
    Tree,
};

fn fmt_opt(v: Option<usize>) -> String {
    match v {
        Some(x) => x.to_string(),
        None => "panic".to_string(),
    }
}

fn parse_leaves(s: &str) -> Vec<Vec<u8>> {
    if s == "." {
        return vec![];
    }
    s.split(',').map(unhex).collect()
}

fn fmt_leaves(ls: &[Vec<u8>]) -> String {
    if ls.is_empty() {
        return ".".to_string();
    }
    ls.iter().map(|l| hex(l)).collect::<Vec<_>>().join(",")
}

fn err_kind(e: &crate::audit::InvalidProof) -> &'static str {
    let d = format!("{e:?}");
    if d.contains("ZeroTreeSize") {
        "zero-tree-size"
    } else if d.contains("LeafIndexOutsideTree") {
        "leaf-index-outside-tree"
    } else if d.contains("AuditPathNotMultipleOf32") {
        "audit-path-not-multiple-of-32"
    } else if d.contains("TooLong") {
        "audit-path-too-long"
    } else {
        "other"
    }
}

fn decode(path: Vec<u8>, leaf_index: usize, tree_size: usize) -> Option<Result<Proof, &'static str>> {
    no_panic(move || {
        match Proof::unchecked()
            .audit_path(path)
            .leaf_index(leaf_index)
            .tree_size(tree_size)
            .try_into_proof()
        {
            Ok(p) => Ok(p),
            Err(e) => {
                // formatting the error chain must not panic either
                let _ = format!("{e}");
                let _ = std::error::Error::source(&e).map(|s| format!("{s}"));
                Err(err_kind(&e))
            }
        }
    })
}

/// Executes one operation against the real crate and returns the canonical result.
pub fn exec(op: &str) -> String {
    let t: Vec<&str> = op.split(' ').collect();
    match (t[0], t[1]) {
        ("idx", "pp") => {
            let i: usize = t[2].parse().unwrap();
            fmt_opt(no_panic(move || crate::perfect_parent(i)))
        }
        ("idx", "cp") => {
            let i: usize = t[2].parse().unwrap();
            let n: usize = t[3].parse().unwrap();
            fmt_opt(no_panic(move || crate::complete_parent(i, n)))
        }
        ("idx", "root") => {
            let n: usize = t[2].parse().unwrap();
            fmt_opt(no_panic(move || crate::complete_root(n)))
        }
        ("idx", "lc") => {
            let p: usize = t[2].parse().unwrap();
            fmt_opt(no_panic(move || crate::complete_left_child(p)))
        }
        ("idx", "rc") => {
            let p: usize = t[2].parse().unwrap();
            let n: usize = t[3].parse().unwrap();
            fmt_opt(no_panic(move || crate::complete_right_child(p, n)))
        }
        ("idx", "ps") => {
            let i: usize = t[2].parse().unwrap();
            let n: usize = t[3].parse().unwrap();
            match no_panic(move || crate::complete_parent_and_sibling(i, n)) {
                Some((p, s)) => format!("{p},{s}"),
                None => "panic".into(),
            }
        }
        ("tree", "root") => {
            let leaves = parse_leaves(t[2]);
            match no_panic(move || Tree::from_leaves(leaves).root()) {
                Some(r) => hex(&r),
                None => "panic".into(),
            }
        }
        ("tree", "proof") => {
            let leaves = parse_leaves(t[2]);
            let i: usize = t[3].parse().unwrap();
            match no_panic(move || Tree::from_leaves(leaves).construct_proof(i)) {
                Some(Some(p)) => format!("{} {} {}", hex(p.audit_path()), p.leaf_index(), p.tree_size()),
                Some(None) => "none".into(),
                None => "panic".into(),
            }
        }
        ("proof", "decode") => {
            // proof decode <path_len_bytes> <leaf_index> <tree_size>
            let len: usize = t[2].parse().unwrap();
            let li: usize = t[3].parse().unwrap();
            let ts: usize = t[4].parse().unwrap();
            match decode(vec![7u8; len], li, ts) {
                Some(Ok(_)) => "ok".into(),
                Some(Err(k)) => format!("err:{k}"),
                None => "panic".into(),
            }
        }
        ("proof", "verify") | ("proof", "verifymut") => {
            // proof verify <pathhex> <leaf_index> <tree_size> <leafhex> <roothex>
            let path = unhex(t[2]);
            let li: usize = t[3].parse().unwrap();
            let ts: usize = t[4].parse().unwrap();
            let leaf = unhex(t[5]);
            let root: [u8; 32] = unhex(t[6]).try_into().unwrap();
            match decode(path, li, ts) {
                Some(Ok(p)) => match no_panic(move || p.verify(&leaf, root)) {
                    Some(b) => b.to_string(),
                    None => "panic".into(),
                },
                Some(Err(k)) => format!("err:{k}"),
                None => "panic".into(),
            }
        }
        _ => panic!("unknown op {op}"),
    }
}

fn boundary_values(n_hint: u64) -> Vec<u64> {
    let mut v = vec![
        0,
        1,
        2,
        3,
        n_hint.saturating_sub(1),
        n_hint,
        n_hint.saturating_add(1),
        (1 << 31) - 1,
        1 << 31,
        1 << 32,
        (1 << 62) - 1,
        1 << 62,
        (1 << 63) - 1,
        1 << 63,
        (1 << 63) + 1,
        u64::MAX - 1,
        u64::MAX,
    ];
    v.sort();
    v.dedup();
    v
}

fn gen_ops(rng: &mut Rng, thorough: bool) -> Vec<String> {
    let mut ops = Vec::new();
    // --- private index functions: exhaustive small + random 64-bit + boundaries
    let small = if thorough { 4096 } else { 512 };
    for i in 0..small {
        ops.push(format!("idx pp {i}"));
        if i % 2 == 1 {
            ops.push(format!("idx lc {i}"));
        }
    }
    let nmax = if thorough { 160 } else { 48 };
    for n in 1..=nmax {
        ops.push(format!("idx root {n}"));
        for i in 0..n {
            // also indices of even (never built) sizes: the decoder accepts any tree_size
            ops.push(format!("idx cp {i} {n}"));
            if n % 2 == 1 {
                if i % 2 == 1 {
                    ops.push(format!("idx rc {i} {n}"));
                }
                ops.push(format!("idx ps {i} {n}"));
            }
        }
    }
    for &b in &boundary_values(0) {
        ops.push(format!("idx pp {b}"));
        ops.push(format!("idx root {b}"));
    }
    for _ in 0..(if thorough { 20000 } else { 2000 }) {
        let i = rng.next() >> rng.below(64);
        let n = rng.next() >> rng.below(64);
        ops.push(format!("idx pp {i}"));
        if n > 0 {
            ops.push(format!("idx cp {i} {n}"));
        }
    }
    // --- trees: exhaustive sizes, all leaf indices
    let exh = if thorough { 64 } else { 33 };
    let mut honest: Vec<(Vec<Vec<u8>>, usize)> = Vec::new();
    for m in 0..=exh {
        let leaves: Vec<Vec<u8>> = (0..m)
            .map(|_| {
                let len = rng.below(4) as usize; // includes empty and duplicate leaves
                rng.bytes(len)
            })
            .collect();
        ops.push(format!("tree root {}", fmt_leaves(&leaves)));
        for i in 0..=m {
            ops.push(format!("tree proof {} {i}", fmt_leaves(&leaves)));
            if i < m {
                honest.push((leaves.clone(), i));
            }
        }
    }
    // --- sampled larger trees
    let samples = if thorough { 40 } else { 6 };
    for k in 0..samples {
        let m = if thorough && k % 8 == 0 {
            rng.range(1 << 12, 1 << 16) as usize
        } else {
            rng.range(65, 700) as usize
        };
        let leaves: Vec<Vec<u8>> = (0..m).map(|j| vec![(j % 251) as u8, (j / 251) as u8]).collect();
        ops.push(format!("tree root {}", fmt_leaves(&leaves)));
        for _ in 0..4 {
            let i = rng.below(m as u64) as usize;
            ops.push(format!("tree proof {} {i}", fmt_leaves(&leaves)));
        }
        ops.push(format!("tree proof {} {}", fmt_leaves(&leaves), m - 1));
    }
    // --- verification of honest proofs and of every single-element / single-bit mutation
    let stride = if thorough { 1 } else { 7 };
    for (k, (leaves, i)) in honest.iter().enumerate() {
        if k % stride != 0 {
            continue;
        }
        let tree = Tree::from_leaves(leaves.clone());
        let root = tree.root();
        let p = tree.construct_proof(*i).unwrap();
        let path = p.audit_path().to_vec();
        let (li, ts) = (p.leaf_index(), p.tree_size().get());
        let leaf = &leaves[*i];
        ops.push(format!("proof verify {} {li} {ts} {} {}", hex(&path), hex(leaf), hex(&root)));
        // mutated leaf
        let mut leaf2 = leaf.clone();
        if leaf2.is_empty() {
            leaf2.push(0);
        } else {
            let b = rng.below(leaf2.len() as u64 * 8) as usize;
            leaf2[b / 8] ^= 1 << (b % 8);
        }
        ops.push(format!(
            "proof verifymut {} {li} {ts} {} {}",
            hex(&path),
            hex(&leaf2),
            hex(&root)
        ));
        // mutated root
        let mut root2 = root;
        let b = rng.below(256) as usize;
        root2[b / 8] ^= 1 << (b % 8);
        ops.push(format!(
            "proof verifymut {} {li} {ts} {} {}",
            hex(&path),
            hex(leaf),
            hex(&root2)
        ));
        // each path element mutated by one bit
        for seg in 0..path.len() / 32 {
            let mut path2 = path.clone();
            let b = rng.below(256) as usize;
            path2[seg * 32 + b / 8] ^= 1 << (b % 8);
            ops.push(format!(
                "proof verifymut {} {li} {ts} {} {}",
                hex(&path2),
                hex(leaf),
                hex(&root)
            ));
        }
        // wrong position (another leaf index of the same tree): a plain `verify` line, because a
        // tree with repeated content can legitimately verify at a symmetric position
        if leaves.len() > 1 {
            let other = (i + 1 + rng.below(leaves.len() as u64 - 1) as usize) % leaves.len();
            ops.push(format!(
                "proof verify {} {other} {ts} {} {}",
                hex(&path),
                hex(leaf),
                hex(&root)
            ));
        }
        // truncated and extended path
        if !path.is_empty() {
            ops.push(format!(
                "proof verifymut {} {li} {ts} {} {}",
                hex(&path[..path.len() - 32]),
                hex(leaf),
                hex(&root)
            ));
        }
        let mut longer = path.clone();
        longer.extend_from_slice(&rng.bytes(32));
        ops.push(format!(
            "proof verifymut {} {li} {ts} {} {}",
            hex(&longer),
            hex(leaf),
            hex(&root)
        ));
    }
    // --- all decodable triples incl. inconsistent ones
    let lens: Vec<usize> = {
        let mut v: Vec<usize> = (0..=70).map(|s| s * 32).collect();
        v.extend_from_slice(&[1, 31, 33, 63]);
        v
    };
    for &ts in &boundary_values(9) {
        for &li in &boundary_values(4) {
            for &len in &[0usize, 31, 32, 64] {
                ops.push(format!("proof decode {len} {li} {ts}"));
            }
        }
    }
    let ntrip = if thorough { 30000 } else { 3000 };
    let root0 = hex(&[0u8; 32]);
    for _ in 0..ntrip {
        let len = *rng.pick(&lens);
        let ts = match rng.below(4) {
            0 => rng.range(0, 40),
            1 => *rng.pick(&boundary_values(17)),
            2 => rng.next() >> rng.below(64),
            _ => rng.range(0, 300),
        };
        let li = match rng.below(4) {
            0 => rng.range(0, 20),
            1 => *rng.pick(&boundary_values(ts / 2)),
            2 => rng.next() >> rng.below(64),
            _ => rng.below(ts / 2 + 2),
        };
        ops.push(format!("proof decode {len} {li} {ts}"));
        if len % 32 == 0 || rng.chance(10) {
            let path = rng.bytes(len);
            ops.push(format!(
                "proof verify {} {li} {ts} {} {root0}",
                hex(&path),
                hex(&rng.bytes(3))
            ));
        }
    }
    ops
}

#[test]
fn driver() {
    common::silence_panics();
    let mut rng = Rng::from_env();
    let mut trace = Trace::from_env();
    let ops = match common::replay_lines() {
        Some(lines) => lines,
        None => {
            let mut v = common::corpus_lines();
            v.extend(gen_ops(&mut rng, common::is_thorough()));
            v
        }
    };
    for op in ops {
        let op = op.strip_prefix("merkle ").unwrap_or(&op).to_string();
        let res = exec(&op);
        trace.line(&format!("merkle {op} => {res}"));
    }
    trace.finish();
}
