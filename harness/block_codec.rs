// Shared by the `block` harnesses (conductor/blobs.rs, sequencer/grpc.rs): the text codec of the
// raw protobuf values, the error-kind extraction, the block spec with the real builder, and the
// seeded generator of block contents.  Included with #[path]; expects `super::common`.
#![allow(clippy::pedantic, clippy::all, dead_code, unused_imports)]

use std::collections::HashMap;

use astria_core::{
    generated::astria::{
        primitive::v1 as rawp,
        sequencerblock::v1 as raw,
    },
    primitive::v1::{
        Address,
        RollupId,
        TransactionId,
    },
    sequencerblock::v1::{
        block::{
            self,
            Deposit,
            ExpandedBlockData,
            RollupData,
            SequencerBlockBuilder,
        },
        DataItem,
        SequencerBlock,
    },
    Protobuf as _,
};
use bytes::Bytes;
use prost::Message as _;

use super::common::{
    self,
    hex,
    no_panic,
    unhex,
    Rng,
};

// ------------------------------------------------------------------------------------------
// text codec of the raw protobuf values (single token each; `&` separates fields)
// ------------------------------------------------------------------------------------------

pub fn bl(items: &[Bytes]) -> String {
    if items.is_empty() {
        ".".to_string()
    } else {
        items.iter().map(|b| hex(b)).collect::<Vec<_>>().join(",")
    }
}

pub fn bl_p(s: &str) -> Vec<Bytes> {
    if s == "." {
        vec![]
    } else {
        s.split(',').map(|x| Bytes::from(unhex(x))).collect()
    }
}

pub fn proof_s(p: &Option<rawp::Proof>) -> String {
    match p {
        None => "~".to_string(),
        Some(p) => format!("{}/{}/{}", hex(&p.audit_path), p.leaf_index, p.tree_size),
    }
}

pub fn proof_p(s: &str) -> Option<rawp::Proof> {
    if s == "~" {
        return None;
    }
    let v: Vec<&str> = s.split('/').collect();
    Some(rawp::Proof {
        audit_path: unhex(v[0]).into(),
        leaf_index: v[1].parse().unwrap(),
        tree_size: v[2].parse().unwrap(),
    })
}

pub fn hdr_s(h: &Option<raw::SequencerBlockHeader>) -> String {
    match h {
        None => "~".to_string(),
        Some(h) => format!(
            "{}:{}:{}:{}:{}:{}",
            hex(h.chain_id.as_bytes()),
            h.height,
            match &h.time {
                None => "~".to_string(),
                Some(t) => format!("{}_{}", t.seconds, t.nanos),
            },
            hex(&h.rollup_transactions_root),
            hex(&h.data_hash),
            hex(&h.proposer_address)
        ),
    }
}

pub fn hdr_p(s: &str) -> Option<raw::SequencerBlockHeader> {
    if s == "~" {
        return None;
    }
    let v: Vec<&str> = s.split(':').collect();
    Some(raw::SequencerBlockHeader {
        chain_id: String::from_utf8_lossy(&unhex(v[0])).into_owned(),
        height: v[1].parse().unwrap(),
        time: if v[2] == "~" {
            None
        } else {
            let (a, b) = v[2].split_once('_').unwrap();
            Some(pbjson_types::Timestamp {
                seconds: a.parse().unwrap(),
                nanos: b.parse().unwrap(),
            })
        },
        rollup_transactions_root: unhex(v[3]).into(),
        data_hash: unhex(v[4]).into(),
        proposer_address: unhex(v[5]).into(),
    })
}

pub fn id_s(id: &Option<rawp::RollupId>) -> String {
    match id {
        None => "~".to_string(),
        Some(id) => hex(&id.inner),
    }
}

pub fn id_p(s: &str) -> Option<rawp::RollupId> {
    if s == "~" {
        None
    } else {
        Some(rawp::RollupId {
            inner: unhex(s).into(),
        })
    }
}

pub fn rt_s(r: &raw::RollupTransactions) -> String {
    format!("{};{};{}", id_s(&r.rollup_id), bl(&r.transactions), proof_s(&r.proof))
}

pub fn rt_p(s: &str) -> raw::RollupTransactions {
    let v: Vec<&str> = s.split(';').collect();
    raw::RollupTransactions {
        rollup_id: id_p(v[0]),
        transactions: bl_p(v[1]),
        proof: proof_p(v[2]),
    }
}

pub fn rts_s(rs: &[raw::RollupTransactions]) -> String {
    if rs.is_empty() {
        ".".to_string()
    } else {
        rs.iter().map(rt_s).collect::<Vec<_>>().join("|")
    }
}

pub fn rts_p(s: &str) -> Vec<raw::RollupTransactions> {
    if s == "." {
        vec![]
    } else {
        s.split('|').map(rt_p).collect()
    }
}

/// The oracle for the extended commit info bytes: what prost + `try_from_raw` say about them.
pub fn eci_check(info: &[u8]) -> &'static str {
    use astria_core::{
        generated::protocol::price_feed::v1::ExtendedCommitInfoWithCurrencyPairMapping as RawEci,
        protocol::price_feed::v1::ExtendedCommitInfoWithCurrencyPairMapping as Eci,
    };
    match RawEci::decode(info) {
        Err(_) => "decode",
        Ok(r) => match Eci::try_from_raw(r) {
            Ok(_) => "ok",
            Err(_) => "invalid",
        },
    }
}

pub fn eci_s(e: &Option<raw::ExtendedCommitInfoWithProof>) -> String {
    match e {
        None => "~".to_string(),
        Some(e) => format!(
            "{};{};{}",
            hex(&e.extended_commit_info),
            proof_s(&e.proof),
            eci_check(&e.extended_commit_info)
        ),
    }
}

pub fn eci_p(s: &str) -> Option<raw::ExtendedCommitInfoWithProof> {
    if s == "~" {
        return None;
    }
    let v: Vec<&str> = s.split(';').collect();
    Some(raw::ExtendedCommitInfoWithProof {
        extended_commit_info: unhex(v[0]).into(),
        proof: proof_p(v[1]),
    })
}

pub fn fields(s: &str) -> HashMap<&str, &str> {
    s.split('&').filter_map(|kv| kv.split_once('=')).collect()
}

pub fn block_s(b: &raw::SequencerBlock) -> String {
    format!(
        "bh={}&hd={}&rt={}&tp={}&ip={}&uch={}&eci={}",
        hex(&b.block_hash),
        hdr_s(&b.header),
        rts_s(&b.rollup_transactions),
        proof_s(&b.rollup_transactions_proof),
        proof_s(&b.rollup_ids_proof),
        bl(&b.upgrade_change_hashes),
        eci_s(&b.extended_commit_info_with_proof)
    )
}

pub fn block_p(s: &str) -> raw::SequencerBlock {
    let f = fields(s);
    raw::SequencerBlock {
        block_hash: unhex(f["bh"]).into(),
        header: hdr_p(f["hd"]),
        rollup_transactions: rts_p(f["rt"]),
        rollup_transactions_proof: proof_p(f["tp"]),
        rollup_ids_proof: proof_p(f["ip"]),
        upgrade_change_hashes: bl_p(f["uch"]),
        extended_commit_info_with_proof: eci_p(f["eci"]),
    }
}

pub fn ids_s(ids: &[rawp::RollupId]) -> String {
    if ids.is_empty() {
        ".".to_string()
    } else {
        ids.iter().map(|i| hex(&i.inner)).collect::<Vec<_>>().join(",")
    }
}

pub fn ids_p(s: &str) -> Vec<rawp::RollupId> {
    if s == "." {
        vec![]
    } else {
        s.split(',')
            .map(|x| rawp::RollupId {
                inner: unhex(x).into(),
            })
            .collect()
    }
}

pub fn filtered_s(b: &raw::FilteredSequencerBlock) -> String {
    format!(
        "bh={}&hd={}&rt={}&tp={}&all={}&ip={}&uch={}&eci={}",
        hex(&b.block_hash),
        hdr_s(&b.header),
        rts_s(&b.rollup_transactions),
        proof_s(&b.rollup_transactions_proof),
        ids_s(&b.all_rollup_ids),
        proof_s(&b.rollup_ids_proof),
        bl(&b.upgrade_change_hashes),
        eci_s(&b.extended_commit_info_with_proof)
    )
}

pub fn filtered_p(s: &str) -> raw::FilteredSequencerBlock {
    let f = fields(s);
    raw::FilteredSequencerBlock {
        block_hash: unhex(f["bh"]).into(),
        header: hdr_p(f["hd"]),
        rollup_transactions: rts_p(f["rt"]),
        rollup_transactions_proof: proof_p(f["tp"]),
        all_rollup_ids: ids_p(f["all"]),
        rollup_ids_proof: proof_p(f["ip"]),
        upgrade_change_hashes: bl_p(f["uch"]),
        extended_commit_info_with_proof: eci_p(f["eci"]),
    }
}

pub fn meta_s(b: &raw::SubmittedMetadata) -> String {
    format!(
        "bh={}&hd={}&ids={}&tp={}&ip={}&uch={}&eci={}",
        hex(&b.block_hash),
        hdr_s(&b.header),
        ids_s(&b.rollup_ids),
        proof_s(&b.rollup_transactions_proof),
        proof_s(&b.rollup_ids_proof),
        bl(&b.upgrade_change_hashes),
        eci_s(&b.extended_commit_info_with_proof)
    )
}

pub fn meta_p(s: &str) -> raw::SubmittedMetadata {
    let f = fields(s);
    raw::SubmittedMetadata {
        block_hash: unhex(f["bh"]).into(),
        header: hdr_p(f["hd"]),
        rollup_ids: ids_p(f["ids"]),
        rollup_transactions_proof: proof_p(f["tp"]),
        rollup_ids_proof: proof_p(f["ip"]),
        upgrade_change_hashes: bl_p(f["uch"]),
        extended_commit_info_with_proof: eci_p(f["eci"]),
    }
}

pub fn blob_s(b: &raw::SubmittedRollupData) -> String {
    format!(
        "bh={}&id={}&tx={}&pf={}",
        hex(&b.sequencer_block_hash),
        id_s(&b.rollup_id),
        bl(&b.transactions),
        proof_s(&b.proof)
    )
}

pub fn blob_p(s: &str) -> raw::SubmittedRollupData {
    let f = fields(s);
    raw::SubmittedRollupData {
        sequencer_block_hash: unhex(f["bh"]).into(),
        rollup_id: id_p(f["id"]),
        transactions: bl_p(f["tx"]),
        proof: proof_p(f["pf"]),
    }
}

// ------------------------------------------------------------------------------------------
// error kinds
// ------------------------------------------------------------------------------------------

pub const WRAPPERS: &[&str] = &[
    "Header",
    "InvalidHeader",
    "ParseRollupTransactions",
    "ProofInvalid",
    "TransactionProofInvalid",
    "IdProofInvalid",
    "ExtendedCommitInfo",
    "RollupTransactionsProof",
    "RollupIdsProof",
    "Proof",
];

pub const TERMINALS: &[&str] = &[
    "InvalidBlockHash",
    "FieldNotSet",
    "RollupTransactionsNotInSequencerBlock",
    "InvalidRollupTransactionsRoot",
    "InvalidRollupIdsProof",
    "UpgradeChangeHashes",
    "InvalidChainId",
    "InvalidHeight",
    "Time",
    "IncorrectRollupTransactionsRootLength",
    "ProposerAddress",
    "RollupId",
    "AuditPathNotMultipleOf32",
    "AuditPathTooLong",
    "LeafIndexOutsideTree",
    "ZeroTreeSize",
    "InvalidRollupId",
    "RollupTransactionForIdNotInSequencerBlock",
    "ProofNotSet",
    "NotInSequencerBlock",
    "Decode",
    "InvalidExtendedCommitInfo",
    "BlockHash",
    "RollupIds",
    "RollupTransactionsNotInCometBftBlock",
    "RollupIdsNotInCometBftBlock",
    "SequencerBlockHash",
    "RollupIdsRootDoesNotMatchReconstructed",
    "RollupTransactionsRootDoesNotMatchReconstructed",
];

/// Maps the `Debug` rendering of one of the (opaque) error types to `Outer/Inner/…`.
pub fn err_kind(dbg: &str) -> String {
    let mut out: Vec<String> = vec![];
    let bytes = dbg.as_bytes();
    let mut i = 0;
    while i < bytes.len() {
        if bytes[i].is_ascii_uppercase() && (i == 0 || !(bytes[i - 1].is_ascii_alphanumeric() || bytes[i - 1] == b'_')) {
            let mut j = i;
            while j < bytes.len() && (bytes[j].is_ascii_alphanumeric() || bytes[j] == b'_') {
                j += 1;
            }
            let ident = &dbg[i..j];
            if WRAPPERS.contains(&ident) {
                out.push(ident.to_string());
            } else if TERMINALS.contains(&ident) {
                if ident == "FieldNotSet" {
                    // the field name is the next quoted string
                    let rest = &dbg[j..];
                    let name = rest.split('"').nth(1).unwrap_or("?");
                    out.push(format!("FieldNotSet:{name}"));
                } else {
                    out.push(ident.to_string());
                }
                break;
            }
            i = j;
        } else {
            i += 1;
        }
    }
    if out.is_empty() {
        "other".to_string()
    } else {
        out.join("/")
    }
}

// ------------------------------------------------------------------------------------------
// build spec
// ------------------------------------------------------------------------------------------

#[derive(Clone, Debug)]
pub struct Spec {
    pub bh: [u8; 32],
    pub chain: String,
    pub height: u32,
    pub secs: i64,
    pub nanos: u32,
    pub proposer: [u8; 20],
    pub subs: Vec<([u8; 32], Vec<u8>)>,
    pub deps: Vec<([u8; 32], Vec<Vec<u8>>)>, // encoded RollupData::Deposit
    pub r1: [u8; 32],
    pub r2: [u8; 32],
    pub uch: Vec<[u8; 32]>,
    pub eci: Option<Vec<u8>>,
    pub utx: Vec<Vec<u8>>,
}

pub fn arr32(v: &[u8]) -> [u8; 32] {
    let mut a = [0u8; 32];
    a.copy_from_slice(&v[..32]);
    a
}

pub fn spec_s(s: &Spec) -> String {
    let subs = if s.subs.is_empty() {
        ".".to_string()
    } else {
        s.subs.iter().map(|(i, d)| format!("{}:{}", hex(i), hex(d))).collect::<Vec<_>>().join(",")
    };
    let deps = if s.deps.is_empty() {
        ".".to_string()
    } else {
        s.deps
            .iter()
            .map(|(i, ds)| {
                format!(
                    "{}:{}",
                    hex(i),
                    if ds.is_empty() {
                        ".".to_string()
                    } else {
                        ds.iter().map(|d| hex(d)).collect::<Vec<_>>().join("/")
                    }
                )
            })
            .collect::<Vec<_>>()
            .join(",")
    };
    format!(
        "bh={}&ch={}&h={}&t={}_{}&pr={}&subs={}&deps={}&r1={}&r2={}&uch={}&eci={}&utx={}",
        hex(&s.bh),
        hex(s.chain.as_bytes()),
        s.height,
        s.secs,
        s.nanos,
        hex(&s.proposer),
        subs,
        deps,
        hex(&s.r1),
        hex(&s.r2),
        if s.uch.is_empty() { ".".to_string() } else { s.uch.iter().map(|h| hex(h)).collect::<Vec<_>>().join(",") },
        match &s.eci {
            None => "~".to_string(),
            Some(e) => hex(e),
        },
        if s.utx.is_empty() { ".".to_string() } else { s.utx.iter().map(|h| hex(h)).collect::<Vec<_>>().join(",") },
    )
}

pub fn spec_p(t: &str) -> Spec {
    let f = fields(t);
    let (secs, nanos) = f["t"].split_once('_').unwrap();
    let mut proposer = [0u8; 20];
    proposer.copy_from_slice(&unhex(f["pr"])[..20]);
    Spec {
        bh: arr32(&unhex(f["bh"])),
        chain: String::from_utf8(unhex(f["ch"])).unwrap(),
        height: f["h"].parse().unwrap(),
        secs: secs.parse().unwrap(),
        nanos: nanos.parse().unwrap(),
        proposer,
        subs: if f["subs"] == "." {
            vec![]
        } else {
            f["subs"]
                .split(',')
                .map(|x| {
                    let (a, b) = x.split_once(':').unwrap();
                    (arr32(&unhex(a)), unhex(b))
                })
                .collect()
        },
        deps: if f["deps"] == "." {
            vec![]
        } else {
            f["deps"]
                .split(',')
                .map(|x| {
                    let (a, b) = x.split_once(':').unwrap();
                    (arr32(&unhex(a)), if b == "." { vec![] } else { b.split('/').map(unhex).collect() })
                })
                .collect()
        },
        r1: arr32(&unhex(f["r1"])),
        r2: arr32(&unhex(f["r2"])),
        uch: if f["uch"] == "." { vec![] } else { f["uch"].split(',').map(|x| arr32(&unhex(x))).collect() },
        eci: if f["eci"] == "~" { None } else { Some(unhex(f["eci"])) },
        utx: if f["utx"] == "." { vec![] } else { f["utx"].split(',').map(unhex).collect() },
    }
}

/// The commitments an honest proposer places into `block.data` — computed with astria-core's own
/// grouping and tree functions (the same ones `generate_rollup_datas_commitment` uses).
pub fn honest_roots(subs: &[([u8; 32], Vec<u8>)], deps: &[([u8; 32], Vec<Vec<u8>>)]) -> ([u8; 32], [u8; 32]) {
    let subs_b: Vec<(RollupId, Bytes)> = subs.iter().map(|(i, d)| (RollupId::new(*i), Bytes::from(d.clone()))).collect();
    let mut map = astria_core::protocol::group_rollup_data_submissions_by_rollup_id(subs_b.iter().map(|(i, d)| (i, d)));
    for (id, ds) in deps {
        map.entry(RollupId::new(*id)).or_default().extend(ds.iter().map(|d| Bytes::from(d.clone())));
    }
    map.sort_unstable_keys();
    let ids_root = merkle::Tree::from_leaves(map.keys()).root();
    let txs_root = astria_core::primitive::v1::derive_merkle_tree_from_rollup_txs(&map).root();
    (txs_root, ids_root)
}

pub fn decode_deposit(enc: &[u8]) -> Deposit {
    let raw = raw::RollupData::decode(enc).expect("spec deposits are valid RollupData");
    match RollupData::try_from_raw(raw).expect("spec deposits are valid") {
        RollupData::Deposit(d) => *d,
        _ => panic!("spec deposit is not a deposit"),
    }
}

pub fn build(s: &Spec) -> Result<SequencerBlock, String> {
    let mut data: Vec<Bytes> = vec![
        DataItem::RollupTransactionsRoot(s.r1).encode(),
        DataItem::RollupIdsRoot(s.r2).encode(),
    ];
    if !s.uch.is_empty() {
        let hashes = s.uch.iter().map(|h| astria_core::upgrades::v1::ChangeHash::new(*h)).collect();
        data.push(DataItem::UpgradeChangeHashes(hashes).encode());
    }
    if let Some(e) = &s.eci {
        data.push(DataItem::ExtendedCommitInfo(Bytes::from(e.clone())).encode());
    }
    data.extend(s.utx.iter().map(|t| Bytes::from(t.clone())));
    let expanded = ExpandedBlockData::new_from_typed_data(&data, s.eci.is_some()).map_err(|e| err_kind(&format!("{e:?}")))?;
    let mut deposits: HashMap<RollupId, Vec<Deposit>> = HashMap::new();
    for (id, ds) in &s.deps {
        deposits.insert(RollupId::new(*id), ds.iter().map(|d| decode_deposit(d)).collect());
    }
    SequencerBlockBuilder {
        block_hash: block::Hash::new(s.bh),
        chain_id: s.chain.clone().try_into().unwrap(),
        height: s.height.into(),
        time: tendermint::Time::from_unix_timestamp(s.secs, s.nanos).unwrap(),
        proposer_address: tendermint::account::Id::new(s.proposer),
        expanded_block_data: expanded,
        rollup_data_bytes: s.subs.iter().map(|(i, d)| (RollupId::new(*i), Bytes::from(d.clone()))).collect(),
        deposits,
    }
    .try_build()
    .map_err(|e| err_kind(&format!("{e:?}")))
}


// ------------------------------------------------------------------------------------------
// generation of block contents
// ------------------------------------------------------------------------------------------

pub fn flip(b: &Bytes, at: usize) -> Bytes {
    let mut v = b.to_vec();
    if v.is_empty() {
        v.push(0x01);
    } else {
        let i = at % v.len();
        v[i] ^= 0x01;
    }
    v.into()
}

pub fn mk_id(tag: u8, style: u8) -> [u8; 32] {
    let mut id = [0u8; 32];
    match style {
        0 => id = [tag; 32],
        1 => {
            // differ only in the last byte
            id = [0xab; 32];
            id[31] = tag;
        }
        2 => {
            // differ only in the first byte
            id = [0x11; 32];
            id[0] = tag;
        }
        _ => {
            for (i, b) in id.iter_mut().enumerate() {
                *b = tag.wrapping_mul(31).wrapping_add((i as u8).wrapping_mul(tag | 1));
            }
        }
    }
    id
}

pub fn mk_deposit(rng: &mut Rng, id: [u8; 32]) -> Vec<u8> {
    let d = Deposit {
        bridge_address: Address::builder().array([rng.next() as u8; 20]).prefix("astria").try_build().unwrap(),
        rollup_id: RollupId::new(id),
        amount: u128::from(rng.next()) * u128::from(rng.below(3)),
        asset: "nria".parse().unwrap(),
        destination_chain_address: {
            let l = rng.below(6) as usize;
            format!("0x{}", hex(&rng.bytes(l)))
        },
        source_transaction_id: TransactionId::new(arr32(&rng.bytes(32))),
        source_action_index: rng.below(5),
    };
    RollupData::Deposit(Box::new(d)).into_raw().encode_to_vec()
}

pub fn valid_eci(rng: &mut Rng) -> Vec<u8> {
    use astria_core::protocol::price_feed::v1::ExtendedCommitInfoWithCurrencyPairMapping;
    let info = ExtendedCommitInfoWithCurrencyPairMapping {
        extended_commit_info: tendermint::abci::types::ExtendedCommitInfo {
            round: (rng.below(4) as u16).into(),
            votes: vec![],
        },
        id_to_currency_pair: indexmap::IndexMap::new(),
    };
    info.into_raw().encode_to_vec()
}

pub fn payload(rng: &mut Rng) -> Vec<u8> {
    let len = *rng.pick(&[0usize, 0, 1, 1, 2, 3, 5, 31, 32, 33, 64, 127, 128, 129, 200]);
    match rng.below(4) {
        0 => vec![0u8; len],
        1 => vec![0xffu8; len],
        _ => rng.bytes(len),
    }
}

pub fn gen_spec(rng: &mut Rng, n: u64, height: u32) -> Spec {
    let style = rng.below(4) as u8;
    let nroll = if rng.chance(10) { 0 } else { rng.range(1, if common::is_thorough() { 8 } else { 5 }) };
    let mut tags: Vec<u8> = vec![];
    while (tags.len() as u64) < nroll {
        let t = rng.range(1, 250) as u8;
        if !tags.contains(&t) {
            tags.push(t);
        }
    }
    let ids: Vec<[u8; 32]> = tags.iter().map(|t| mk_id(*t, style)).collect();
    let mut subs = vec![];
    let mut deps: Vec<([u8; 32], Vec<Vec<u8>>)> = vec![];
    if !ids.is_empty() {
        // which rollups have sequenced data, which deposits, which both
        let mut kinds: Vec<u8> = ids.iter().map(|_| rng.below(3) as u8).collect(); // 0 seq, 1 dep, 2 both
        if !kinds.iter().any(|k| *k != 1) && rng.chance(50) {
            kinds[0] = 0;
        }
        let nsub = rng.range(0, 9);
        let seq_ids: Vec<[u8; 32]> = ids.iter().zip(&kinds).filter(|(_, k)| **k != 1).map(|(i, _)| *i).collect();
        let mut last: Option<Vec<u8>> = None;
        for _ in 0..nsub {
            if seq_ids.is_empty() {
                break;
            }
            let id = *rng.pick(&seq_ids);
            let p = match (&last, rng.chance(25)) {
                (Some(l), true) => l.clone(), // duplicate payload
                _ => payload(rng),
            };
            last = Some(p.clone());
            subs.push((id, p));
        }
        // every "seq"/"both" rollup gets at least one submission
        for (id, k) in ids.iter().zip(&kinds) {
            if *k != 1 && !subs.iter().any(|(i, _)| i == id) {
                let at = rng.below(subs.len() as u64 + 1) as usize;
                subs.insert(at, (*id, payload(rng)));
            }
        }
        for (id, k) in ids.iter().zip(&kinds) {
            if *k != 0 {
                let nd = if rng.chance(4) { 0 } else { rng.range(1, 3) };
                let mut ds: Vec<Vec<u8>> = (0..nd).map(|_| mk_deposit(rng, *id)).collect();
                if nd >= 2 && rng.chance(20) {
                    ds[1] = ds[0].clone(); // duplicate deposit
                }
                deps.push((*id, ds));
            }
        }
        // the map's iteration order is arbitrary
        if rng.chance(50) {
            deps.reverse();
        }
    }
    let (r1, r2) = honest_roots(&subs, &deps);
    let mut bh = [0u8; 32];
    bh[..8].copy_from_slice(&n.to_be_bytes());
    bh[31] = 0x77;
    Spec {
        bh,
        chain: "verif-chain".to_string(),
        height,
        secs: 1_700_000_000 + n as i64,
        nanos: (n as u32 * 7) % 1_000_000_000,
        proposer: [0x42; 20],
        subs,
        deps,
        r1,
        r2,
        uch: if rng.chance(15) { vec![arr32(&rng.bytes(32))] } else { vec![] },
        eci: if rng.chance(40) { Some(valid_eci(rng)) } else { None },
        utx: (0..rng.below(4)).map(|_| {
            let l = rng.range(40, 90) as usize;
            let mut v = rng.bytes(l);
            v[0] = 0xff;
            v
        }).collect(),
    }
}

