TEXT = {
    "C08": {
        "text": "Lean 4 theorems (all inputs, all hash functions): decoding any raw proof and verifying any decoded proof never panics, "
                "verification is sound in collision-extractor form, a changed root is rejected, the index walk terminates within 64 steps. "
                "The model is hand-written; every run executes the real crate (including its private index functions) on exhaustive small "
                "and sampled large inputs and diffs each result with the model, and checks root/audit path against the RFC 6962 "
                "specification functions. Right level because the property quantifies over all sizes/inputs, which only a theorem closes.",
        "design_ref": "DESIGN.md §6 C08",
        "note": "Trusted: Lean kernel (+propext, Classical.choice, Quot.sound), the hand-written model, harness and driver, sha2. "
                "RFC-path completeness and acceptance of RFC paths by the crate's index walk are proved; that Tree::push builds the RFC root is checked by evaluation per generated tree.",
        "technique": "Lean 4 proof (induction over audit path / index levels) + differential correspondence with the Rust crate",
    },
    "C09": {
        "text": "Lean 4 theorem for every validator set, commit and signature oracle: ensure_commit_has_quorum accepts only if a duplicate-free "
                "list of validators of the set, each with a signature that verifies under its own key, holds strictly more than 2/3 of the total "
                "power (threshold exactness by omega), and metadata is kept only if chain id and block hash equal the commit's. Every run drives "
                "the real function with real ed25519 signatures over generated validator sets / commits and verify_metadata over all mismatch "
                "combinations, diffs each verdict (incl. error kind) with the model and evaluates the spec on the implementation's verdicts.",
        "design_ref": "DESIGN.md §6 C09",
        "note": "Trusted: Lean kernel, hand-written model, harness/driver, ed25519 and tendermint types. Three genuine defects were found and "
                "repaired (fix: 71ea661, c1a8dd4). RPC transport not modelled.",
        "technique": "Lean 4 proof (induction over the vote list; omega for thresholds) + differential correspondence with the Rust code",
    },
    "C15": {
        "text": "Lean 4 theorems: validate_proposal accepts a non-empty extended commit only if it matches the last commit entry-wise, voters are "
                "distinct, every commit vote is validly signed under the stored key of its validator, and signers hold > 2/3 of listed power; an "
                "empty extended commit is always accepted; the median of any non-empty price list lies between two reported prices. Every run "
                "executes the real median on generated price vectors and diffs with the model.",
        "design_ref": "DESIGN.md §6 C15",
        "note": "Trusted: Lean kernel, hand-written model, harness/driver, ed25519. One genuine defect repaired (fix: 933c6c9).",
        "technique": "Lean 4 proof (induction over vote lists, sortedness invariant for the median) + differential correspondence",
    },
    "C16": {
        "text": "Lean 4 invariant proved by induction over every sequence of push / finished-pop / pop_now, every maximum and capacity: "
                "emitted ++ finished ++ current bundles flatten to exactly the accepted actions in order, every bundle's size is the sum of "
                "its actions and <= max, refusal iff (too large, or does not fit and queue full) and refusal is a no-op. Every run drives the "
                "real BundleFactory with generated sequences and diffs its complete private state with the model after each op, and evaluates "
                "the same invariant on the implementation's own states.",
        "design_ref": "DESIGN.md §6 C16",
        "note": "Trusted: Lean kernel, hand-written model, harness/driver, prost encoded_len. Executor select-loop glue not modelled.",
        "technique": "Lean 4 proof (invariant by induction over operations) + differential correspondence on state dumps",
    },
}
NOT_APPLICABLE = {}
