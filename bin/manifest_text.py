TEXT = {
    "C08": {
        "text": "Lean 4 theorems (all inputs, all hash functions): decoding any raw proof and verifying any decoded proof never panics, "
                "verification is sound in collision-extractor form, a changed root is rejected, the index walk terminates within 64 steps. "
                "The model is hand-written; every run executes the real crate (including its private index functions) on exhaustive small "
                "and sampled large inputs and diffs each result with the model, and checks root/audit path against the RFC 6962 "
                "specification functions. Right level because the property quantifies over all sizes/inputs, which only a theorem closes.",
        "design_ref": "DESIGN.md §6 C08",
        "note": "Trusted: Lean kernel (+propext, Classical.choice, Quot.sound), the hand-written model, harness and driver, sha2. "
                "flat-tree root = RFC 6962 MTH is checked by evaluation per generated tree, not yet by a closed proof.",
        "technique": "Lean 4 proof (induction over audit path / index levels) + differential correspondence with the Rust crate",
    },
}
NOT_APPLICABLE = {}
