"""Per-property configuration of bin/check: which Lean modules carry the proof obligations,
which theorems are the property theorems (audited with #print axioms), which in-crate
harnesses produce the implementation traces and which monitors decide the property."""

KERNEL = "Lean 4.33.0 kernel; axioms allowed in #print axioms: propext, Classical.choice, Quot.sound"

HARNESSES = {
    # name -> cargo package, test path of the driver inside the crate's lib test binary
    "merkle": {"crate": "astria-merkle", "test": "verif::driver"},
}

PROPS = {
    "C08": {
        "level": "proof",
        "lean_modules": ["Astria.Merkle.Model", "Astria.Merkle.Theorems", "Astria.Merkle.Index", "Astria.Properties"],
        "theorems": ["Astria.C08_decode_total", "Astria.C08_verify_total", "Astria.C08_proof_sound",
                     "Astria.C08_root_change", "Astria.C08_walk_terminates", "Astria.C08_original_counterexamples"],
        "harnesses": ["merkle"],
        "monitors": ["decode_verify_total", "tree_total", "mutation_rejected", "root_is_rfc6962"],
        "scope_regex": r"^merkle ",
        "nontrivial_regex": r"^merkle (tree|proof verify|proof verifymut) .* => (?!err:|none|panic)",
        "rule": "in-crate harness on the real astria-merkle: exhaustive tree sizes 0..33 (thorough 0..64) x every leaf index, "
                "sampled sizes up to 700 (thorough up to 2^16), private index functions exhaustively for small indices plus random 64-bit, "
                "every single-bit mutation class of leaf/root/each path element, truncated and extended paths, and decodable "
                "(path length, leaf index, tree size) triples around every power-of-two / usize boundary; each line is replayed through "
                "the Lean model with a Lean SHA-256. non-trivial = a tree/proof/verify line that reached hashing (not an error/none result); "
                "distinct = distinct trace lines",
        "trusted_base": [KERNEL, "hand-written model Astria/Merkle/Model.lean tied to crates/astria-merkle by the correspondence run of this check",
                         "harness /verif/harness/merkle/mod.rs + Lean driver (line protocol, Lean SHA-256 checked against sha2 on every tree line)",
                         "sha2 crate (SHA-256) — hash functions are parameters of every theorem"],
        "assumptions": ["flat-array root = RFC 6962 MTH and construct_proof = RFC audit path are checked by evaluation on every generated tree "
                        "(monitor root_is_rfc6962), not yet by a closed refinement proof (DESIGN §6 C08, flat_eq_rfc staged)",
                        "soundness is in extractor form: a verified mutation yields an explicit SHA-256 collision; no collision-freedom axiom"],
        "explanation": "theorems: decode/verify total for every raw proof and hash function, extractor soundness, termination of the index walk; "
                       "correspondence: model = code on every generated line",
    },
}
