"""Per-property configuration of bin/check: which Lean modules carry the proof obligations,
which theorems are the property theorems (audited with #print axioms), which in-crate
harnesses produce the implementation traces and which monitors decide the property."""

KERNEL = "Lean 4.33.0 kernel; axioms allowed in #print axioms: propext, Classical.choice, Quot.sound"

HARNESSES = {
    # name -> cargo package, test path of the driver inside the crate's lib test binary
    "merkle": {"crate": "astria-merkle", "test": "verif::driver"},
    "composer": {"crate": "astria-composer", "test": "executor::bundle_factory::verif::driver"},
    "core": {"crate": "astria-core", "test": "oracles::price_feed::utils::verif::driver"},
    "quorum": {"crate": "astria-conductor", "test": "celestia::verify::verif::driver"},
    "ve": {"crate": "astria-sequencer", "features": "verif-ve", "test": "app::vote_extension::verif::driver"},
}

PROPS = {
    "C08": {
        "level": "proof",
        "lean_modules": ["Astria.Merkle.Model", "Astria.Merkle.Theorems", "Astria.Merkle.Index", "Astria.Properties",
                         "Astria.Block.Rfc", "Astria.Block.FlatComplete", "Astria.Properties.C08"],
        "theorems": ["Astria.C08_decode_total", "Astria.C08_verify_total", "Astria.C08_proof_sound",
                     "Astria.C08_root_change", "Astria.C08_walk_terminates", "Astria.C08_original_counterexamples",
                     "Astria.C08_rfc_proof_complete", "Astria.C08_index_walk_accepts_rfc_paths", "Astria.C08_root_binds_leaves"],
        "harnesses": ["merkle"],
        "monitors": ["decode_verify_total", "tree_total", "mutation_rejected", "root_is_rfc6962"],
        "scope_regex": r"^merkle ",
        "nontrivial_regex": r"^merkle (tree|proof verify|proof verifymut) .* => (?!err:|none|panic)",
        "rule": "in-crate harness on the real astria-merkle: exhaustive tree sizes 0..33 (thorough 0..64) x every leaf index, "
                "sampled sizes up to 700 (thorough up to 2^16), private index functions exhaustively for small indices plus random 64-bit, "
                "every single-bit mutation class of leaf/root/each path element, truncated and extended paths, and decodable "
                "(path length, leaf index, tree size) triples around every power-of-two / usize boundary; each line is replayed through "
                "the Lean model with a Lean SHA-256. non-trivial = a tree/proof/verify line that reached hashing (not an error/none result); "
                "distinct = distinct trace lines",
        "trusted_base": [KERNEL, "hand-written model Astria/Merkle/Model.lean tied to crates/astria-merkle by the correspondence run of this check",
                         "harness /verif/harness/merkle/mod.rs + Lean driver (line protocol, Lean SHA-256 checked against sha2 on every tree line)",
                         "sha2 crate (SHA-256) — hash functions are parameters of every theorem"],
        "assumptions": ["verification side of the refinement is proved (C08_index_walk_accepts_rfc_paths: the crate's index walk on the RFC audit path "
                        "yields the RFC tree hash); the construction side (Tree::push / construct_proof produce the RFC root and path) is checked by "
                        "evaluation on every generated tree (monitor root_is_rfc6962), not by a theorem",
                        "soundness is in extractor form: a verified mutation yields an explicit SHA-256 collision; no collision-freedom axiom"],
        "explanation": "theorems: decode/verify total for every raw proof and hash function, extractor soundness, termination of the index walk; "
                       "correspondence: model = code on every generated line",
    },
    "C09": {
        "level": "proof",
        "lean_modules": ["Astria.Quorum.Model", "Astria.Quorum.Theorems", "Astria.Properties"],
        "search_seeds": 1,
        "theorems": ["Astria.C09_quorum_exact", "Astria.C09_accept_sound", "Astria.C09_metadata_bound",
                     "Astria.C09_original_counterexamples"],
        "harnesses": ["quorum", "block"],
        "monitors": ["quorum_sound", "metadata_bound", "receiver_block_bound", "receiver_attribution", "receiver_bound",
                     "receiver_data_exact", "no_panic"],
        "scope_regex": r"^(quorum (check|meta|fetchmeta)|block celestia) ",
        "nontrivial_regex": r"^quorum (check .* => (ok|err:(no-quorum|duplicate-vote|bad-signature|exceeds-total))|meta |fetchmeta )|^block celestia ",
        "rule": "(1) in-crate harness (child module of celestia::verify) calls the real ensure_commit_has_quorum with real ed25519 keys and "
                "tendermint types: every k-of-n for n<=9 equal validators, one-big-validator sets around the 2/3 boundary for totals in every "
                "residue mod 3 (incl. 2^40+r), 700 (thorough 20000) generated commits over 1..8 validators with powers from "
                "{1,2,3,5,10,2^31,2^61,2^62,2^62+7}, honest subsets / forged, foreign-key, wrong-block, missing signatures / unknown validators / "
                "duplicated CommitSigs / repeated keys in the set / height mismatch; and BlobVerifier::verify_metadata against a cached commit "
                "for all four (chain id equal?, hash equal?) combinations; and 60 (thorough 600) metadata verifications end to end through the real "
                "VerificationMeta::fetch with commit and validator set served by an in-process wiremock sequencer RPC. (2) the `block celestia` lines of the block harness (harness/conductor/blobs.rs, "
                "shared with C07): the full conductor pipeline decode -> verify_metadata (mocked sequencer RPC with real signed commits) -> "
                "reconstruct_blocks_from_verified_blobs on honest blobs and on every single-element tampering (payload, proof, rollup id, block hash, "
                "foreign rollup's blob, undecodable blobs), checking that only audited blobs of the conductor's own rollup are attached and that "
                "junk is ignored without a panic. non-trivial = reached the tally (ok, no-quorum, duplicate, bad "
                "signature) or a metadata decision; distinct = distinct trace lines",
        "trusted_base": [KERNEL, "hand-written model Astria/Quorum/Model.lean tied to block_verifier.rs / verify.rs by the correspondence run",
                         "harness /verif/harness/conductor/celestia.rs + Lean driver; ed25519 (astria-core-crypto) — sigOk is a parameter of every theorem",
                         "tendermint / tendermint-rpc types, moka cache"],
        "assumptions": ["the RPC transport, rate limiter and retry loop in front of VerificationMeta::fetch are exercised (wiremock) but not modelled",
                        "the rollup-blob Merkle binding theorems are C07's (tamper evidence in extractor form); this check re-uses that harness' conductor lines"],
        "explanation": "theorem: acceptance implies distinct validly-signing validators with > 2/3 of total power, for every signature oracle; "
                       "correspondence on every generated commit; monitors recompute the spec from the op alone",
    },
    "C15": {
        "level": "proof",
        "lean_modules": ["Astria.Quorum.Model", "Astria.Quorum.Theorems", "Astria.Quorum.Median", "Astria.Properties"],
        "theorems": ["Astria.C15_threshold", "Astria.C15_accept_sound", "Astria.C15_empty_ok", "Astria.C15_median_in_range", "Astria.C15_observation_admitted_price_not_decodable", "Astria.C15_price_length_consistent_iff",
                     "Astria.C15_original_counterexample"],
        "harnesses": ["core", "ve"],
        "monitors": ["median_in_range", "ve_accept_sound", "ve_empty_ok"],
        "scope_regex": r"^(core median|quorum proposal|quorum pricelen) ",
        "nontrivial_regex": r"^(core median \S*,|quorum proposal .* => (ok|err:(insufficient|bad-signature|voted-twice|flag-mismatch)))",
        "rule": "in-crate harness on astria-core's private median: all lists of length <=2 (thorough <=4) over -4..4, 4000 (thorough 100000) "
                "generated price vectors of length 1..9 incl. negative, odd, i128::MIN/MAX-adjacent values; and an in-crate harness (child "
                "module of app::vote_extension) on the real ProposalHandler::validate_proposal with real ed25519 keys: every j-of-k for k<=7 equal "
                "validators (2/3 boundary), 1500 (thorough 20000) generated (validator set, last commit, extended commit) triples over 1..6 "
                "validators with powers from {1,2,3,5,10,2^31,2^62,2^63-1}, honest or with one adversarial edit (missing / garbage / wrong-height / "
                "foreign-key signature, repeated voter, flipped flag, changed power, swapped / dropped / pruned votes, extension or signature on "
                "a non-commit vote, round mismatch, empty extended commit, height 1, unknown validator, validators going absent); plus price byte "
                "lengths 0..40, 64, 255, 256, 1000 through verify_vote_extension and calculate_prices_from_vote_extensions (pricelen lines). non-trivial = "
                "a list with at least two prices, or a proposal that reached the signature/threshold checks; distinct = distinct trace lines",
        "trusted_base": [KERNEL, "hand-written model Astria/Quorum/Model.lean (median, validate_proposal) tied to the code by the correspondence run",
                         "harness /verif/harness/core/mod.rs, /verif/harness/sequencer/vote_extension.rs + Lean driver", "ed25519 — sigOk is a parameter",
                         "the currency-pair-id mapping check that follows the quorum checks in validate_proposal is exercised only with empty price maps"],
        "assumptions": ["i128 overflow cannot occur in median (halves are added); the model uses unbounded Int",
                        "aggregation across validators (aggregate_oracle_votes) groups prices per pair id before the median; modelled as the list handed to median"],
        "explanation": "theorems: threshold arithmetic, acceptance soundness of validate_proposal for every signature oracle, median within range for every list",
    },
    "C16": {
        "level": "proof",
        "lean_modules": ["Astria.Composer.Model", "Astria.Composer.Theorems", "Astria.Properties"],
        "theorems": ["Astria.C16_exactly_once_in_order_within_limit", "Astria.C16_refusal"],
        "harnesses": ["composer"],
        "monitors": ["exactly_once_in_order", "size_bound", "refusal_iff", "refusal_is_noop", "dump_parse"],
        "scope_regex": r"^composer ",
        "nontrivial_regex": r"^composer (push \d+ \d+ \d+ => ok|popfin => \[|popnow => \[\d)",
        "rule": "in-crate harness on the real BundleFactory (child module of executor::bundle_factory, reads the private fields): "
                "sessions with max around the per-action overhead up to 1200 bytes, queue capacity 0..3 (every 7th 4..64), 5..60 ops "
                "(thorough 10..120) of push (sizes at max, max±1, max/2, max/3, 2·max, random) / finished-pop / pop_now; after every op the "
                "full factory state is dumped and diffed with the Lean model's state. non-trivial = an accepted push or a non-empty "
                "emitted bundle; distinct = distinct trace lines (ids are unique per run)",
        "trusted_base": [KERNEL, "hand-written model Astria/Composer/Model.lean tied to bundle_factory/mod.rs by the correspondence run",
                         "harness /verif/harness/composer/mod.rs + Lean driver; prost encoded_len as the size measure (recomputed independently by the harness)"],
        "assumptions": ["sizes are far below usize::MAX (saturating_add = +)",
                        "the bundle size that is bounded is the sum of the actions' encoded lengths, as the crate defines it "
                        "(the enclosing transaction's framing is not counted by the code nor the model)",
                        "executor glue (select loop calling try_push/pop_now) is not modelled"],
        "explanation": "invariant by induction over all op sequences; correspondence on full state dumps",
    },
}


# Fragments: bin/props.d/<area>.py may define HARNESSES, PROPS and TEXT (manifest wording) dicts.
TEXT_FRAGMENTS = {}
NOT_APPLICABLE_FRAGMENTS = {}
KNOWN_FINDINGS_FRAGMENTS = []


def _load_fragments():
    import glob
    import os
    here = os.path.dirname(os.path.abspath(__file__))
    for f in sorted(glob.glob(os.path.join(here, "props.d", "*.py"))):
        ns = {"KERNEL": KERNEL}
        exec(compile(open(f).read(), f, "exec"), ns)
        HARNESSES.update(ns.get("HARNESSES", {}))
        PROPS.update(ns.get("PROPS", {}))
        TEXT_FRAGMENTS.update(ns.get("TEXT", {}))
        NOT_APPLICABLE_FRAGMENTS.update(ns.get("NOT_APPLICABLE", {}))
        KNOWN_FINDINGS_FRAGMENTS.extend(ns.get("KNOWN_FINDINGS", []))


_load_fragments()
