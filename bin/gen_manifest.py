#!/usr/bin/env python3
"""Regenerates /verif/MANIFEST.json from bin/props.py (so the two never drift)."""
import json, os, subprocess, sys
VERIF = os.path.dirname(os.path.dirname(os.path.abspath(__file__)))
sys.path.insert(0, os.path.join(VERIF, "bin"))
from props import PROPS, HARNESSES, TEXT_FRAGMENTS, NOT_APPLICABLE_FRAGMENTS
from manifest_text import TEXT, NOT_APPLICABLE
TEXT.update(TEXT_FRAGMENTS)
NOT_APPLICABLE.update(NOT_APPLICABLE_FRAGMENTS)

hook_commits = subprocess.run(["git", "-C", "/repo", "log", "--format=%h %s"], capture_output=True, text=True).stdout.splitlines()
EXTRA = {"826eff4"}  # conductor hook (committed by the round driver under a generic message)
hook_commits = [l.split(" ")[0] for l in hook_commits if l.split(" ", 1)[1].startswith("verif hook") or l.split(" ")[0] in EXTRA]

CLAIMED = [l.strip() for l in open(os.path.join(VERIF, 'bin', 'claimed.txt')) if l.strip() and not l.startswith('#')]
PROPS = {k: v for k, v in PROPS.items() if k in CLAIMED}
checks = []
for pid in sorted(PROPS):
    P = PROPS[pid]
    T = TEXT[pid]
    checks.append({
        "property_id": pid,
        "quick_cmd": f"bin/check {pid} quick",
        "thorough_cmd": f"bin/check {pid} thorough",
        "evidence_file": f"/verif/evidence/{pid}.json",
        "replay_cmd_template": f"bin/check {pid} --replay {{path}}",
        "engine": "lean4-proof+correspondence",
        "level_claimed": {"category": P["level"], "text": T["text"], "design_ref": T["design_ref"]},
        "level_note": T["note"],
        "technique": T["technique"],
    })
all_ids = [json.loads(l)["id"] for l in open(os.path.join(VERIF, "properties.jsonl"))]
na = [{"property_id": i, "reason": NOT_APPLICABLE.get(i, "not claimed yet: model and harness for this property are not built in the committed state")} for i in all_ids if i not in PROPS]
m = {
    "version": 1,
    "setup_cmd": "cd /verif/lean && lake build " + " ".join(sorted({m for P in PROPS.values() for m in P["lean_modules"]}) + sorted({HARNESSES[h].get("driver", "astria-driver") for P in PROPS.values() for h in P["harnesses"]})),
    "hooks": {
        "guard": "cargo features `verif` (astria-merkle, astria-core, astria-composer, astria-conductor) and one feature per harness `verif-ledger`, `verif-abci`, `verif-ve`, `verif-mempool`, `verif-grpc` (astria-sequencer), `verif-batch`, `verif-crash` (astria-sequencer-relayer), `verif-executor`, `verif-blobs` (astria-conductor), each together with cfg(test); all off by default",
        "enable": "cargo test --offline -p <crate> --features <feature> --lib --no-run, then the test binary is run with `<module>::driver --exact` (bin/check does this; table of crate / feature / module / harness file in docs/SLICE_GUIDE.md); each hook is one line `#[cfg(all(test, feature = \"<feature>\"))] #[path = \"/verif/harness/<crate>/<file>.rs\"] mod <name>;` plus the feature in the crate's Cargo.toml",
        "baseline_off_cmd": "cd /repo && cargo nextest run --workspace --no-fail-fast --test-threads 8 --offline",
        "source_commits": hook_commits,
        "add_only": True,
    },
    "engines": [{
        "name": "lean4-proof+correspondence", "path": "/verif/lean + /verif/harness + /verif/bin/check",
        "serves_properties": sorted(PROPS),
        "kind_free_text": "Lean 4 theorems about hand-written executable models; on every run an in-crate Rust harness (feature verif) executes the real code on generated operations and the compiled Lean driver replays the trace through the model (correspondence) and evaluates the theorem's decidable spec on the implementation's results (monitors)",
    }],
    "checks": checks,
    "not_applicable": na,
    "notes": "See DESIGN.md. Genuine defects found are recorded in known_findings.json (fixed ones carry the /repo commit).",
}
json.dump(m, open(os.path.join(VERIF, "MANIFEST.json"), "w"), indent=1)
print("wrote MANIFEST.json with", len(checks), "checks;", len(na), "not claimed")
