# Check configuration of area `abci` (C05, C06).  Loaded by bin/props.py (KERNEL is predefined).

HARNESSES = {
    "abci": {"crate": "astria-sequencer", "features": "verif-abci", "test": "app::verif_abci::driver",
             "driver": "driver-abci", "timeout": 5400},
}

_ABCI_TRUSTED = [
    KERNEL,
    "hand-written model Astria/Abci/Model.lean (execution-state machine, prepare/process/finalize/commit control flow, the three "
    "execution loops, BlockSizeConstraints, typed data-item order) tied to crates/astria-sequencer/src/app/{mod,execution_state}.rs "
    "and proposal/block_size_constraints.rs by the correspondence run of this check",
    "harness /verif/harness/sequencer/abci.rs (child module of `app`: real App instances on TempStorage, real ed25519-signed "
    "transactions and vote extensions) + Lean driver Driver/AbciArea.lean; the phases a call executed are observed through a "
    "thread-local tracing subscriber that records the spans of the code's own #[instrument] attributes",
    "opaque in the model and exercised only through the real code: transaction execution (C01-C04), vote-extension validation (C15), "
    "commitment generation (C07), cnidarium (snapshot / delta / JMT root), tendermint types, prost",
]

PROPS = {
    "C05": {
        "level": "proof",
        "lean_modules": ["Astria.Abci.Model", "Astria.Abci.Theorems", "Astria.Abci.Examples", "Astria.Properties.C05"],
        "theorems": ["Astria.C05_fingerprint_sound", "Astria.C05_process_agrees_with_finalize",
                     "Astria.C05_path_independence_partial", "Astria.C05_no_split_failure_partial",
                     "Astria.C05_prepare_coherent_of_constructible",
                     "Astria.C05_path_dependence_counterexample", "Astria.C05_prepare_incoherence_counterexample"],
        "harnesses": ["abci"],
        "monitors": ["path_independence"],
        "scope_regex": r"^abci (reset|restart|prepare|process|finalize|commit|variant) ",
        "nontrivial_regex": r"^abci (finalize|commit) .* => ok ",
        "rule": "in-crate harness: 5 independent App instances (own TempStorage, same genesis; Aspen at height 1, Blackburn at height 3, 5, 7 or 9 "
                "depending on the session, so that an upgrade activation height with its UpgradeChangeHashes item and consensus-param update is "
                "executed under every call path) are fed the same "
                "generated multi-block history (quick: 3 sessions x 10 heights, thorough: 12 x 30) by different legal call orders per height: "
                "1-3 rounds with PrepareProposal on a random proposer from a random mempool subset and a random max_tx_bytes, foreign "
                "proposals processed (or not) in undecided rounds, variants of a proposal differing in one fingerprint field, mutated "
                "(rejected) proposals, the decided block processed once / twice / not at all (syncing), restart before or after "
                "ProcessProposal, proposer skipping ProcessProposal; blocks mix transfers, rollup data (0..60 kB), validator updates, bridge "
                "init + locks (deposits), fee / fee-asset / currency-pair / relayer / sudo changes, failing IBC relays (non-fatal), fatally "
                "failing transfers, and signed oracle vote extensions (absent, partial, badly signed, full). Every call line carries the "
                "result, the execution-state fingerprint and the observed phase order; FinalizeBlock lines carry app hash, tx codes, "
                "validator / consensus-param updates, events; Commit lines a digest of the complete verifiable and non-verifiable stores. "
                "Each line is replayed through Astria.Abci.step. non-trivial = a successful FinalizeBlock or Commit line (state changed); "
                "distinct = distinct trace lines",
        "trusted_base": _ABCI_TRUSTED,
        "assumptions": [
            "C05_path_independence_partial is proved under three explicit hypotheses, each about the opaque primitives only: "
            "(1) PricesCommute: applying the oracle prices of the block before [pre_execute; construct; execute; post_execute] gives the same "
            "state, events and result as applying them afterwards (the unchanged code does the former on the uncached path of finalize_block and "
            "the latter on the cached path; C05_path_dependence_counterexample shows the statement is false without it; reproduced on the real "
            "code, open finding F4); (2) PrepareCoherent: what prepare_proposal cached equals a fresh execution of the block it produced "
            "(false for the unchanged code when a later transaction only passes construction after an earlier one of the same block, "
            "C05_prepare_incoherence_counterexample / open finding F11); (3) VeStable: vote_extensions_enabled(h) does not depend on uncommitted writes",
            "block hashes bind block contents (a ProcessProposal with the decided block's hash is the decided block): CometBFT, not the application",
            "the schedule grammar (Prepare? Process* per round, restart anywhere, then Finalize Commit) is the ABCI++ contract; ExtendVote / "
            "VerifyVoteExtension only read the working state and are not modelled",
            "determinism of cnidarium (equal writes => equal root) is trusted; it is observed by the harness (app hash and full state digests "
            "compared across 5 instances at every height) but not proved",
        ],
        "explanation": "theorems over all call schedules for the fingerprint state machine and the skip decisions with abstract phases; "
                       "correspondence of every call's result / fingerprint / phase order with the real App; cross-instance differential monitor",
        "thorough_seeds": 1,
    },
    "C06": {
        "level": "proof",
        "lean_modules": ["Astria.Abci.Model", "Astria.Abci.Theorems", "Astria.Abci.Examples", "Astria.Properties.C06"],
        "theorems": ["Astria.C06_prepare_within_limits", "Astria.C06_prepare_group_order", "Astria.C06_prepare_only_nonfatal",
                     "Astria.C06_prepare_then_process_accepts_partial", "Astria.C06_process_rejects",
                     "Astria.C06_process_accept_sound", "Astria.C06_prepare_process_disagree_counterexample",
                     "Astria.C06_eci_fallback_counterexample"],
        "harnesses": ["abci"],
        "monitors": ["within_limits", "honest_accepted", "mutated_rejected"],
        "scope_regex": r"^abci (prepare|process|mutate) ",
        "nontrivial_regex": r"^abci (prepare .* => ok .* inc=\d|process .* => (accept|reject))",
        "rule": "in-crate harness: generated mempool contents (consecutive nonces per signer, data sizes around the 256 000-byte sequenced-data "
                "limit and the per-proposal byte limit, all four action groups, non-fatally failing IBC relays, fatally failing transfers and their "
                "dependent nonces, transactions forced into the queue with a wrong nonce) -> the REAL prepare_proposal on instance A for a sweep of "
                "max_tx_bytes (unconstrained, exactly the proposal size, one less, injected items only, first tx boundary, 67/68/72, random) -> "
                "the REAL process_proposal on instance B on the same committed state -> 15 single-field mutations of the honest proposal (either "
                "commitment root, swapped / dropped / misplaced data items incl. a dropped upgrade-change-hashes item at an upgrade height, undecodable tx, flipped signature byte, group order violated, "
                "appended fatally failing tx, appended data over the limit; commitments recomputed where the mutation is not about them) processed "
                "on instance C. The builder queue, per-transaction execution outcomes (from the execute_transaction spans) and sizes are replayed "
                "through the Lean prepare / process model. non-trivial = a prepare line including at least one transaction or a process verdict; "
                "distinct = distinct trace lines",
        "trusted_base": _ABCI_TRUSTED,
        "assumptions": [
            "CometBFT's per-transaction protobuf framing overhead is not counted by the code and not by the model (max_tx_bytes is compared with the sum "
            "of the raw item lengths, as block_size_constraints.rs does)",
            "C06_prepare_then_process_accepts_partial needs one proviso forced by the unchanged code: every included transaction is constructible "
            "against the block-start state (fails for dependent transactions: open finding F11; counterexample proved on the as-is model and "
            "reproduced on the real code, corpus/abci.ops). The former second proviso (the extended commit info fits into max_tx_bytes, F12) "
            "was removed after `fix:` commit 259c046; C06_eci_fallback_counterexample is about the pinned behaviour (stepPrepareOriginal) and "
            "also shows that the repaired prepare is accepted",
            "pre-Aspen untyped data (two raw 32-byte roots) is not modelled (all generated heights are post-Aspen); the Blackburn activation height "
            "with its upgrade-change-hashes item is exercised",
            "vote-extension validity, commitment recomputation and transaction execution are oracles of the replay (observed per line), not modelled",
        ],
        "explanation": "theorems for all queues / limits / outcomes about the prepare loop and the process checks; correspondence of every prepare "
                       "and process line; monitors: honest => accepted and within limits, mutated => rejected",
        "thorough_seeds": 1,
    },
}

TEXT = {
    "C05": {
        "text": "Lean 4 model of the ABCI call pipeline with the real ExecutionState machine and abstract execution phases. Theorems for every "
                "call schedule (any rounds of Prepare/Process on own, foreign, accepted or rejected proposals, restarts) ending in "
                "Finalize(b), Commit: the fingerprint checks answer true only when the working state was produced by executing exactly that "
                "proposal / block on the committed state; the FinalizeBlock response and the committed state equal those of a node that only "
                "received FinalizeBlock, and no schedule makes one path fail where another succeeds. The unchanged code applies oracle prices "
                "before the transactions on the uncached path and after them on the cached path, so the full statement is false (counterexample "
                "proved on the model and reproduced on the real App: every validator fails FinalizeBlock, a syncing node succeeds); the proved "
                "theorem states the exact commutation hypothesis. Every run feeds generated multi-block histories to 5 real App instances through "
                "different legal call orders, replays each call through the model and compares app hash, tx results, validator updates and a "
                "digest of the whole store across instances.",
        "design_ref": "DESIGN.md §6 C05",
        "note": "Trusted: Lean kernel, hand-written model, harness/driver, cnidarium determinism. Open findings F4 (price phase order) and "
                "F11 (cached prepare execution vs. block-start construction) are genuine defects of the unchanged code, reported with replays.",
        "technique": "Lean 4 proof (invariant over call schedules, loop inductions) + differential correspondence and cross-instance oracle",
    },
    "C06": {
        "text": "Lean 4 theorems for all builder queues, execution outcomes and max_tx_bytes: a prepared proposal stays within the CometBFT byte "
                "limit and the 256 000-byte sequenced-data limit, is ordered by action group, and contains only transactions that executed "
                "successfully or failed non-fatally; ProcessProposal on the same committed state accepts it (under the one proviso the unchanged "
                "code still forces, with a proved and reproduced counterexample: F11); ProcessProposal accepts only well-formed, constructible, "
                "group-ordered, within-limit proposals whose commitments match, hence rejects every listed mutation class. Every run drives the "
                "real prepare_proposal / process_proposal over generated mempools, a sweep of limits and 15 mutation kinds and replays each line.",
        "design_ref": "DESIGN.md §6 C06",
        "note": "Trusted: Lean kernel, hand-written model, harness/driver. Open finding F11 (dependent transactions rejected by validators) "
                "reported with replay. F12 (empty extended-commit-info fallback was unparseable) was found by this check and repaired (fix: 259c046).",
        "technique": "Lean 4 proof (loop invariants by induction over the queue) + differential correspondence with the Rust code",
    },
}

KNOWN_FINDINGS = [
    {
        "property": "C05", "status": "open", "id": "F4",
        "what": "finalize_block applies oracle prices before the transactions on the uncached path and after them on the cached path: a block "
                "carrying a price for pair P and CurrencyPairsChange::Removal(P) makes FinalizeBlock fail on the proposer and every validator "
                "('currency pair state not found') and succeed on a syncing / restarted node",
        "match": {"monitor": "path_independence", "line_regex": r"tags=prices,pair-removal"},
        "replay": "corpus/abci.ops (first session)",
    },
    {
        "property": "C05", "status": "open", "id": "F11",
        "what": "the proposer finalizes from the execution cached by prepare_proposal (transactions constructed at CheckTx time) while every other "
                "path constructs the block's transactions against the block-start state: a block with IbcRelayerChange::Addition(R) followed by an "
                "earlier-admitted Removal(R) finalizes on the proposer and fails ('is not currently an ibc relayer') on a syncing node",
        "match": {"monitor": "path_independence", "line_regex": r"unconstructible"},
        "replay": "corpus/abci.ops (second session)",
    },
    {
        "property": "C06", "status": "open", "id": "F11",
        "what": "construct_checked_txs in process_proposal evaluates every transaction's mutable checks at block start: an honest proposal whose "
                "later transaction is only valid after an earlier one of the same block is rejected by every validator",
        "match": {"monitor": "honest_accepted", "line_regex": r"tags=unconstructible"},
        "replay": "corpus/abci.ops (second session)",
    },
]
