"""C02, C04, C14: same model / harness / driver as bin/props.d/ledger.py (loaded after it)."""
import os as _os
_ns = {"KERNEL": KERNEL}
exec(compile(open(_os.path.join(_os.path.dirname(_os.path.abspath(__file__ if "__file__" in dir() else "bin/props.d/ledger2.py")), "ledger.py")).read(), "ledger.py", "exec"), _ns)
_RULE = _ns["_LEDGER_RULE"]
_TRUSTED = _ns["_TRUSTED"]
_ASSUME = _ns["_COMMON_ASSUMPTIONS"]
_MODS = ["Astria.Ledger.Model", "Astria.Ledger.Conservation", "Astria.Ledger.Theorems", "Astria.Ledger.Validators",
         "Astria.Ledger.Bridge", "Astria.Ledger.Authority"]

PROPS = {
    "C02": {
        "level": "proof",
        "lean_modules": _MODS + ["Astria.Ledger.Escrow", "Astria.Ledger.Privileged", "Astria.Properties.C02"],
        "theorems": ["Astria.C02_debit_authorised", "Astria.C02_priv_authorised", "Astria.C02_init_bridge_authorised",
                     "Astria.C02_bridge_source_guard", "Astria.C02_priv_change_authorised",
                     "Astria.C02_tx_priv_change_authorised", "Astria.C02_packets_change_no_privileged_state",
                     "Astria.C02_every_step_attributed", "Astria.C02_block_end_applies_pending_updates_only"],
        "harnesses": ["ledger"],
        "monitors": ["debit_authorised", "priv_authorised", "dump_parse"],
        "scope_regex": r"^ledger (tx|ctor|exec) ",
        "nontrivial_regex": r"^ledger (tx|exec) .*=> ok",
        "rule": _RULE + ". non-trivial = a successful transaction (its balance decreases and privileged-state changes are attributed to the signer / pre-state authorities)",
        "trusted_base": _TRUSTED + ["the ed25519 signature check of Transaction::try_from_raw (the signer of a transaction is the address of the verified key) is exercised but not modelled"],
        "assumptions": _ASSUME + [
            "theorem side for privileged state, both directions: a privileged action kind executes only under the signature of the authority in force "
            "(C02_priv_authorised), and whatever executes, a privileged component that differs afterwards implies that the signer held it "
            "(C02_priv_change_authorised per action, C02_tx_priv_change_authorised per transaction, packets change none)"],
        "explanation": "theorems: balance decrease => signer or current withdrawer; privileged action => authority in force; privileged component changed => signer held it; monitors attribute every "
                       "observed decrease / privileged change to the signer and the pre-state authorities",
    },
    "C04": {
        "level": "proof",
        "lean_modules": _MODS + ["Astria.Ledger.Escrow", "Astria.Ledger.Withdrawals", "Astria.Properties.C04"],
        "theorems": ["Astria.C04_deposit_backed", "Astria.C04_deposit_asset", "Astria.C04_recv_deposit_backed", "Astria.C04_refund_deposit_backed", "Astria.C04_no_orphan_deposit",
                     "Astria.C04_withdrawal_once", "Astria.C04_withdrawal_recorded_forever", "Astria.C04_replayed_withdrawal_rejected",
                     "Astria.C04_withdrawal_once_history", "Astria.C04_recorded_withdrawal_never_honoured"],
        "harnesses": ["ledger"],
        "monitors": ["deposit_backed", "withdrawal_once", "recv_all_or_nothing", "failed_tx_no_effect", "dump_parse"],
        "scope_regex": r"^ledger ",
        "nontrivial_regex": r"^ledger (tx|exec|recv|timeout|ack) .*(lock|unlock|btransfer|ics20|dep)",
        "rule": _RULE + ". non-trivial = an op involving a bridge lock / unlock / transfer / ICS20 withdrawal or a deposit",
        "trusted_base": _TRUSTED,
        "assumptions": _ASSUME + ["the stored SequencerBlock's deposits are observed as the cached block deposits at block end (the block builder itself is C07's subject)"],
        "explanation": "theorems: every emitted deposit sits next to an equal credit of the bridge in its asset/rollup; failed tx/packet => no deposit; "
                       "a carrier needs an unrecorded id and records it for ever",
    },
    "C14": {
        "level": "proof",
        "lean_modules": _MODS + ["Astria.Ledger.Escrow", "Astria.Ledger.Privileged", "Astria.Ledger.ValCount", "Astria.Properties.C14"],
        "theorems": ["Astria.C14_count_and_nonempty_history", "Astria.C14_aspen_establishes_count", "Astria.C14_mirror", "Astria.C14_mirror_pre_aspen", "Astria.C14_aspen_migration_preserves", "Astria.C14_accepted_batch_mirrors",
                     "Astria.C14_add_then_remove_counterexample", "Astria.C14_double_removal_counterexample"],
        "harnesses": ["ledger"],
        "monitors": ["validator_mirror", "validator_updates_applicable", "dump_parse"],
        "scope_regex": r"^ledger (tx .*val,|exec|end|reset)",
        "nontrivial_regex": r"^ledger (tx .*val,.* => ok|end => ok vu=[a-z])",
        "rule": _RULE + ". non-trivial = a successful validator update or a block end that returns updates; the monitor folds every returned batch into "
                "a model of CometBFT's validator set (removal of an absent validator or an empty result is an error) and compares with the stored set and count",
        "trusted_base": _TRUSTED + ["CometBFT's ValidatorSet.UpdateWithChangeSet is a 10-line Lean model written from its specification"],
        "assumptions": _ASSUME + [
            "every 4th session (`upg`) starts on the pre-Aspen storage, crosses the Aspen upgrade at height 4 (handle_aspen_upgrade, price-feed genesis) and "
            "Blackburn at height 6 through App::pre_execute_transactions, with validator updates before, at and after the migration",
            "the full property is false of the unchanged code in two corners, recorded as open findings F7a / F7b"],
        "explanation": "theorem: the returned batch applied as a map to CometBFT's set equals the stored set for every update sequence; counterexamples "
                       "for applicability; monitor replays the batches through the CometBFT model",
    },
}

# open findings F7a / F7b (C14) are listed in /verif/known_findings.json

TEXT = {
    "C02": {
        "text": "Lean 4 theorems for every state, signer and action: a balance can only be decreased by an action signed by the account itself or, for a "
                "bridge account, by its withdrawer in the state the action executes on; privileged action kinds execute only under the signature of the "
                "authority in force (sudo, IBC sudo, the bridge's sudo); bridge accounts cannot use plain transfers/locks/withdrawals. Every run executes "
                "generated transactions from all signers (including former authorities and bridge accounts) and attributes every observed balance "
                "decrease and privileged-state change to the signer and the pre-state authorities.",
        "design_ref": "DESIGN.md §6 C02",
        "note": "Trusted: Lean kernel, hand-written model, harness/driver. Both directions for privileged state are theorems (a privileged action needs the "
                "holder's signature; a changed privileged component implies the signer held it), and are evaluated by the priv_authorised monitor on the implementation's dumps.",
        "technique": "Lean 4 proof (effect-list analysis per action kind) + differential correspondence on full state dumps",
    },
    "C04": {
        "text": "Lean 4 theorems: every Deposit is emitted in the same atomic effect list as an equal credit of the named bridge account in that bridge's "
                "asset and rollup; failed transactions and error-acknowledged packets publish nothing; an action carrying a withdrawal event id executes "
                "only if the id is unrecorded for that bridge and records it, and nothing un-records it; by induction over arbitrary histories of transactions, packets and block ends a (bridge, event id) is honoured at most once in total (C04_withdrawal_once_history). Every run checks deposits against bridge "
                "balance deltas per op and per block, and rejects a second honoured carrier of any (bridge, id) over the whole history.",
        "design_ref": "DESIGN.md §6 C04",
        "note": "Trusted: Lean kernel, hand-written model, harness/driver. One genuine defect repaired (orphan deposit of a failed receive, fix: 5215c1f).",
        "technique": "Lean 4 proof (effect-list membership, monotone withdrawal table) + differential correspondence on full state dumps",
    },
    "C14": {
        "text": "Lean 4 theorem: for every sequence of validator updates in a block the returned batch, applied as a map to CometBFT's set, equals the "
                "stored set (both storage formats). Applicability of the batch (never removes an absent validator, never empties the set) is false of "
                "the unchanged code in two corners, proved as counterexamples and recorded as open findings; every run folds the returned batches through "
                "a model of CometBFT's update rule and compares with the stored set and count after every block.",
        "design_ref": "DESIGN.md §6 C14",
        "note": "Trusted: Lean kernel, hand-written model incl. CometBFT's update rule, harness/driver. Open findings F7a, F7b (KNOWN-FINDING lines).",
        "technique": "Lean 4 proof (mirror invariant by induction over the block's updates) + differential correspondence + CometBFT-rule monitor",
    },
}
