# Area `crash` — property C11 (relayer crash/restart never skips a block on Celestia).

HARNESSES = {
    "crash": {"crate": "astria-sequencer-relayer", "features": "verif-crash",
              "test": "relayer::verif::driver", "driver": "driver-crash", "timeout": 5400},
}

PROPS = {
    "C11": {
        "level": "proof",
        "lean_modules": ["Astria.RelayerCrash.Model", "Astria.RelayerCrash.Basic", "Astria.RelayerCrash.Invariant",
                         "Astria.RelayerCrash.Theorems", "Astria.Properties.C11"],
        "theorems": ["Astria.C11_state_file_always_readable", "Astria.C11_never_stops_by_itself",
                     "Astria.C11_recorded_implies_confirmed", "Astria.C11_no_gap", "Astria.C11_monitor_spec",
                     "Astria.C11_tx_numbers_unique"],
        "harnesses": ["crash"],
        "monitors": ["file_parseable", "recorded_confirmed", "no_gap"],
        "scope_regex": r"^crash ",
        "nontrivial_regex": r"^crash (fs|fetch|bcast|gettx|giveup|wait|crash|restart|include|drop|corrupttmp|tamper) .* => (?!err:)",
        "thorough_seeds": 1,
        "search_seeds": 1,
        "rule": "in-crate harness (child module of `relayer`) runs the REAL Relayer::run (new_from_path, BlockStream reader, forwarding incl. "
                "forward_once_free, BlobSubmitter::run, try_confirm_submission_from_last_session, submit_with_retry/try_submit, "
                "State::{read,write} with temp-file + rename) against in-process fakes of the Celestia app gRPC (held BroadcastTx/GetTx, "
                "truthful GetTx against a fake mempool+chain that decodes the sequencer heights out of the blobs), the sequencer gRPC (held "
                "GetSequencerBlock) and CometBFT JSON-RPC, on a paused-time current-thread runtime; every blocking file-system operation is "
                "released one at a time, so a crash (= dropping the runtime, queued fs op never executed) can be placed at every await: "
                "before/after the state read, between the temp write and the rename of each of prepared / started / reverted state, "
                "before/after each RPC is served. quick: file scenarios (garbage / empty / truncated / stale-but-wellformed temp file after "
                "a crash between temp write and rename; truncated / garbage / empty / missing / semantically invalid / unknown-tag state "
                "file), a torn write at EVERY fs operation of a fault-free run and of two recovery runs (the process dies inside the "
                "operation: whatever file it was writing is cut short), the full-channel scenario (reader 129 blocks ahead of a submitter "
                "that is still confirming: forward_once_free + paused stream), EVERY crash point of a 6-block run (eager fetch) and of "
                "3-block runs (lazy fetch; start at height 17) x 4 outcomes of the in-flight BlobTx (lost, confirmed while down, pending "
                "then confirmed, timed out then confirmed late = duplicate), sampled pairs of crash points, 40 seeded random sessions of "
                "40..160 controller steps (all BroadcastTx outcomes incl. gRPC timeout with/without acceptance, GetTx not-found / height-0 / "
                "gRPC error / error code / empty / negative height, give-ups, expiry between stretched polls, include/drop, more blocks, "
                "crashes, torn writes, temp-file corruption, tampering). thorough: all crash points of 6- and 12-block runs, all first "
                "crash points x 7 recovery depths (+ lazy-fetch pairs), 400 random sessions. Each step is one trace line with state file, "
                "temp file, held requests, fake mempool and chain, relayer status; replayed through the Lean model (result + full "
                "observable state must be equal) and the C11 spec is evaluated on the reported file / chain. non-trivial = a step that "
                "was enabled (not err:*); distinct = distinct trace lines",
        "trusted_base": [KERNEL,
                         "hand-written model Astria/RelayerCrash/Model.lean tied to relayer/{submission,write/mod,mod,read,celestia_client}.rs "
                         "by the correspondence run of this check (state after every environment step)",
                         "harness /verif/harness/relayer/crash.rs (fakes, gate on the blocking pool, quiescence detection) + Lean driver "
                         "Driver/CrashArea.lean (line protocol, monitors)",
                         "tokio (paused clock, current-thread scheduler, blocking pool FIFO), tonic/hyper/axum/reqwest over loopback TCP, "
                         "serde_json / jiff (state-file encoding), the OS rename(2) being atomic"],
        "assumptions": ["rename(2) is atomic and nothing but the relayer writes the state file (`Benign` excludes tampering; the harness "
                        "additionally checks that tampered files are rejected as unreadable, never mis-parsed)",
                        "the Celestia app answers GetTx truthfully (confirmed only for a transaction that is on chain); every BlobTx the "
                        "relayer signs is distinct (the fake bumps the account sequence per prepare)",
                        "a crash loses exactly the volatile state: an fs operation that was queued but not started does not happen; a "
                        "partially written temp file is modelled by corrupting the temp file while the process is down; fsync / power-loss "
                        "semantics of the filesystem are not modelled",
                        "not modelled: a block that does not fit the payload limit (pending_block hand-over: C12's model), graceful "
                        "shutdown, failing sequencer RPCs (retried without state change), a BroadcastTx response whose hash differs from "
                        "the locally computed one; durations are abstracted: every timeout / expiry is an action the environment may take "
                        "at any time (over-approximation; which of `next poll` / `expired` happened is read off the implementation)"],
        "explanation": "invariant proved by induction over ALL sequences of benign environment actions (crash anywhere, any RPC outcome, any "
                       "interleaving): file readable, recorded => confirmed up to it, confirmed heights gap-free, process never ends by "
                       "itself; correspondence: model state = observed state after every controller step",
    },
}

TEXT = {
    "C11": {
        "text": "Lean 4 invariant proved by induction over every sequence of environment actions of a crash/restart model of the relayer "
                "(one state per await of Relayer::run / BlobSubmitter::run / State::write: read, temp write, rename, prepare, broadcast, "
                "confirm polls, timed confirmations, retry back-off; crash and restart at any of them; every outcome of BroadcastTx / GetTx; "
                "late inclusion; arbitrary temp-file content): the state file always holds a complete state that State::read accepts, the "
                "process never ends by itself, every height the file records as submitted is confirmed on Celestia together with all heights "
                "from the first relayed one, and the confirmed heights have no gap. Every run drives the real Relayer::run against fake "
                "Celestia / sequencer / CometBFT servers on paused time with all blocking fs operations gated, places a crash at every await "
                "of a 6-block run x 4 outcomes of the in-flight BlobTx plus pairs of crashes plus random sessions, and after every step "
                "diffs state file, temp file, held RPCs, fake chain and relayer status with the model and evaluates the decidable C11 spec "
                "on the implementation's own file and chain. Right level: the property quantifies over crash points x outcomes x histories; "
                "only the inductive invariant closes that product, the enumeration ties the model to the code.",
        "design_ref": "DESIGN.md §6 C11",
        "note": "Trusted: Lean kernel (+propext, Classical.choice, Quot.sound), the hand-written model, harness (fakes, fs gate, quiescence) "
                "and driver, tokio/tonic test runtime, atomic rename. Timeouts are abstracted to nondeterministic give-ups; pending_block "
                "hand-over is C12's model; fsync semantics not modelled.",
        "technique": "Lean 4 proof (inductive invariant over all action sequences) + step-by-step differential correspondence with the real "
                     "Relayer::run under systematic crash-point enumeration",
    },
}
