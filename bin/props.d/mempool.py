"""check configuration of area `mempool` (property C13)."""

HARNESSES = {
    "mempool": {"crate": "astria-sequencer", "features": "verif-mempool",
                "test": "mempool::verif::driver", "driver": "driver-mempool"},
}

_MODULES = ["Astria.Mempool.Model", "Astria.Mempool.Basic", "Astria.Mempool.Ledger", "Astria.Mempool.Shape",
            "Astria.Mempool.Steps", "Astria.Mempool.Track", "Astria.Mempool.TrackOps", "Astria.Mempool.Afford",
            "Astria.Mempool.Fresh", "Astria.Mempool.Queue", "Astria.Mempool.Theorems", "Astria.Mempool.PromoTotal",
            "Astria.Properties.C13"]

PROPS = {
    "C13": {
        "level": "proof",
        "lean_modules": _MODULES,
        "theorems": ["Astria.C13_one_place", "Astria.C13_no_silent_loss_partial",
                     "Astria.C13_no_silent_loss_counterexample", "Astria.C13_no_silent_loss_fixed",
                     "Astria.C13_maintenance_promotion_total",
                     "Astria.C13_ready_consecutive", "Astria.C13_ready_affordable", "Astria.C13_builder_order",
                     "Astria.C13_no_used_nonce_after_maintenance", "Astria.C13_parked_limits",
                     "Astria.C13_validB_sound"],
        "harnesses": ["mempool"],
        "monitors": ["one_place", "no_silent_loss", "ready_consecutive", "no_used_nonce_after_maintenance",
                     "ready_affordable", "recost_applied", "parked_limits", "pending_nonce", "builder_order", "builder_priority",
                     "dump_parse"],
        "scope_regex": r"^mempool ",
        "nontrivial_regex": r"^mempool (insert \S+ .* => (pending|parked)|remove \S+ \S+ => ok \| .* R=[^-]|maintain .* => ok \| P=[^-]|maintain .* => ok \| P=- K=[^-]|uncache )",
        "rule": "in-crate harness (child module of `mempool`, reads the private containers, removal cache and result cache) on the REAL "
                "`Mempool` under a paused tokio clock, with real signed transactions (Transfer / InitBridgeAccount / FeeAssetChange / "
                "SudoAddressChange = the four action groups) of 6 accounts x 3 assets and a `StateDelta` as chain state: 160 (thorough 1500) "
                "sessions of 25-90 (thorough 30-140) generated steps, parked limit 0/1/2-4/5-9/16/20/91/200, result-cache size 1-3/100/10000; "
                "ops: insert (next ready nonce, gapped, exact/stale chain nonce, replacement of a tracked nonce, duplicate of a tracked id, "
                "re-submission of a removed id, flooding one account's parked queue up to its limit and filling the gap below it; costs from "
                "the fee table or around the balance; shown balances = chain or perturbed), "
                "remove_tx_invalid (tracked / untracked / same-nonce-other-id), block inclusion of a builder-queue prefix with execution "
                "results + nonce advance + balance change, failed execution, balance and nonce moves without the mempool, fee-table and "
                "allowed-fee-asset changes with re-costing maintenance, plain maintenance, time jumps incl. exactly at / 1 ms past TX_TTL of an "
                "accepted transaction and the result retention, "
                "remove_from_removal_cache. After EVERY op the complete private state (both containers with probed costs, tracked set, "
                "removal cache, result cache) and the answers of builder_queue / pending_nonce / transaction_status(every id ever created) / "
                "len are dumped and diffed with the Lean model (run_maintenance iterates a HashSet: the model result must match for SOME "
                "account order); the monitors evaluate the C13 spec on the implementation's values only. non-trivial = an accepted insert, a "
                "removal that reported ids, a maintenance on a non-empty pool, or an un-cache; distinct = distinct trace lines",
        "trusted_base": [KERNEL,
                         "hand-written model Astria/Mempool/Model.lean tied to crates/astria-sequencer/src/mempool/{mod,transactions_container,"
                         "recent_execution_results}.rs by the correspondence run of this check (full state after every op)",
                         "harness /verif/harness/sequencer/mempool.rs + Lean driver Driver/MempoolArea.lean (line protocol, dump parser, cost probe "
                         "through deduct_costs)",
                         "tokio paused clock (time::advance) standing in for Instant::now(); cnidarium StateDelta as chain state; "
                         "CheckedTransaction::total_costs for re-costing (modelled as fee-table base fee + transferred amount)"],
        "assumptions": ["mempool preconditions (hypotheses of every theorem, kept by the harness): the account nonce shown to the mempool never "
                        "decreases; insert is not used for a currently tracked id unless the call is rejected",
                        "'last shown' = values of the last operation that looked at the account (nonce) / validated its ready queue (balances); "
                        "ready transactions below the shown nonce are the executed ones awaiting the next maintenance",
                        "operations are atomic (one RwLock around MempoolInner); the CheckTx service's separate status-lookup and insert are not modelled",
                        "nonces below u32::MAX (insert panics on checked_add(1) at u32::MAX); removal cache bound 50 000 modelled and proved "
                        "about but not reached by the harness; state-read errors in run_maintenance (`continue`) not modelled",
                        "finding F13 (repaired by /repo commit 8c2d14f, recorded as fixed in known_findings.json): in the pinned code a demotion "
                        "that failed inside run_maintenance lost the transaction silently. The driver runs the model as the repaired code "
                        "(cfg.reportFailedMoves = true), for which C13_no_silent_loss_fixed proves the full statement; "
                        "C13_no_silent_loss_counterexample keeps the pinned behaviour (reportFailedMoves = false) as a kernel-checked regression "
                        "witness; C13_no_silent_loss_partial holds for both",
                        "'current cost' of a transaction in the monitors recost_applied / ready_affordable = the costs handed to insert, replaced at "
                        "every re-costing maintenance it survives by fee-table base fee + transferred amount (computed from the op lines, not from "
                        "the mempool's answers)"],
        "explanation": "invariant (container order, one-place counts, nonce-gap, affordability, parked limits, ledger of accepted ids) proved "
                       "by induction over all valid operation sequences; builder-queue order by sortedness of the priority sort; post-condition "
                       "of maintenance for every state; correspondence on complete state dumps of the real Mempool",
        "search_seeds": 2,
    },
}

TEXT = {
    "C13": {
        "text": "Lean 4 invariant proved by induction over every sequence of insert / remove_tx_invalid / remove_from_removal_cache / "
                "run_maintenance (any chain state, fee table, account order) / clock advance that keeps the mempool's preconditions: the tracked "
                "set is exactly the ids held, each exactly once, ready or parked, and transaction_status/len agree with that; ready nonces of "
                "an account are gap-free from the nonce last shown; ready costs are covered by the balances last validated against; builder_queue "
                "is a permutation of the ready set with lower nonce first per account and action group; after maintenance nothing below the chain "
                "nonce remains; parked limits hold. 'Never silently lost' (accepted ids are tracked, in the removal cache, acknowledged, or "
                "evicted at the 50 000 bound) is proved in full for the code as it is since the repair of finding F13 (/repo commit 8c2d14f: a "
                "failed demotion/promotion in maintenance is reported as InternalError); the pinned behaviour is kept as a kernel-checked "
                "counterexample theorem, and a weaker form (… or dropped by a failed move in maintenance) is proved for both. Every run "
                "drives the real Mempool with signed transactions of all four action groups, diffs its complete private state and query answers "
                "with the model after each op and evaluates the same spec on the implementation's own values.",
        "design_ref": "DESIGN.md §6 C13",
        "note": "Trusted: Lean kernel, hand-written model, harness/driver, paused tokio clock, cnidarium StateDelta. Finding F13 (silent "
                "loss on failed demotion) is repaired (8c2d14f) and recorded as fixed: any loss, including a regression of F13 (corpus sessions "
                "A-C), is a VIOLATION. Service-level interleaving (separate lock "
                "acquisitions in CheckTx) not modelled.",
        "technique": "Lean 4 proof (inductive invariant over operation sequences) + differential correspondence on full state dumps + "
                     "spec monitors on the implementation",
    },
}

# finding F13 (silent loss on a failed demotion in run_maintenance) was repaired; see /verif/known_findings.json
