# Area `executor` (property C10): conductor executor bookkeeping + BlockCache.
# Fragment loaded by bin/props.py (`KERNEL` is predefined).

HARNESSES = {
    "executor": {"crate": "astria-conductor", "features": "verif-executor", "test": "executor::verif::driver",
                 "driver": "driver-executor", "timeout": 3600},
}

PROPS = {
    "C10": {
        "level": "proof",
        "lean_modules": ["Astria.Conductor.Model", "Astria.Conductor.Spec", "Astria.Conductor.Theorems", "Astria.Properties.C10"],
        "theorems": ["Astria.C10_model_accepted", "Astria.C10_accepted_history_in_order",
                     "Astria.C10_accepted_firm_names_executed_block", "Astria.C10_accepted_bad_delivery_not_executed",
                     "Astria.C10_exec_once_in_order", "Astria.C10_unexpected_delivery_is_noop", "Astria.C10_event_loop_is_a_delivery_sequence",
                     "Astria.C10_cache_sequential"],
        "harnesses": ["executor"],
        "monitors": ["c10_history_accepted", "c10_cache_sequential", "c10_parse"],
        "scope_regex": r"^executor ",
        "nontrivial_regex": r"^executor ((soft|firm) \d+.* => ok \| [XUG]|loop .* => \S+ \| [XUG]|cpop => some|cscan \d+ => occ=\d)",
        "thorough_seeds": 1,
        "search_seeds": 3,
        "rule": "in-crate harness (child module executor::verif) builds the real `Initialized` on harness-owned channels after the real "
                "`create_initial_node_state` (CreateExecutionSession + State::try_from_execution_session) and `create_block_channels`, and calls the "
                "real `execute_soft` / `execute_firm` one delivery at a time, or the real `run_event_loop` over pre-filled closed channels (op `loop`), "
                "against an in-process tonic execution-API server that is the model's contract-enforcing rollup and logs every ExecuteBlock / "
                "UpdateCommitmentState / GetExecutedBlockMetadata with its answer. quick: 400 sessions of 3..14 ops (thorough: 5000 of 5..40), "
                "commit levels soft-only/firm-only/soft-and-firm 1:1:3, start offsets (S,R) from {(1,0),(1,1),(10,3),(2^32,5),(2,2^33),random up to 2^40}, "
                "fresh and restarted sessions (0..5 firm and 0..4 soft blocks already on the rollup), refused sessions, look-ahead 1..100; per delivery "
                "72% expected height, else duplicate / stale / gap of one / far ahead / the other stream's height / random. After every op the RPCs of "
                "the op and the executor's tracked State + blocks_pending_finalization are dumped and compared with the Lean model; the C10 acceptor "
                "(Spec.lean) is evaluated on the implementation's own report. BlockCache: 300 (thorough 3000) sessions of insert / pop / drop_obsolete "
                "around next_height on the real BlockCache, content revealed by a probing scan at the end of each session. non-trivial = a delivery "
                "or loop that caused RPCs, a successful pop, a non-empty scan; distinct = distinct trace lines",
        "trusted_base": [KERNEL,
                         "hand-written model Astria/Conductor/Model.lean tied to executor/mod.rs, state.rs, block_cache.rs and the CommitmentState builder by the correspondence run",
                         "harness /verif/harness/conductor/executor.rs (incl. its fake rollup = Model.Rollup, re-implemented in Rust) + Lean driver; tonic/tokio transport",
                         "error kinds are recognised by the messages of the eyre error chain"],
        "assumptions": ["theorems assume a well-formed session (Cfg.WF): firm0 <= soft0 and R <= firm0+1 (both enforced by the real session validation), "
                        "sequencer start height >= 1, and for a firm-only conductor a rollup whose soft head equals its firm block (otherwise the rollup, "
                        "like astria-geth, refuses the first ExecuteBlock because its parent is not the head: observed in the correspondence, no execution happens)",
                        "deliveries come only from readers that exist for the commit level (Op.admissible): Executor::init spawns the Celestia reader iff "
                        "is_with_firm and the sequencer reader iff is_with_soft and drops the other sender",
                        "the rollup is contract-enforcing (Model.Rollup): ExecuteBlock only on the soft head, number = parent+1, fresh hash; UpdateCommitmentState "
                        "only to blocks it produced, firm <= soft, no decrease; and acknowledges with exactly the requested state. A rollup that answers "
                        "otherwise is outside the statement (the executor's own contract check is modelled and exercised only on its passing side)",
                        "all heights/numbers < 2^62: the u64 / tendermint::Height overflow branches (checked_add, Height::increment) are not modelled",
                        "the executor task exits on the first error; the model (and the harness) keeps delivering after an error, which is a superset of the real runs",
                        "not modelled: the readers' network side, retry/back-off of the gRPC client, shutdown/stop-height handling (handle_task_exit), "
                        "session renewal by the conductor, metrics, transaction payload / price-feed prepending (passed through opaquely)"],
        "explanation": "theorem B: the executor model produces only histories accepted by the C10 acceptor, for every well-formed session and every delivery "
                       "sequence (simulation invariant, induction over the sequence); theorem A: every accepted history — in particular every implementation "
                       "history the monitor accepted — has consecutive ExecuteBlock heights from the session start, each on the previous block, all answered, "
                       "monotone commitments with firm <= soft, firm commitments naming blocks executed from the delivered height, and no RPC for unexpected "
                       "deliveries; BlockCache pops strictly increasing / consecutive heights for every op sequence",
    },
}

TEXT = {
    "C10": {
        "text": "Lean 4: a decidable acceptor (Spec.lean) over what a contract-enforcing rollup observes — deliveries, the executor's verdict, and the "
                "ExecuteBlock / UpdateCommitmentState / GetExecutedBlockMetadata RPCs each caused. Theorem A (all histories): acceptance implies that every "
                "ExecuteBlock was answered, the calls carry strictly consecutive sequencer heights from the session start, each on the block produced by "
                "the previous call, commitments never decrease, firm <= soft, a firm commitment names a block executed from the delivered height, and "
                "out-of-order / duplicate deliveries cause no RPC (stale soft dropped silently, otherwise an error). Theorem B (induction over all delivery "
                "sequences, all commit levels, all start offsets and initial commitments): the hand-written model of execute_soft / execute_firm / "
                "update_commitment_state / blocks_pending_finalization only produces accepted histories. BlockCache: pops are strictly increasing and "
                "consecutive for every insert/pop/drop sequence. Every run drives the REAL executor methods (one delivery at a time, and through the real "
                "run_event_loop) and the real BlockCache against an in-process contract-enforcing rollup, diffs RPCs + tracked state + pending map after "
                "every op with the model, and evaluates the acceptor on the implementation's own histories. Right level: the property quantifies over all "
                "interleavings, which the induction closes; the tests script 1-3 heights in a fixed order.",
        "design_ref": "DESIGN.md §6 C10",
        "note": "Trusted: Lean kernel, hand-written model and fake rollup (same state machine in Lean and Rust), harness/driver, tonic transport. "
                "Assumes a well-formed session and a contract-enforcing rollup; u64/Height overflow, readers, retry, shutdown and session renewal not modelled.",
        "technique": "Lean 4 proof (simulation invariant between executor model and a history acceptor; induction over delivery sequences) + "
                     "differential correspondence and acceptor monitor on the real executor",
    },
}
