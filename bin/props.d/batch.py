# Area `batch` — property C12 (relayer batching: exactly once, in order, payload bound, filter, decode).

HARNESSES = {
    "batch": {"crate": "astria-sequencer-relayer", "features": "verif-batch",
              "test": "relayer::write::verif::driver", "driver": "driver-batch", "timeout": 3000},
}

PROPS = {
    "C12": {
        "level": "proof",
        "lean_modules": ["Astria.Relayer.Model", "Astria.Relayer.Theorems", "Astria.Relayer.Loop",
                         "Astria.Relayer.Drain", "Astria.Properties.C12"],
        "theorems": ["Astria.C12_exactly_once", "Astria.C12_no_silent_drop", "Astria.C12_oversized_is_hard_error",
                     "Astria.C12_drain", "Astria.C12_height_order", "Astria.C12_height_order_stream", "Astria.C12_payload_bound",
                     "Astria.C12_filter_only_drops_data", "Astria.C12_decode_roundtrip", "Astria.C12_conductor_view"],
        "harnesses": ["batch"],
        "monitors": ["exactly_once", "height_order", "size_bound", "refusal_justified",
                     "filter_only_drops_data", "decode_roundtrip"],
        "scope_regex": r"^batch ",
        "nontrivial_regex": r"^batch (recv .* => (ok|full|err:oversized)|take => sub |e2e-sub \d+ => nblobs)",
        "thorough_seeds": 3,
        "search_seeds": 2,
        "rule": "in-crate harness (child module of relayer::write) drives a real BlobSubmitter: the real has_capacity / "
                "add_sequencer_block_to_next_submission (NextSubmission::try_add, Input::extend_from_sequencer_block with the real "
                "IncludeRollup filter, try_into_payload, brotli, Blob::new) and the real NextSubmission::take / TakeSubmission::poll, with "
                "the recv / take+pending hand-over / completion arms of BlobSubmitter::run replicated around them. Streams of real "
                "SequencerBlocks (ConfigureSequencerBlock, deterministic keys): 100 (thorough 400 per seed) sessions of 3-12 small blocks "
                "with 0-9 rollup entries over 8 rollup ids (two pairs share a Celestia namespace), all filter kinds (all / one / several / "
                "none-matching), start heights > 0 (skips), 30% adversarial sessions (duplicate, decreasing, gapped heights, second chain "
                "id), random interleaving of take / done / dropped-unpolled take; sessions of incompressible 1/2, 1/3, 1/4-limit blocks so "
                "that 1, 2 or 3 blocks straddle MAX_PAYLOAD_SIZE_BYTES; a 9-block 110 KB session; a single block > limit on an empty batch "
                "and as the pending block (hard error both times); 1.5 MB compressible + 1.2 MB filtered data (fits); calibrated payloads "
                "of EXACTLY 1 000 000 bytes and the next size above, for one block and for two blocks. In addition 2 (thorough 4 per seed) "
                "END-TO-END sessions run the real async BlobSubmitter::run select loop against an in-process Celestia gRPC mock that "
                "confirms one BlobTx at a time: bursts of 0.96*limit/k-byte blocks arrive while a submission is in flight (real Full -> "
                "pending_block -> hand-over after the take, real has_capacity guard), one block repeats an already submitted height "
                "(real skip); the BlobTx blobs captured by the mock are diffed with the model driven by the same events. Every produced blob is decoded "
                "conductor-style (decompress, prost decode of the list, try_from_raw) and compared per block with split_for_celestia of the "
                "source block. Each line is replayed through the Lean model (the candidate's real compressed size is the model's csize "
                "oracle). non-trivial = a block handed to try_add (accepted / pending / oversized) or an emitted submission; distinct = "
                "distinct trace lines",
        "trusted_base": [KERNEL,
                         "hand-written model Astria/Relayer/Model.lean tied to relayer/write/{conversion,mod}.rs by the correspondence run",
                         "harness /verif/harness/relayer/batch.rs + Lean driver Driver/BatchArea.lean (line protocol); the harness' reference "
                         "computation of the candidate payload size (same astria-core functions, independent bookkeeping)",
                         "brotli, prost, celestia-types Blob, serde_json view of InputMeta, astria-core test_utils block builder"],
        "assumptions": ["compression is a parameter: csize is an arbitrary function of the blob list (none = compression/blob error), no "
                        "monotonicity; the driver instantiates it per step with the size measured by the harness",
                        "the three data arms of BlobSubmitter::run (capacity guard + already-submitted skip, pending_block hand-over after "
                        "a take, advance of last_submission_sequencer_height on completion) are modelled as atomic steps. In the step-by-step "
                        "sessions they are REPLICATED in the harness around the real functions; in the end-to-end sessions the real select "
                        "loop runs (Celestia app mocked in-process, every request succeeds) and the driver schedules the model's arms in the "
                        "loop's biased order. Submission retries, timeouts, shutdown and crash recovery are not exercised here (C11)",
                        "size oracle of the end-to-end sessions = sum of the blocks' stand-alone compressed sizes (the loop does not expose "
                        "candidate sizes); those sessions keep every fits/does-not-fit decision >= 3% away from the limit",
                        "the relayer crate cannot depend on astria-conductor: conductor's convert.rs decode steps are replicated in the "
                        "harness with the same astria-core functions (decompress_bytes, SubmittedMetadataList/SubmittedRollupDataList::decode, "
                        "try_from_raw); namespace selection of blobs is by position (first blob = metadata list) and namespace equality",
                        "a rollup-list blob whose namespace equals the sequencer namespace is outside the model (decodeMeta only reads "
                        "metadata-list bodies); rollup ids with equal first 10 bytes share one blob, as in the code",
                        "usize overflow of the size counters (checked_add -> usize::MAX) is not modelled"],
        "explanation": "theorems: invariant by induction over all loop-event sequences (metadata and per-namespace rollup entries of "
                       "emitted ++ accumulating ++ pending = accepted stream, every batch's payload = try_into_payload(input) with accounted "
                       "size = csize <= max), no silent drop, Full never from an empty batch, drain liveness, height order, decode o encode = id; "
                       "correspondence on every op incl. full submission dumps; monitors re-evaluate the spec on the implementation's reports",
    },
}

TEXT = {
    "C12": {
        "text": "Lean 4 invariant proved by induction over every sequence of relayer loop events (block received / take / in-flight "
                "submission completes), every rollup filter, every namespace function, every limit and every compressed-size function: "
                "the metadata of emitted submissions ++ accumulating batch ++ pending block is exactly the stream of accepted blocks in "
                "order (no loss, duplication or reordering, independent of the filter); per namespace the rollup entries are exactly the "
                "accepted blocks' entries that pass the filter; every submission's blobs are try_into_payload of its input, its accounted "
                "size is the compressed size of those blobs and <= the limit; a block offered is accepted, skipped as already submitted, "
                "left in the channel, or stops the loop with a hard error (OversizedBlock only on an empty batch; Full never from an empty "
                "batch, so the pending hand-over cannot bounce); two completion/take rounds drain everything; decoding the blobs "
                "conductor-style returns exactly the entries. Every run drives the real BlobSubmitter/NextSubmission code with generated "
                "streams of real SequencerBlocks (sizes straddling and exactly at the 1 000 000-byte limit, all filter kinds), diffs every "
                "result and every submission dump with the model, decodes every blob like conductor and compares with the source block.",
        "design_ref": "DESIGN.md §6 C12",
        "note": "Trusted: Lean kernel (+propext, Quot.sound), hand-written model, harness/driver, brotli/prost/celestia-types. The async "
                "select loop of BlobSubmitter::run is modelled as atomic arms; it is executed for real only in the scripted end-to-end "
                "sessions (mocked Celestia app, no failures injected).",
        "technique": "Lean 4 proof (invariant by induction over loop events, size function abstract) + differential correspondence on "
                     "the real batching code + conductor-style decode comparison",
    },
}
