# Area `block` (properties C07 and C17): block building -> commitments -> proofs -> receivers,
# and the validation glue of the proof-carrying wire messages.
# Fragment loaded by bin/props.py (`KERNEL` is predefined).

HARNESSES = {
    "block": {"crate": "astria-conductor", "features": "verif-blobs", "test": "celestia::verif::driver",
              "driver": "driver-block", "timeout": 3600},
    # sequencer side of the same area: commitments on real checked transactions, storage round trip, gRPC filter
    "blockseq": {"crate": "astria-sequencer", "features": "verif-grpc", "test": "grpc::sequencer::verif::driver",
                 "driver": "driver-block", "timeout": 3600},
}

_BLOCK_MODULES = ["Astria.Block.Model", "Astria.Block.Rfc", "Astria.Block.Chain", "Astria.Block.Group",
                  "Astria.Block.Build", "Astria.Block.Tamper", "Astria.Block.Receive", "Astria.Block.Wire",
                  "Astria.Block.Reencode", "Astria.Block.FlatComplete"]
_WIRE_MODULES = ["Astria.Block.Model", "Astria.Block.Rfc", "Astria.Block.Chain", "Astria.Block.Group", "Astria.Block.Build",
                 "Astria.Block.Tamper", "Astria.Block.Wire", "Astria.Block.Reencode"]

PROPS = {
    "C07": {
        "level": "proof",
        "lean_modules": _BLOCK_MODULES + ["Astria.Properties.C07"],
        "theorems": ["Astria.C07_data_exact", "Astria.C07_honest_proposer_builds", "Astria.C07_proofs_verify",
                     "Astria.C07_built_block_accepted", "Astria.C07_index_walk_accepts_rfc_paths",
                     "Astria.C07_built_block_accepted_by_crate_verifier", "Astria.C07_filter_serves_exactly",
                     "Astria.C07_grpc_filter_serves_exactly",
                     "Astria.C07_verifiers_sound",
                     "Astria.C07_full_tamper_evident", "Astria.C07_filtered_tamper_evident",
                     "Astria.C07_celestia_tamper_evident", "Astria.C07_receiver_attribution",
                     "Astria.C07_receiver_bound_partial", "Astria.C07_receiver_attribution_counterexample"],
        "harnesses": ["block", "blockseq"],
        "monitors": ["no_panic", "dump_parse", "commitment_matches_builder", "grpc_filter_exact", "built_ids_sorted_set", "built_data_exact", "built_proofs_verify",
                     "built_commitments", "honest_accepted", "accepted_equals_built", "accepted_proofs_verify",
                     "reencode", "filter_exact", "split_exact", "receiver_block_bound", "receiver_attribution",
                     "receiver_bound", "receiver_data_exact"],
        "scope_regex": r"^block (reset|commit|grpcfilter|full|filtered|meta|blob|filter|split|celestia) ",
        "nontrivial_regex": r"^block (reset .* => ok |(full|filtered|meta|blob) \S+ .* => (ok|err:(Rollup|Invalid|ExtendedCommitInfo/NotIn))|filter [0-9a-f]|grpcfilter [0-9a-f]|commit |split|celestia )",
        "thorough_seeds": 1,
        "search_seeds": 2,
        "rule": "in-crate harness (child module celestia::verif of astria-conductor). Per session: a generated block content (0..5 rollups, thorough 0..8; "
                "ids that differ only in the first / last byte; payload sizes 0,1,2,3,5,31,32,33,64,127,128,129,200; duplicate payloads; rollups with only "
                "sequenced data, only deposits, both; empty deposit vectors; optional upgrade hashes / extended commit info; honest commitments, or a wrong / "
                "swapped commitment) is built with the REAL SequencerBlockBuilder::try_build; the block goes through into_raw -> every single-element "
                "tampering (each payload altered, payloads reordered / dropped / appended, 10 edits of every proof incl. index/size/length, rollup id "
                "fresh / other / unset / short, entries removed / duplicated / reordered / ids exchanged / added, 24 header edits around every limit, block "
                "hash, upgrade hashes, extended commit info) -> the REAL SequencerBlock::try_from_raw; to_filtered_block + into_filtered_block for EVERY "
                "subset of at most 4 ids of (present ids + one absent id) in several orders -> FilteredSequencerBlock::try_from_raw (+ the same tamper sweep "
                "incl. all_rollup_ids edits); split_for_celestia -> SubmittedMetadata / SubmittedRollupData::try_from_raw (+ sweeps); and the REAL conductor "
                "pipeline decode_raw_blobs (brotli, namespaces, list handling) -> verify_metadata (against a mocked sequencer RPC serving real signed commits) "
                "-> reconstruct_blocks_from_verified_blobs for ~45 scenarios per rollup (honest, missing / foreign / re-attributed / tampered blobs, block "
                "hash / chain id / height / root edits of the metadata, malformed list entries, wrong namespace, garbage blobs). A second in-crate harness "
                "(grpc::sequencer::verif of astria-sequencer) runs the sequencer side on the same generator: generate_rollup_datas_commitment::<true> on REAL "
                "CheckedTransactions (submissions spread over several transactions with transfers in between) and a real deposit map; put_sequencer_block "
                "into a cnidarium storage -> commit -> the gRPC handlers get_sequencer_block and get_filtered_sequencer_block for every subset of <= 4 ids "
                "(orders, repetitions, absent and malformed ids) -> the client-side try_from_raw of everything served. Each line is replayed through "
                "the Lean model with a Lean SHA-256 (roots, proofs and error kinds compared byte for byte) and the property's spec is evaluated on the "
                "implementation's own results. non-trivial = a built block, a receiver verdict that reached the Merkle checks, a filter/split, a conductor run; "
                "distinct = distinct trace lines",
        "trusted_base": [KERNEL,
                         "hand-written model Astria/Block/Model.lean tied to astria-core (block/mod.rs, celestia.rs, primitive) and astria-conductor "
                         "(convert.rs, verify.rs, reconstruct.rs) by the correspondence run of this check",
                         "harnesses /verif/harness/conductor/blobs.rs, /verif/harness/sequencer/grpc.rs, shared /verif/harness/block_codec.rs (text codec, error-kind "
                         "extraction from Debug output, wiremock sequencer, cnidarium TempStorage) + Lean driver "
                         "(codec, Lean SHA-256)",
                         "astria-merkle's tree / proof CONSTRUCTION is taken to be RFC 6962 (MTH and audit path): compared byte for byte on every generated "
                         "block; its VERIFICATION (index walk) is modelled exactly (Astria.Merkle.Flat) and proved sound and complete w.r.t. RFC 6962; "
                         "sha2, prost, brotli, celestia-types, tendermint, ed25519"],
        "assumptions": ["hash functions are parameters of every theorem; digests are 32 bytes long (Hashes.Sized — a fact of the Rust types)",
                        "tamper evidence is relative to the block's data_hash: nothing in the receivers binds data_hash (astria's own tree over block.data) to the "
                        "CometBFT block hash that the conductor compares with the sequencer's commit (DESIGN §10 / report: observation O1)",
                        "ItemsOk: no item of block.data other than the two commitments is exactly 32 bytes long — the receivers do not pin the position of the "
                        "commitments (proof index and tree size are attacker supplied), so the commitments are told apart from transactions by length",
                        "Small: the trees of a block have fewer than 2^61 leaves (index arithmetic of the crate's walk stays far below usize); WF: the "
                        "non-Merkle header fields are ones tendermint's types accept (only for the raw round trip of a built block)",
                        "the builder's tree root / construct_proof are modelled by RFC 6962 MTH / audit path (compared byte for byte on every generated block); "
                        "that the crate's index walk accepts exactly these paths is PROVED (C07_index_walk_accepts_rfc_paths), the flat-array construction itself is not",
                        "the deposits map is modelled as an association list with distinct keys; sort_unstable_keys as insertion sort (keys distinct)",
                        "verify_metadata's duplicate-block-hash resolution depends on task scheduling and is not modelled (the generator produces no duplicates)"],
        "explanation": "theorems for all blocks and all hash functions: data exactness and the sorted id set by induction over the grouping fold and the sort; "
                       "completeness of RFC 6962 audit paths, and of the crate's complete_parent walk on them (induction over the tree with the in-order "
                       "index arithmetic); tamper evidence by a hash-chain membership argument that covers both verifiers; receiver "
                       "attribution by induction over the conductor's matching loop; counterexample for the unchanged reconstruct.rs",
    },
    "C17": {
        "level": "other",
        "lean_modules": _WIRE_MODULES + ["Astria.Properties.C17"],
        "theorems": ["Astria.C17_decode_total", "Astria.C17_accepted_consistent", "Astria.C17_accepted_consistent_full_partial",
                     "Astria.C17_accepted_consistent_full_fixed", "Astria.C17_full_block_rollup_proofs_counterexample", "Astria.C17_reencode",
                     "Astria.C17_transaction_consistent"],
        "harnesses": ["block"],
        "monitors": ["wire_no_panic", "wire_reencode", "wire_accepted_consistent", "no_panic", "reencode",
                     "accepted_proofs_verify", "dump_parse"],
        "scope_regex": r"^block (wire|full|filtered|meta|blob) ",
        "nontrivial_regex": r"^block (wire \S+ \S+ \S+ => raw=|(full|filtered|meta|blob) )",
        "thorough_seeds": 1,
        "search_seeds": 2,
        "rule": "in-crate harness (child module celestia::verif of astria-conductor; all of astria-core reachable). From the valid encodings of every "
                "generated session (full block, a filtered block, Celestia metadata, rollup blobs, the RollupData entries, a signed transaction, the "
                "brotli-compressed SubmittedMetadataList / SubmittedRollupDataList blobs) the harness derives (a) structure-aware mutations at the raw-struct "
                "level (every Option field unset, ids / hashes / roots shortened or extended, 10 edits of each proof's index / size / path, entries removed / "
                "duplicated / reordered, header limits), re-encoded with prost, and (b) byte-level mutations (truncation at spread positions, bit flips, byte "
                "deletion / insertion / 0x00-0x7f-0x80-0xff overwrite, the message twice, an unknown field, a 2^64-1 length, an 11-byte varint), also inside the "
                "brotli payload, and feeds the bytes through prost and the public entry points Transaction / SequencerBlock / FilteredSequencerBlock / "
                "SubmittedMetadata / SubmittedRollupData / RollupData ::try_from_raw and the conductor's decode_raw_blobs (brotli + list conversion) under "
                "catch_unwind. For every message that prost decodes, the raw struct is dumped and the Lean glue model must predict the verdict and error "
                "kind (signature / key / body validity are oracles computed independently with ed25519); accepted values are re-encoded, decoded and "
                "validated again on the Rust side, and the Lean side re-checks every proof of the accepted value. non-trivial = a line whose bytes reached "
                "the validation glue; distinct = distinct trace lines",
        "trusted_base": [KERNEL,
                         "hand-written glue model (Astria/Block/Model.lean: decodeProof, decodeHeader, decodeRt, *FromRaw, txFromRaw) tied to the code by the "
                         "correspondence run; the byte layer (prost, brotli, serde, bech32, ed25519 decoding) is only explored, not modelled",
                         "harness /verif/harness/conductor/blobs.rs + Lean driver; Rust's catch_unwind as panic detector"],
        "assumptions": ["level is partial: proof for the validation glue (Raw -> Except Err Checked), exploration (mutation-based) for the byte-level decoders; "
                        "a panic inside prost / brotli / bech32 on an input the run did not generate is not excluded by any theorem",
                        "64-bit target (u64 <-> usize conversions cannot fail)",
                        "TransactionBody::try_from_any (actions, group rules), Deposit / PriceFeedData / extended-commit-info conversion and ed25519 are oracles of the model",
                        "CheckedTransaction::new's size / nonce / chain-id gates live in astria-sequencer and are not reachable from this crate (covered by the mempool / abci areas)"],
        "explanation": "theorems: every receiver is total for astria-merkle's (panicking) index walk because every proof that reaches verification went through "
                       "try_into_proof (composition of C08's totality through the glue); accepted values satisfy the type's Merkle checks (full block: except the "
                       "per-rollup proofs — counterexample, finding FB1); accepted values re-encode to a message that is accepted again with the same value "
                       "(duplicate rollup entries collapse as in IndexMap); transaction signature is over exactly the carried body bytes",
    },
}

TEXT = {
    "C07": {
        "text": "Lean 4 model of SequencerBlockBuilder::try_build (grouping, sort, both commitments, per-rollup proofs), the three receivers' try_from_raw "
                "with their error kinds, to_filtered_block, split_for_celestia and the conductor's convert / verify_metadata / reconstruct, parametric in the "
                "hash functions and reusing the Merkle model. Theorems for ALL blocks: per-rollup data = submissions in block order ++ deposits, ids = strictly "
                "sorted set of rollups with data; every produced proof verifies; a built block passes all receivers (any filter request) — under RFC 6962 "
                "verification and under astria-merkle's own index walk (proved: the walk accepts RFC 6962 audit paths), also through the raw protobuf "
                "round trip; to_filtered_block and the sequencer's gRPC filter serve "
                "exactly the requested present entries; whatever a receiver accepts under the block's data hash — full, filtered or Celestia form plus blob "
                "audit — is the built data or an explicit SHA-256 collision is constructed (altered, reordered, truncated, extended, re-attributed data "
                "rejected), for both the RFC 6962 verifier and astria-merkle's index walk; the conductor with a rollup-id check attaches only an audited blob of "
                "its own rollup. The unchanged reconstruct.rs lacks that check: counterexample theorem, and the monitor reproduces it on the real conductor "
                "(finding F10, repaired by fix: 793934a). Every run drives the real builder, the real try_from_raw functions and the real conductor pipeline on generated blocks and "
                "on every single-element tampering and diffs roots, proofs, verdicts and error kinds with the model (Lean SHA-256).",
        "design_ref": "DESIGN.md §6 C07",
        "note": "Trusted: Lean kernel, hand-written model, harness/driver, sha2/prost/brotli/tendermint. Findings found by this slice and repaired: F10 (conductor "
                "attaches another rollup's blob) and FB1 (SequencerBlock::try_from_raw never verifies the per-rollup proofs it returns). Tamper evidence is "
                "relative to data_hash (nothing binds it to the CometBFT block hash).",
        "technique": "Lean 4 proof (induction over folds / audit paths / the matching loop; collision extractors) + differential correspondence and "
                     "spec monitors on the real astria-core and astria-conductor code",
    },
    "C17": {
        "text": "PARTIAL by design: proof for the validation glue, exploration for the byte layer. Lean 4 model of the glue between prost-decoded raw structs "
                "and the checked types (Proof, RollupTransactions, SequencerBlock, FilteredSequencerBlock, SubmittedMetadata, SubmittedRollupData, "
                "Transaction) as total functions Raw -> Outcome (Except Err Checked) whose only partial operation — astria-merkle's index walk — carries an "
                "explicit panic outcome. Theorems for every raw value and every hash function: no receiver reaches a panic (decode_total); an accepted "
                "value has passed the type's Merkle checks (accepted_consistent; for the full block the per-rollup proofs are NOT checked by the code: "
                "counterexample theorem + finding FB1); an accepted value re-encodes to a message that is accepted again and yields the same value "
                "(reencode); an accepted transaction's signature verifies over exactly the body bytes it carries. What Lean cannot carry — panics inside "
                "prost, brotli, bech32, ed25519 point decoding — is explored on every run: structure-aware and byte-level mutations of valid encodings through "
                "every public decode entry point incl. the conductor's blob decoding under catch_unwind; monitor: never panic, accepted => re-encodes "
                "equivalently and its checks hold; the glue model must predict verdict and error kind of every message prost lets through.",
        "design_ref": "DESIGN.md §6 C17",
        "note": "Level `other` = proof (glue) + exploration (bytes). Trusted: Lean kernel, hand-written glue model, harness/driver, catch_unwind. Fixed finding "
                "FB1 (per-rollup proofs of an accepted SequencerBlock are unverified) was repaired (fix: 52f5ed5). CheckedTransaction::new (sequencer) is out of reach here.",
        "technique": "Lean 4 proof of totality / consistency / re-encoding of the validation glue + mutation-based differential exploration of all decode entry points",
    },
}

KNOWN_FINDINGS = [
    {
        "property": "C07",
        "status": "fixed",
        "id": "F10",
        "what": "conductor reconstruct.rs never compares a rollup blob's rollup_id with its own: another rollup's (valid) blob posted into the "
                "conductor's namespace is attached to the header and its transactions are executed",
        "match": {
            "monitor": "receiver_attribution",
            "line_regex": r"^block celestia .* \| reconstructed block [0-9a-f]+ carries the verified blob of another rollup",
        },
        "replay": "corpus/block.ops (session F10)",
    },
    {
        "property": "C07",
        "status": "fixed",
        "id": "FB1",
        "what": "SequencerBlock::try_from_raw accepts a block whose per-rollup Merkle proof does not verify (RollupTransactions.proof is decoded but "
                "never checked against rollup_transactions_root); split_for_celestia / to_filtered_block then hand out the bad proof",
        "match": {
            "monitor": "accepted_proofs_verify",
            "line_regex": r"^block (full|wire block) .* \| accepted, but proof of rollup [0-9a-f]+ does not verify",
        },
        "replay": "corpus/block.ops (session FB1)",
    },
    {
        "property": "C17",
        "status": "fixed",
        "id": "FB1",
        "what": "SequencerBlock::try_from_raw accepts a block whose per-rollup Merkle proof does not verify (accepted value does not satisfy "
                "'proofs verify against the header')",
        "match": {
            "monitor": "accepted_proofs_verify",
            "line_regex": r"^block (full|wire block) .* \| accepted, but proof of rollup [0-9a-f]+ does not verify",
        },
        "replay": "corpus/block.ops (session FB1)",
    },
]
