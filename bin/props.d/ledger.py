"""Sequencer ledger: C01 C02 C03 C04 C14 C18 share one model (Astria.Ledger), one in-crate harness
(harness/sequencer/ledger.rs, feature verif-ledger) and one driver (driver-ledger)."""

HARNESSES = {
    "ledger": {"crate": "astria-sequencer", "features": "verif-ledger", "test": "app::verif_ledger::driver",
               "driver": "driver-ledger", "timeout": 5400},
}

_LEDGER_RULE = (
    "in-crate harness (child module of `app`) drives the real App::begin_block / CheckedTransaction::new / "
    "App::execute_transaction / Ics20Transfer::{recv,timeout,acknowledge}_packet_execute / App::end_block + commit on a Fixture "
    "with 9 funded key-holding accounts, 2 key-less recipients, 4 assets (native fee asset, IBC-prefixed fee asset, non-fee "
    "native asset, second IBC asset), 2 open IBC channels, in three variants (Aspen+Blackburn applied / legacy pre-Aspen / crossing both upgrades at heights 4 and 6). "
    "Per session: prologue creating 2 bridge accounts + escrow, then 16 (thorough 40) blocks of 1-7 ops; 12 (thorough 60) sessions. "
    "Ops: real signed transactions of 1-5 actions over 18 action kinds (currency-pair and market changes, transfer, rollup data, bridge lock/unlock/transfer, init "
    "bridge, bridge sudo change, sudo / IBC sudo change, relayer add/remove, fee change, fee asset add/remove, validator update, "
    "ICS20 withdrawal plain and from a bridge), constructed against the current state or earlier (ctor … exec, so that mutable "
    "checks are re-run on a changed state), and ICS20 receive / timeout / acknowledgement packets. The generator reads the chain "
    "state back after every op: 70% valid-by-construction, 30% adversarial (wrong / former signer, bridge account as source, stale "
    "/ gapped / replayed nonce, amounts 0, 1, balance±1, u128::MAX, disallowed fee asset, re-used withdrawal event ids, mixed "
    "groups, bad recipient / memo). After every op the complete modelled state is dumped from storage (raw scan of accounts/, "
    "escrow, bridge accounts, withdrawal events, authorities, fee schedule, fee assets, validators, block fees, cached deposits) "
    "plus the tx.fees / tx.deposit events, and diffed with the Lean model's state. corpus/ledger.ops (witnesses of F5, F6, F7) "
    "runs first. distinct = distinct trace lines")

_TRUSTED = [
    KERNEL,
    "hand-written model lean/Astria/Ledger/Model.lean tied to checked_transaction/, checked_actions/, accounts/, fees/, bridge/, "
    "ibc/ics20_transfer.rs, authority/, app/mod.rs::{execute_transaction,end_block} by the correspondence run of this check",
    "harness /verif/harness/sequencer/ledger.rs + Lean driver lean/Driver/LedgerArea.lean (line protocol, canonical dump)",
    "cnidarium (StateDelta / commit), penumbra-ibc (send_packet_check, write_acknowledgement, light-client proof "
    "verification in front of the ICS20 handlers is not exercised: the handlers are called directly), ed25519 signing of the "
    "generated transactions",
]

_COMMON_ASSUMPTIONS = [
    "assets are identified by their trace-prefixed denomination (the harness uses no ibc/<hash> spellings in actions)",
    "IbcRelay and RecoverIbcClient actions are not modelled (they need light-client proofs); CurrencyPairsChange and MarketsChange "
    "are modelled (pair ids / count / next id, market decimals)",
    "byzantine-validator evidence in BeginBlock is not generated",
]

PROPS = {
    "C01": {
        "level": "proof",
        "lean_modules": ["Astria.Ledger.Model", "Astria.Ledger.Conservation", "Astria.Ledger.Theorems", "Astria.Ledger.Escrow",
                         "Astria.Ledger.History", "Astria.Properties.C01"],
        "theorems": ["Astria.C01_history_conserves", "Astria.C01_tx_conserves", "Astria.C01_failed_tx_conserves", "Astria.C01_recv_mints_exactly",
                     "Astria.C01_refund_mints_exactly", "Astria.C01_fee_exact", "Astria.C01_end_block_routes_fees",
                     "Astria.C01_original_counterexample"],
        "harnesses": ["ledger"],
        "monitors": ["conservation", "fee_exact", "fees_routed", "dump_parse"],
        "scope_regex": r"^ledger ",
        "nontrivial_regex": r"^ledger (tx|exec|recv|timeout|ack|end) .*=> (ok|ack:ok)",
        "rule": _LEDGER_RULE + ". non-trivial = a successful transaction, packet or block end",
        "trusted_base": _TRUSTED,
        "assumptions": _COMMON_ASSUMPTIONS,
        "explanation": "theorems: per-effect signed delta of (balances + escrow + block fees), lifted to actions, transactions, "
                       "packets and block end for all inputs, and by induction to every history (C01_history_conserves); fee plan = exactly base+mult*size debited from the signer; "
                       "monitors recompute totals and fees from the implementation's own dumps and events",
    },
    "C03": {
        "level": "proof",
        "lean_modules": ["Astria.Ledger.Model", "Astria.Ledger.Conservation", "Astria.Ledger.Theorems", "Astria.Ledger.Escrow",
                         "Astria.Ledger.History", "Astria.Properties.C03"],
        "theorems": ["Astria.C03_nonce_gate", "Astria.C03_no_replay", "Astria.C03_no_replay_history", "Astria.C03_atomic", "Astria.C03_nonce_overflow"],
        "harnesses": ["ledger"],
        "monitors": ["failed_tx_no_effect", "nonce_gate", "dump_parse"],
        "scope_regex": r"^ledger (tx|ctor|exec) ",
        "nontrivial_regex": r"^ledger (tx|exec) ",
        "rule": _LEDGER_RULE + ". non-trivial = an executed (successful or failing) transaction",
        "trusted_base": _TRUSTED,
        "assumptions": _COMMON_ASSUMPTIONS + [
            "atomicity is by construction in the model (Except carries no state); it is tied to the code by diffing the complete dump "
            "— including block fees, cached deposits and events — after every failing transaction"],
        "explanation": "theorems: nonce gate, nonce monotonicity, at-most-once along any history; monitors: failed tx => identical dump",
    },
    "C18": {
        "level": "proof",
        "lean_modules": ["Astria.Ledger.Model", "Astria.Ledger.Conservation", "Astria.Ledger.Theorems", "Astria.Ledger.Escrow", "Astria.Properties.C18"],
        "theorems": ["Astria.C18_recv_all_or_nothing", "Astria.C18_release_bounded", "Astria.C18_recv_exact", "Astria.C18_escrow_identity",
                     "Astria.C18_original_counterexample"],
        "harnesses": ["ledger"],
        "monitors": ["recv_all_or_nothing", "escrow_identity", "conservation", "dump_parse"],
        "scope_regex": r"^ledger (recv|timeout|ack|tx .*ics20|exec) ",
        "nontrivial_regex": r"^ledger (recv|timeout|ack) |^ledger tx .*ics20.* => ok",
        "rule": _LEDGER_RULE + ". non-trivial = a packet handler call or a successful ICS20 withdrawal",
        "trusted_base": _TRUSTED,
        "assumptions": _COMMON_ASSUMPTIONS + [
            "the escrow identity is proved for all histories (C18_escrow_identity) and additionally evaluated by the monitor on the implementation's dumps"],
        "explanation": "theorems: error-acknowledged receive leaves the state untouched; release from escrow bounded; exact totals",
    },
}

TEXT = {
    "C01": {
        "text": "Lean 4 theorems for every state, transaction, packet and block end: balances + escrow + block fees of every asset change "
                "by exactly the IBC mint/burn amounts; every fee is exactly base + multiplier*size of the schedule in force, in an allowed "
                "asset, debited from the signer only; block end credits the accumulated fees to the fee recipient. Every run drives the "
                "real transaction / packet / end-block code with generated histories, diffs the complete state with the model after each "
                "op and recomputes totals, fee events and fee routing from the implementation's own dumps.",
        "design_ref": "DESIGN.md §6.0, §6 C01",
        "note": "Trusted: Lean kernel, hand-written model, harness/driver, cnidarium, penumbra-ibc. One genuine defect repaired "
                "(saturating fee arithmetic, fix: e775163).",
        "technique": "Lean 4 proof (per-effect delta lemma, induction over effect / action lists) + differential correspondence on full state dumps",
    },
    "C03": {
        "text": "Lean 4 theorems: a transaction executes only at nonce = account nonce, raises exactly that nonce by one, and along any "
                "history takes effect at most once; a failing transaction leaves the state untouched. Every run executes generated "
                "transactions (failure injected at every action position by construction of the adversarial stream, stale/gapped/replayed "
                "nonces, constructed-earlier transactions) on the real code and checks that the complete dump is identical after every failure.",
        "design_ref": "DESIGN.md §6 C03",
        "note": "Trusted: Lean kernel, hand-written model, harness/driver, cnidarium's delta-drop semantics.",
        "technique": "Lean 4 proof (nonce monotonicity invariant over histories) + differential correspondence on full state dumps",
    },
    "C18": {
        "text": "Lean 4 theorems: an incoming packet that is acknowledged with an error changes nothing; a release from escrow needs the "
                "amount to be escrowed and removes exactly it; totals change by exactly the minted amount. Every run drives the real ICS20 "
                "handlers and withdrawals over two channels and four assets and checks escrow = sent - returned after every op.",
        "design_ref": "DESIGN.md §6 C18",
        "note": "Trusted: Lean kernel, hand-written model, harness/driver, penumbra-ibc. One genuine defect repaired (orphan deposit / "
                "partial effects of a failed receive, fix: 5215c1f).",
        "technique": "Lean 4 proof (effect-list semantics with all-or-nothing application) + differential correspondence on full state dumps",
    },
}
